"""C05: spec/PeerFsm.tla bound to peer.handleMessage + tor.handleEvent (B2)."""
import json, os, random
import vlib
from vlib import run_tlc, require_ok, Graph, Verdict, Internal, log


def run(prop, tier, seed, replay=None):
    v = Verdict(prop, tier, seed)
    rng = random.Random(seed)
    v.assumptions = ["messages are well-framed protocol.Message values (decoding is C04); fields are the boundary classes of PeerFsm.tla",
                     "allocation is TotalAlloc around peer.handleMessage plus the torrent-side handling of the resulting events; bound 64 KiB + 256x the "
                     "message size, plus 16 MiB before the metadata is known (index-sized tables, capped) and the sanctioned metadata buffer (<= 128 MiB) "
                     "for messages that announce a metadata size",
                     "torrent of 4 pieces; a second well-behaved peer receives broadcasts"]
    if replay and json.load(open(replay))["scenario"].get("binding") == "liveframe":
        live_frames(v, prop, tier, seed, [json.load(open(replay))["scenario"]])
        return v.finish()
    if replay and json.load(open(replay))["scenario"].get("binding") == "metadata":
        import p_metadata
        p_metadata.crash_probe(v, prop, tier, seed, [json.load(open(replay))["scenario"]])
        return v.finish()
    if replay:
        scen = [json.load(open(replay))["scenario"]]
    else:
        r = run_tlc("MCPeerFsm", "PeerFsm_mc.cfg", workers=4, timeout=600)
        require_ok(r, "PeerFsm model checking")
        v.add_tlc("PeerFsm_mc.cfg", r)
        r = run_tlc("MCPeerFsm", "PeerFsm_edges.cfg", workers=1, timeout=900)
        require_ok(r, "PeerFsm edge dump")
        g = Graph.from_result(r, lambda s: s["outcome"] == "-")
        os.unlink(r.outfile)
        walks, unc = g.covering_walks(rng, maxlen=6)
        if unc or not g.inits:
            raise Internal("PeerFsm edge dump: %d edges unreachable" % unc)
        v.cov["edge_graph"] = {"states": len(g.states), "edges": g.nedges, "covering_walks": len(walks)}
        extra = g.random_walks(rng, 1500 if tier == "quick" else 40000, maxlen=10)
        scen = [g.scenario(w, "") for w in walks + extra]
        for i, sc in enumerate(scen):
            sc["id"] = i
    vh = vlib.build_harness()
    wd = vlib.scratch("fsm-")
    sf, rf = os.path.join(wd, "scen.ndjson"), os.path.join(wd, "res.ndjson")
    with open(sf, "w") as f:
        for sc in scen:
            f.write(json.dumps(sc, separators=(",", ":")) + "\n")
    out, err = vlib.run_harness(vh, ["peerfsm", "-in", sf, "-out", rf, "-parallel", "6", "-timeout", "60"], timeout=7200)
    log(out.strip())
    handled = events = 0
    maxalloc = 0
    for line in open(rf):
        res = json.loads(line)
        sc = scen[res["index"]]
        if res.get("crash") or res.get("hang"):
            st = res.get("stderr", "")
            first = [x for x in st.splitlines() if x.startswith(("panic", "fatal", "runtime:"))][:2]
            msgs = [s["a"] for s in sc["steps"]]
            key = "handler-crash"
            if "out of memory" in st or "cannot allocate" in st:
                key = "alloc-unbounded:" + (msgs[-1]["k"] if msgs else "?") + ":oom"
            v.violation(key, "the process %s while handling %s: %s" % ("hung" if res.get("hang") else "crashed", json.dumps(msgs)[:300], first), sc)
            continue
        o = res["out"]
        if o.get("note") and not o.get("violations"):
            raise Internal("scenario %s: %s" % (sc["id"], o["note"][:500]))
        for vi in o.get("violations") or []:
            if vi["key"] == "vote-stuffing":
                v.warn("scenario %s: C12 %s: %s" % (sc["id"], vi["key"], vi["what"]))    # C12's business (metadata_probe)
                continue
            v.violation(vi["key"], vi["what"] + " (scenario %s step %d)" % (sc["id"], vi["step"]), sc)
        for nc in o.get("nonconf") or []:
            v.warn("nonconformance: scenario %s %s" % (sc["id"], nc))
        handled += o.get("handled", 0)
        events += o.get("tor_events", 0)
        maxalloc = max(maxalloc, o.get("max_alloc", 0))
        if sc["id"] % 811 == 3:
            v.sample({"init": sc["init"], "messages": [s["a"] for s in sc["steps"]][:6]})
    v.cov["traces_validated_against_impl"] = len(scen)
    v.cov["evaluations"] = handled
    v.cov["distinct_nontrivial"] = len({json.dumps([sc["init"], [s["a"] for s in sc["steps"]]], sort_keys=True) for sc in scen})
    v.cov["rule"] = "edge-covering walks over the (protocol state x message class) graph of PeerFsm.tla plus random walks; one evaluation = one message handled"
    v.cov["torrent_side_events_handled"] = events
    v.cov["largest_allocation_observed"] = maxalloc
    if not replay:
        # the same monitors over the scheduling behaviours of Sched.tla (requests outstanding, blocks arriving,
        # wild indexes): a crash or hang there is a C05 violation as well
        import p_sched
        sims = p_sched.gen_behaviours(v, "quick", seed)
        for i, sc in enumerate(sims):
            sc["id"] = len(scen) + i
            sc.setdefault("geom", i % 2)
        p_sched.run_replays(v, prop, sims)
        v.cov["traces_validated_against_impl"] += len(sims)
    if not replay:
        # the same through a live peer (its own reader goroutine): well-framed extended messages whose bencoded payload is hostile -
        # every body class of Framing.tla, incl. every known key with every unexpected value shape
        live_frames(v, prop, tier, seed)
    if not replay:
        # "... or in the torrent's processing of what the peer sent": the metadata assembly
        import p_metadata
        p_metadata.crash_probe(v, prop, tier, seed)
    return v.finish()


def live_frames(v, prop, tier, seed, cases=None):
    if cases is None:
        r = run_tlc("MCFraming", "Framing_mc.cfg", workers=1, timeout=600)
        require_ok(r, "Framing model checking (live frames)")
        seen, cases = set(), []
        for payload in r.lines("CASE"):
            c = json.loads(payload)["in"]
            if c["id"] != 20 or c["lh"] >= 0 or c["cut"] != "no" or c["sub"] not in (0, 1, 2):
                continue
            key = (c["sub"], c["body"])
            if key in seen or c["body"] in ("hugestr", "deep"):     # (the dependency's pre-allocation is C04's known finding)
                continue
            seen.add(key)
            cases.append({"kind": "liveframe", "sub": c["sub"], "body": c["body"], "binding": "liveframe"})
        os.unlink(r.outfile)
        if len(cases) < 100:
            raise Internal("live frames: only %d cases" % len(cases))
        for i, c in enumerate(cases):
            c["id"] = 30000 + i
    vh = vlib.build_harness()
    wd = vlib.scratch("lfr-")
    sf, rf = os.path.join(wd, "cases.ndjson"), os.path.join(wd, "res.ndjson")
    with open(sf, "w") as f:
        for c in cases:
            f.write(json.dumps(c, separators=(",", ":")) + "\n")
    out, err = vlib.run_harness(vh, ["c11x", "-in", sf, "-out", rf, "-parallel", "12", "-timeout", "60"], timeout=3600)
    log(out.strip())
    kept = 0
    for line in open(rf):
        res = json.loads(line)
        c = cases[res["index"]]
        if res.get("crash") or res.get("hang"):
            st = res.get("stderr", "")
            first = [x for x in st.splitlines() if x.startswith(("panic", "fatal", "runtime:"))][:2]
            v.violation("live-peer-crash", "the process %s after a live peer received a well-framed extended message (sub-id %d) with payload class %s: %s"
                        % ("hung" if res.get("hang") else "crashed", c["sub"], c["body"], first), c)
            continue
        o = res["out"]
        if o.get("note"):
            raise Internal("live frame case %s: %s" % (c["id"], o["note"]))
        for vi in o.get("violations") or []:
            v.violation(vi["key"], vi["what"], c)
        kept += 1 if any(x.get("k") == "kept" for x in (o.get("observed") or [])) else 0
    v.cov["live_frames"] = {"cases": len(cases), "peer_kept": kept,
                            "rule": "every bencoded payload class of Framing.tla (sub-ids 0, 1, 2) sent well-framed to a real peer.Run over net.Pipe: the process survives, peer.Run returns"}
    return len(cases)


def metadata_probe(v, prop, tier, seed, scen=None):
    """For C12: the peer-side handlers while the metadata is unknown - extended handshakes and ut_metadata messages of every
    class of PeerFsm.tla - with every message the peers write serialised; crashes only."""
    rng = random.Random(seed + 77)
    if scen is None:
        r = run_tlc("MCPeerFsm", "PeerFsm_edges.cfg", workers=1, timeout=900)
        require_ok(r, "PeerFsm edge dump (metadata probe)")
        g = Graph.from_result(r, lambda s: s["outcome"] == "-")
        os.unlink(r.outfile)
        walks, _ = g.covering_walks(rng, maxlen=6)
        walks += g.random_walks(rng, 800 if tier == "quick" else 10000, maxlen=8)
        scen = []
        for w in walks:
            sc = g.scenario(w, "")
            if sc["init"]["infoKnown"]:
                continue
            if not any(st["a"].get("k") in ("Ext0", "Metadata") for st in sc["steps"]):
                continue
            sc["binding"] = "peerfsm"
            scen.append(sc)
        rng.shuffle(scen)
        scen = scen[:1500 if tier == "quick" else 20000]
        for i, sc in enumerate(scen):
            sc["id"] = i
    vh = vlib.build_harness()
    wd = vlib.scratch("fsmp-")
    sf, rf = os.path.join(wd, "scen.ndjson"), os.path.join(wd, "res.ndjson")
    with open(sf, "w") as f:
        for sc in scen:
            f.write(json.dumps(sc, separators=(",", ":")) + "\n")
    out, err = vlib.run_harness(vh, ["peerfsm", "-in", sf, "-out", rf, "-parallel", "6", "-timeout", "60"], timeout=7200)
    log(out.strip())
    for line in open(rf):
        res = json.loads(line)
        sc = scen[res["index"]]
        msgs = [s["a"] for s in sc["steps"]]
        if res.get("crash"):
            st = res.get("stderr", "")
            first = [x for x in st.splitlines() if x.startswith(("panic", "fatal", "runtime:"))][:2]
            v.violation("peer-side-crash", "the process crashed while handling %s before the metadata is known: %s" % (json.dumps(msgs)[:300], first), sc)
            continue
        if res.get("hang"):
            continue
        o = res["out"]
        for vi in o.get("violations") or []:
            if vi["key"].startswith(("writer-panic", "handler-panic")):
                v.violation("peer-side-panic", vi["what"], sc)
            elif vi["key"] == "vote-stuffing":
                v.violation("vote-stuffing", vi["what"], sc)
    v.cov["peer_side_metadata"] = {"sequences": len(scen), "rule": "message sequences of PeerFsm.tla that contain an extended handshake or a ut_metadata message, "
                                   "metadata unknown, real peer and torrent handlers, written messages serialised; panics only"}
    return len(scen)
