"""C18: spec/Privacy.tla bound to a running torrent with local tracker / web seed / SOCKS proxy / scripted peers and the DHT announce hook."""
import json, os, random
import vlib
from vlib import run_tlc, require_ok, Verdict, Internal, log, Graph


def run(prop, tier, seed, replay=None):
    v = Verdict(prop, tier, seed)
    rng = random.Random(seed)
    v.assumptions = ["one torrent (40 pieces) with one HTTP tracker and one GetRight web seed on 127.0.0.1, no peers except the scripted ones; UDP trackers and Hoffman web seeds not driven",
                     "all 12 configurations x proxy/no proxy as global defaults at creation and as targets of SetConf, in every order TLC's state graph admits",
                     "the run loop's two tickers are stopped and fired on demand (hook), so Tick is a step of its own exactly as in the model",
                     "proxy = SOCKS5 on 127.0.0.1; the sandbox has no global IPv6 address, so 'peer:ipv6' is never produced even without a proxy",
                     "absence is observed after the event loop has handled the step (barrier event), the torrent has become quiet (nothing in flight, no announce running) and a further 40 ms"]
    if replay:
        cases = [json.load(open(replay))["scenario"]]
    else:
        r = run_tlc("MCPrivacy", "Privacy_mc.cfg", workers=4, timeout=600)
        require_ok(r, "Privacy model check")
        v.add_tlc("Privacy_mc.cfg", r)
        r = run_tlc("MCPrivacy", "Privacy_edges.cfg", workers=1, timeout=600)
        require_ok(r, "Privacy edge dump")
        g = Graph.from_result(r, lambda s: not s["started"])
        os.unlink(r.outfile)
        g2 = g
        walks, unc = g2.covering_walks(rng, maxlen=28)
        if unc or not g2.inits:
            raise Internal("privacy edge dump: %d edges unreachable" % unc)
        v.cov["edge_graph"] = {"states": len(g.states), "edges": g.nedges, "covering_walks": len(walks)}
        if tier != "quick":
            walks += g2.random_walks(rng, 400, maxlen=28)
        cases = []
        for k, w in enumerate(walks):
            sc = g2.scenario(w, "")
            sc["id"] = k
            # a torrent has 40 pieces: bound the Want steps
            wants = 0
            steps = []
            for st in sc["steps"]:
                if st["a"]["l"]["a"] == "Want":
                    wants += 1
                    if wants > 38:
                        break
                steps.append(st)
            sc["steps"] = steps
            cases.append(sc)
        # Privacy.tla with PxOk = FALSE: a proxied torrent whose proxy string cannot be used lets nothing past it
        r = run_tlc("MCPrivacy", "Privacy_badproxy.cfg", workers=4, timeout=600)
        require_ok(r, "Privacy model check (unusable proxy)")
        v.add_tlc("Privacy_badproxy.cfg", r)
        nbad = 0
        for px in range(5):
            for dht in ("none", "passive", "normal"):
                cases.append({"kind": "badproxy", "pxstr": px, "id": len(cases), "init": {"proxy": True, "kind": "http", "conf": {"trk": True, "ws": True, "dht": dht}}, "steps": []})
                nbad += 1
        v.cov["unusable_proxy_cases"] = nbad
    vh = vlib.build_harness()
    wd = vlib.scratch("priv-")
    sf, rf = os.path.join(wd, "cases.ndjson"), os.path.join(wd, "res.ndjson")
    with open(sf, "w") as f:
        for c in cases:
            f.write(json.dumps(c, separators=(",", ":")) + "\n")
    out, err = vlib.run_harness(vh, ["privacy", "-in", sf, "-out", rf, "-parallel", "12", "-timeout", "300"], timeout=7200)
    log(out.strip())
    seen, steps, edges = set(), 0, set()
    traces = []
    for line in open(rf):
        res = json.loads(line)
        c = cases[res["index"]]
        if res.get("crash") or res.get("hang"):
            st = res.get("stderr", "")
            first = [x for x in st.splitlines() if x.startswith(("panic", "fatal"))][:1]
            if res.get("hang"):
                raise Internal("privacy case %s hung: %s" % (c["id"], st[-500:]))
            v.violation("crash", "the process crashed on case %s: %s" % (c["id"], first), c)
            continue
        o = res["out"]
        if o.get("note"):
            raise Internal("case %s: %s" % (c["id"], o["note"]))
        for vi in o.get("violations") or []:
            v.violation(vi["key"], vi["what"], c)
        for nc in o.get("nonconf") or []:
            v.warn("nonconformance: " + nc)
        if o.get("events"):
            traces.append((c, o["events"]))
        seen |= set(o.get("seen") or [])
        steps += len(c["steps"])
        for st in c["steps"]:
            edges.add(json.dumps([st["a"]["l"], st["s"]], sort_keys=True))
        if c["id"] % 9 == 1:
            v.sample({"init": c["init"], "steps": [s["a"]["l"] for s in c["steps"]][:12], "observed": (o.get("observed") or [])[:12]})
    # trace validation by TLC: the monitor pass decides PrivacyInv on the observed states, the strict pass
    # checks that every observed step is a step of Privacy.tla
    if traces:
        twd = vlib.scratch("privt-")
        tf = os.path.join(twd, "trace.ndjson")
        index = []
        with open(tf, "w") as f:
            for c, ev in traces:
                for k, e in enumerate(ev):
                    f.write(json.dumps(e, separators=(",", ":")) + "\n")
                    index.append((c, k))
        r = run_tlc("PrivacyTrace", "PrivacyTrace_mon.cfg", workdir=twd, workers=1, env={"TRACE": tf}, timeout=3600)
        if r.violation:
            import re
            m = re.findall(r"^/\\ l = (\d+)", open(r.outfile).read(), re.M)
            line = int(m[-1]) - 1 if m else 1
            c, k = index[max(0, line - 1)]
            v.violation("observed-" + r.violation, "invariant %s of Privacy.tla is false in a state observed from the implementation (case %s step %d: %s)"
                        % (r.violation, c["id"], k - 1, json.dumps(traces[[x[0]["id"] for x in traces].index(c["id"])][1][k])[:300]), c)
        elif not r.ok:
            raise Internal("privacy monitor pass failed: %s\n%s" % (r.error, r.tail))
        v.cov["states"] += r.distinct
        v.cov["transitions"] += r.generated
        r = run_tlc("PrivacyTrace", "PrivacyTrace_strict.cfg", workdir=twd, workers=1, env={"TRACE": tf}, timeout=3600)
        if not r.ok and not r.violation:
            raise Internal("privacy trace validation failed: %s\n%s" % (r.error, r.tail))
        bad = {}
        for x in r.lines("BADLINE"):
            ln = int(x.split()[0])
            c, k = index[ln - 1]
            bad.setdefault(c["id"], (k, x.split()[1]))
        for cid, (k, a) in list(bad.items())[:10]:
            v.warn("nonconformance: case %s step %d (%s) is not a step of Privacy.tla with the observed outputs" % (cid, k - 1, a))
        v.cov["trace_validation"] = {"traces": len(traces), "events": len(index), "rejected_traces": len(bad)}
        v.cov["states"] += r.distinct
        v.cov["transitions"] += r.generated
    # anti-vacuity: every producible observation class must have been produced somewhere
    need = {"tracker:port", "tracker:noport", "webseed", "dht4:port", "dht4:noport", "dht6:port", "dht6:noport", "peer:version", "peer:port",
            "peer:dhtport", "incoming:accepted", "incoming:refused", "peer:ext0"}
    if not replay and need - seen and not v.violations:
        raise Internal("privacy: observation classes never produced: %s" % sorted(need - seen))
    v.cov["traces_validated_against_impl"] = len(cases)
    v.cov["evaluations"] = steps
    v.cov["distinct_nontrivial"] = len(edges)
    v.cov["rule"] = "walks covering the edges of the TLC state graph of Privacy.tla; every step's observations checked against Forbidden(conf, proxy) and compared with out"
    v.cov["observation_classes_seen"] = sorted(seen)
    return v.finish()
