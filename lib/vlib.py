"""Common machinery for /verif/bin/check: TLC runs, graph handling, harness
build/run, known findings, evidence files and verdicts."""
import json, os, re, shutil, subprocess, sys, tempfile, time, random, hashlib, atexit, collections

VERIF = os.path.dirname(os.path.dirname(os.path.abspath(__file__)))
SPEC = os.path.join(VERIF, "spec")
HARNESS = os.path.join(VERIF, "harness")
REPO = os.environ.get("VERIF_REPO", "/repo")
JAR = "/opt/veriftools/tla/tla2tools.jar:/opt/veriftools/tla/CommunityModules-deps.jar"

EXIT_OK, EXIT_VIOLATION, EXIT_INTERNAL = 0, 1, 2

_scratch = []


def scratch(prefix="verif-"):
    d = tempfile.mkdtemp(prefix=prefix, dir=os.environ.get("VERIF_TMP", "/tmp"))
    _scratch.append(d)
    return d


def _cleanup():
    for d in _scratch:
        shutil.rmtree(d, ignore_errors=True)


atexit.register(_cleanup)


class Internal(Exception):
    """Something in the machinery failed: exit 2, never a violation."""


def log(*a):
    print(*a, file=sys.stderr, flush=True)


# --------------------------------------------------------------------------
# TLC

class TLCResult:
    def __init__(self):
        self.generated = 0
        self.distinct = 0
        self.depth = 0
        self.ok = False
        self.violation = None     # name of violated invariant / property
        self.error = None         # other TLC error text
        self.outfile = None
        self.wall = 0.0
        self.coverage = {}        # action -> count (when -coverage)
        self.trace = []           # counterexample states (raw text) if any

    def lines(self, prefix):
        """Yield the payload of lines PrintT'ed with a given prefix."""
        with open(self.outfile, errors="replace") as f:
            for line in f:
                if line.startswith('"' + prefix + ' '):
                    # PrintT of a string prints it quoted with escapes
                    s = line.rstrip("\n")
                    yield json.loads(s)[len(prefix) + 1:]
                elif line.startswith(prefix + ' '):
                    yield line[len(prefix) + 1:].rstrip("\n")


def run_tlc(module, cfg, workdir=None, workers=16, simulate=None, depth=None, seed=None,
            timeout=1800, coverage=False, heap=None, extra_files=(), env=None, dfs=False,
            props=None, continue_on_violation=False):
    """Run TLC on spec/<module>.tla with spec/<cfg>.  Returns TLCResult.
    The run happens in a scratch directory that holds a copy of the specs."""
    wd = workdir or scratch("tlc-")
    for fn in os.listdir(SPEC):
        if fn.endswith(".tla") or fn.endswith(".cfg"):
            shutil.copy(os.path.join(SPEC, fn), wd)
    for fn in extra_files:
        shutil.copy(fn, wd)
    md = os.path.join(wd, "md-%d" % random.getrandbits(32))
    out = os.path.join(wd, "out-%s-%d.txt" % (os.path.basename(cfg), random.getrandbits(32)))
    jtmp = os.path.join(wd, "jtmp")   # TLC unpacks its standard modules into java.io.tmpdir and leaves them there
    os.makedirs(jtmp, exist_ok=True)
    jopts = ["-XX:+UseParallelGC", "-Xss64m", "-Djava.io.tmpdir=" + jtmp]
    if heap:
        jopts.append("-Xmx" + heap)
    if dfs:
        jopts.append("-Dtlc2.tool.queue.IStateQueue=StateDeque")
    if props:
        for k, v in props.items():
            jopts.append("-D%s=%s" % (k, v))
    cmd = ["java"] + jopts + ["-cp", JAR, "tlc2.TLC", "-workers", str(workers), "-metadir", md,
                               "-config", cfg, "-noGenerateSpecTE"]
    if simulate is not None:
        cmd += ["-simulate", "num=%d" % simulate]
        if depth:
            cmd += ["-depth", str(depth)]
    if seed is not None and simulate is not None:
        cmd += ["-seed", str(seed)]
    if coverage:
        cmd += ["-coverage", "1"]
    if continue_on_violation:
        cmd += ["-continue"]
    cmd.append(module + ".tla")
    e = dict(os.environ)
    e.pop("JAVA_TOOL_OPTIONS", None)
    if env:
        e.update(env)
    t0 = time.time()
    with open(out, "w") as fo:
        try:
            p = subprocess.run(cmd, cwd=wd, stdout=fo, stderr=subprocess.STDOUT, timeout=timeout, env=e)
            rc = p.returncode
        except subprocess.TimeoutExpired:
            subprocess.run(["pkill", "-f", md], check=False)
            rc = -9
    r = TLCResult()
    r.wall = time.time() - t0
    r.outfile = out
    shutil.rmtree(md, ignore_errors=True)
    shutil.rmtree(jtmp, ignore_errors=True)
    if rc == -9:
        r.error = "timeout after %ds" % timeout
        return r
    tail = []
    with open(out, errors="replace") as f:
        cov_re = re.compile(r"^<(\w+) line (\d+), col \d+ to line \d+, col \d+ of module (\w+)>: (\d+):(\d+)")
        for line in f:
            if line.startswith('"') or line.startswith("EDGE ") or line.startswith("BEH "):
                continue
            tail.append(line)
            if len(tail) > 400:
                tail.pop(0)
            m = re.match(r"^(\d[\d,]*) states generated, (\d[\d,]*) distinct states found", line)
            if m:
                r.generated = int(m.group(1).replace(",", ""))
                r.distinct = int(m.group(2).replace(",", ""))
            m = re.match(r"^The depth of the complete state graph search is (\d+)", line)
            if m:
                r.depth = int(m.group(1))
            m = re.match(r"^Error: Invariant (\S+) is violated", line)
            if m and not r.violation:
                r.violation = m.group(1)
            m = re.match(r"^Error: Action property (\S+) is violated", line)
            if m and not r.violation:
                r.violation = m.group(1)
            m = re.match(r"^Error: Temporal propert(ies were|y \S+ was) violated", line)
            if m and not r.violation:
                r.violation = "temporal"
            if line.startswith("Error: ") and not r.violation and not r.error and \
               "Invariant" not in line and "The behavior up to" not in line and "The following behavior" not in line:
                r.error = line.strip()
            m = cov_re.match(line)
            if m:
                r.coverage[m.group(1)] = r.coverage.get(m.group(1), 0) + int(m.group(4))
            m = re.match(r"^The number of states generated: (\d+)", line)
            if m:
                r.generated = int(m.group(1))
    r.tail = "".join(tail[-60:])
    if simulate is not None:
        r.ok = r.violation is None and r.error is None
    else:
        r.ok = (rc == 0 and r.violation is None and r.error is None)
    if rc != 0 and not r.violation and not r.error:
        r.error = "tlc exit %d" % rc
    return r


def require_ok(r, what):
    if r.violation:
        raise Internal("%s: TLC reports %s violated on the specification itself "
                       "(design finding, not a verdict on the code):\n%s" % (what, r.violation, r.tail))
    if not r.ok:
        raise Internal("%s: TLC failed: %s\n%s" % (what, r.error, r.tail))


# --------------------------------------------------------------------------
# State graph from an EDGE dump

class Graph:
    def __init__(self):
        self.ids = {}
        self.states = []
        self.out = collections.defaultdict(list)   # sid -> [(label, sid2)]
        self.inits = []
        self.nedges = 0

    def sid(self, st):
        key = json.dumps(st, sort_keys=True, separators=(",", ":"))
        i = self.ids.get(key)
        if i is None:
            i = len(self.states)
            self.ids[key] = i
            self.states.append(st)
        return i

    @classmethod
    def from_result(cls, res, is_init):
        g = cls()
        seen = set()
        for payload in res.lines("EDGE"):
            e = json.loads(payload)
            a, b = g.sid(e["f"]), g.sid(e["t"])
            lab = e["a"]
            key = (a, json.dumps(lab, sort_keys=True), b)
            if key in seen:
                continue
            seen.add(key)
            g.out[a].append((lab, b))
            g.nedges += 1
        hasin = set()
        for a, l in g.out.items():
            for _, b in l:
                hasin.add(b)
        g.inits = [i for i, s in enumerate(g.states) if is_init(s)]
        return g

    def shortest_prefixes(self):
        """BFS from the initial states: pred[s] = (prev, label)."""
        pred = {i: None for i in self.inits}
        q = collections.deque(self.inits)
        while q:
            a = q.popleft()
            for lab, b in self.out.get(a, ()):
                if b not in pred:
                    pred[b] = (a, lab)
                    q.append(b)
        return pred

    def path_to(self, pred, s):
        p = []
        while pred[s] is not None:
            a, lab = pred[s]
            p.append((lab, s))
            s = a
        p.reverse()
        return s, p

    def covering_walks(self, rng, maxlen=64, limit=None):
        """Greedy set of walks from initial states covering every edge: each
        walk = shortest prefix to an uncovered edge, then keeps following
        uncovered edges (random successors when none is left uncovered)."""
        pred = self.shortest_prefixes()
        uncovered = set()
        for a, l in self.out.items():
            if a in pred:
                for k in range(len(l)):
                    uncovered.add((a, k))
        order = sorted(uncovered)
        rng.shuffle(order)
        walks = []
        for (a, k) in order:
            if (a, k) not in uncovered:
                continue
            init, path = self.path_to(pred, a)
            # mark the prefix as covered too
            cur = init
            for lab, b in path:
                for kk, (l2, b2) in enumerate(self.out[cur]):
                    if b2 == b and l2 == lab:
                        uncovered.discard((cur, kk))
                        break
                cur = b
            lab, b = self.out[a][k]
            uncovered.discard((a, k))
            path = path + [(lab, b)]
            cur = b
            while len(path) < maxlen:
                succ = self.out.get(cur)
                if not succ:
                    break
                unc = [kk for kk in range(len(succ)) if (cur, kk) in uncovered]
                kk = rng.choice(unc) if unc else rng.randrange(len(succ))
                uncovered.discard((cur, kk))
                lab, b = succ[kk]
                path.append((lab, b))
                cur = b
            walks.append((init, path))
            if limit and len(walks) >= limit:
                break
        return walks, len(uncovered)

    def random_walks(self, rng, n, maxlen=64):
        walks = []
        for _ in range(n):
            cur = rng.choice(self.inits)
            init = cur
            path = []
            while len(path) < maxlen:
                succ = self.out.get(cur)
                if not succ:
                    break
                lab, b = rng.choice(succ)
                path.append((lab, b))
                cur = b
            walks.append((init, path))
        return walks

    def scenario(self, walk, sid_prefix):
        init, path = walk
        return {"init": self.states[init],
                "steps": [{"a": lab, "s": self.states[b]} for lab, b in path]}


# --------------------------------------------------------------------------
# Go harness

GOENV = {"GOFLAGS": "-mod=mod", "GOPROXY": "off", "GOSUMDB": "off", "GOTOOLCHAIN": "local", "CGO_ENABLED": "0"}


def build_harness(tags="verif"):
    """Build /verif/harness/cmd/vh against /repo's current working tree."""
    e = dict(os.environ)
    e.update(GOENV)
    # go.sum must match the repository's
    shutil.copy(os.path.join(REPO, "go.sum"), os.path.join(HARNESS, "go.sum"))
    out = os.path.join(HARNESS, "bin", "vh")
    os.makedirs(os.path.dirname(out), exist_ok=True)
    p = subprocess.run(["go", "build", "-tags", tags, "-o", out, "./cmd/vh"], cwd=HARNESS, env=e,
                       stdout=subprocess.PIPE, stderr=subprocess.STDOUT, text=True)
    if p.returncode != 0:
        # a tree that does not compile is not a property violation
        raise Internal("harness build failed:\n" + p.stdout[-4000:])
    return out


def run_harness(vh, args, stdin_path=None, timeout=3600, env=None):
    e = dict(os.environ)
    e.update(GOENV)
    if env:
        e.update(env)
    fin = open(stdin_path) if stdin_path else subprocess.DEVNULL
    try:
        p = subprocess.run([vh] + args, stdin=fin, stdout=subprocess.PIPE, stderr=subprocess.PIPE,
                           text=True, timeout=timeout, env=e, errors="replace")
    except subprocess.TimeoutExpired:
        raise Internal("harness %s timed out after %ds" % (args[:1], timeout))
    finally:
        if stdin_path:
            fin.close()
    if p.returncode not in (0,):
        raise Internal("harness %s failed (exit %d):\n%s\n%s" % (args, p.returncode, p.stdout[-2000:], p.stderr[-4000:]))
    return p.stdout, p.stderr


# --------------------------------------------------------------------------
# Known findings, verdict, evidence

def load_known():
    p = os.path.join(VERIF, "KNOWN_FINDINGS.json")
    if not os.path.exists(p):
        return []
    return json.load(open(p))["findings"]


class Verdict:
    def __init__(self, prop, tier, seed):
        self.prop, self.tier, self.seed = prop, tier, seed
        self.t0 = time.time()
        self.violations = []     # (key, what, replay)
        self.known_hits = {}     # key -> what
        self.warnings = []
        self.cov = {"states": 0, "transitions": 0, "traces_validated_against_impl": 0, "samples": [],
                    "evaluations": 0, "distinct_nontrivial": 0, "rule": "", "tlc_runs": [], "exhaustive": False}
        self.assumptions = []
        self.known = [k for k in load_known() if k["property"] == prop]

    def add_tlc(self, name, r, exhaustive=True):
        self.cov["states"] += r.distinct or r.generated
        self.cov["transitions"] += r.generated
        self.cov["tlc_runs"].append({"name": name, "distinct_states": r.distinct, "states_generated": r.generated,
                                     "depth": r.depth, "wall_s": round(r.wall, 1), "exhaustive": exhaustive})

    def violation(self, key, what, replay_obj=None):
        for k in self.known:
            if k["status"] == "known" and k["key"] == key:
                if key not in self.known_hits:
                    self.known_hits[key] = k["what"]
                return
        if any(v[0] == key for v in self.violations):
            return
        path = ""
        if replay_obj is not None:
            d = os.path.join(VERIF, "replays", self.prop)
            os.makedirs(d, exist_ok=True)
            h = hashlib.sha1(json.dumps(replay_obj, sort_keys=True).encode()).hexdigest()[:12]
            path = os.path.join(d, "%s-%s.json" % (re.sub(r"[^A-Za-z0-9_.-]", "_", key)[:60], h))
            with open(path, "w") as f:
                json.dump({"property": self.prop, "key": key, "what": what, "scenario": replay_obj}, f, indent=1)
        self.violations.append((key, what, path))

    def warn(self, msg):
        if len(self.warnings) < 200:
            self.warnings.append(msg)

    def sample(self, s):
        if len(self.cov["samples"]) < 5:
            self.cov["samples"].append(s)

    def finish(self, level="model_checking"):
        wall = time.time() - self.t0
        for key, what in self.known_hits.items():
            print("KNOWN-FINDING: property=%s %s [%s]" % (self.prop, what, key))
        shown = set()
        for key, what, path in self.violations:
            if key in shown:
                continue
            shown.add(key)
            print("VIOLATION property=%s replay=%s" % (self.prop, path or "-"))
            print("  %s: %s" % (key, what))
        for w in self.warnings[:20]:
            print("WARNING " + w)
        ev = {"property_id": self.prop, "tier": self.tier, "seed": self.seed, "level": level,
              "coverage": self.cov, "assumptions": self.assumptions, "wall_s": round(wall, 1),
              "violations": len(shown), "known_findings_observed": sorted(self.known_hits),
              "warnings": self.warnings[:50]}
        os.makedirs(os.path.join(VERIF, "evidence"), exist_ok=True)
        with open(os.path.join(VERIF, "evidence", self.prop + ".json"), "w") as f:
            json.dump(ev, f, indent=1)
        print("%s %s: %s in %.1fs (states=%d transitions=%d impl-traces=%d evaluations=%d)" % (
            self.prop, self.tier, "VIOLATED" if shown else "ok", wall, self.cov["states"], self.cov["transitions"],
            self.cov["traces_validated_against_impl"], self.cov["evaluations"]))
        return EXIT_VIOLATION if shown else EXIT_OK
