"""C15: spec/Tracker.tla (lifetime) and spec/UdpExchange.tla (retransmission loop) bound to the tracker package."""
import json, os, random
import vlib
from vlib import run_tlc, require_ok, Graph, Verdict, Internal, log

UDP_REPLIES = {"ok30", "ok3600", "okneg", "fail", "malformed"}


def crash_first(st):
    return [x for x in st.splitlines() if x.startswith(("panic", "fatal"))][:1]


def run(prop, tier, seed, replay=None):
    v = Verdict(prop, tier, seed)
    rng = random.Random(seed)
    v.assumptions = ["the clock is advanced by moving the time of the last attempt into the past (tracker.VerifShift)",
                     "the tracker is a local HTTP server / UDP socket on 127.0.0.1: the IPv6 leg always fails at dial, the IPv4 leg carries the script",
                     "reply classes of MCTracker.tla (8) and elapsed times just below/above 5, 15, 30, 60 min and 2400 h; "
                     "UDP time-outs only through the retransmission loop on a scripted connection"]
    if replay:
        scen = [json.load(open(replay))["scenario"]]
    else:
        r = run_tlc("MCTracker", "Tracker_mc.cfg", workers=8, timeout=900)
        require_ok(r, "Tracker model checking")
        v.add_tlc("Tracker_mc.cfg", r)
        r = run_tlc("MCUdpExchange", "UdpExchange_mc.cfg", workers=1, timeout=300)
        require_ok(r, "UdpExchange model checking")
        v.add_tlc("UdpExchange_mc.cfg", r)
        scen = []
        for p in sorted(set(r.lines("CASE"))):
            c = json.loads(p)
            scen.append({"kind": "udploop", "hist": c["hist"], "result": c["result"], "sent": c["sent"]})
        os.unlink(r.outfile)
        # announce replies cut in the middle of a peer entry (K whole entries, J stray bytes)
        for k in range(0, 4):
            for j in range(0, 6):
                scen.append({"kind": "udpcut", "k": k, "j": j})
        # the two address families of a UDP tracker answer, fail or are absent independently
        for mode in ("ok:1800", "ok:7200", "ok:600", "ok:30", "error"):
            scen.append({"kind": "udpfam", "v4": mode, "v6": "absent"})
            scen.append({"kind": "udpfam", "v4": "absent", "v6": mode})
        nloop = len(scen)
        if nloop < 150:
            raise Internal("UdpExchange: only %d reply sequences" % nloop)
        r = run_tlc("MCTracker", "Tracker_edges.cfg", workers=1, timeout=900)
        require_ok(r, "Tracker edge dump")
        g = Graph.from_result(r, lambda s: s["el"] == -1 and s["ncontacts"] == 0 and not s["locked"])
        os.unlink(r.outfile)
        walks, unc = g.covering_walks(rng, maxlen=12)
        if unc or not g.inits:
            raise Internal("tracker edge dump: %d edges unreachable" % unc)
        v.cov["edge_graph"] = {"states": len(g.states), "edges": g.nedges, "covering_walks": len(walks)}
        if tier == "quick" and len(walks) > 1200:
            rng.shuffle(walks)
            # keep the walks in which the tracker is asked again after a reply that announced a long wait

            def asked_again(w):
                acts = [g.scenario(w, "")["steps"][k]["a"] for k in range(len(w))]
                for k, a in enumerate(acts):
                    if a["a"] == "AnnounceEnd" and a.get("r") in ("never", "reason30", "ok3600"):
                        if any(b["a"] == "AnnounceBegin" for b in acts[k + 1:]):
                            return True
                return False
            walks.sort(key=lambda w: not asked_again(w))
            v.cov["walks_asking_again_after_long_wait"] = sum(1 for w in walks[:1200] if asked_again(w))
            walks = walks[:1200]
        for k, w in enumerate(walks):
            sc = g.scenario(w, "")
            del sc["init"]
            used = {st["a"].get("r") for st in sc["steps"] if st["a"]["a"] == "AnnounceEnd"}
            sc["kind"] = "udp" if (k % 2 == 1 and used <= UDP_REPLIES) else "http"
            scen.append(sc)
        for i, sc in enumerate(scen):
            sc["id"] = i
    vh = vlib.build_harness()
    allscen, scen = scen, [x for x in scen if x.get("kind") != "bigreply" and not (isinstance(x.get("init"), dict) and "proxy" in x["init"])]
    wd = vlib.scratch("trk-")
    sf, rf = os.path.join(wd, "scen.ndjson"), os.path.join(wd, "res.ndjson")
    with open(sf, "w") as f:
        for sc in scen:
            f.write(json.dumps(sc, separators=(",", ":")) + "\n")
    out, err = vlib.run_harness(vh, ["tracker", "-in", sf, "-out", rf, "-parallel", "12", "-timeout", "90"], timeout=3600)
    log(out.strip())
    kinds = {}
    steps = 0
    for line in open(rf):
        res = json.loads(line)
        sc = scen[res["index"]]
        if res.get("crash") or res.get("hang"):
            st = res.get("stderr", "")
            first = [x for x in st.splitlines() if x.startswith(("panic", "fatal"))][:1]
            v.violation("tracker-crash", "the process %s in scenario %s: %s" % ("hung" if res.get("hang") else "crashed", sc["id"], first), sc)
            continue
        o = res["out"]
        if o.get("note"):
            raise Internal("scenario %s: %s" % (sc["id"], o["note"]))
        for vi in o.get("violations") or []:
            v.violation(vi["key"], vi["what"] + " (scenario %s step %d)" % (sc["id"], vi["step"]), sc)
        for nc in o.get("nonconf") or []:
            v.warn("nonconformance: scenario %s: %s" % (sc["id"], nc))
        kinds[sc["kind"]] = kinds.get(sc["kind"], 0) + 1
        steps += o.get("steps_done", 0)
        if sc["id"] % 301 == 11:
            v.sample({"kind": sc["kind"], "steps": [st["a"] for st in sc.get("steps", [])][:10], "hist": sc.get("hist")})
    # at the level of the torrent: a reply with more peers than the event queue has room for, delivered while the loop is busy
    if not replay or allscen[0].get("kind") == "bigreply":
        big = [{"kind": "bigreply", "npeers": n, "id": 9000 + k} for k, n in enumerate((40, 700, 1500))] if not replay else allscen
        wd2 = vlib.scratch("trkbig-")
        sf2, rf2 = os.path.join(wd2, "c.ndjson"), os.path.join(wd2, "r.ndjson")
        with open(sf2, "w") as f:
            for c in big:
                f.write(json.dumps(c) + "\n")
        out2, _ = vlib.run_harness(vh, ["privacy", "-in", sf2, "-out", rf2, "-parallel", "3", "-timeout", "120"], timeout=1200)
        log(out2.strip())
        for line in open(rf2):
            res = json.loads(line)
            c = big[res["index"]]
            if res.get("crash") or res.get("hang"):
                if res.get("hang"):
                    raise Internal("bigreply case hung: %s" % res.get("stderr", "")[-300:])
                v.violation("tracker-crash", "the process crashed on a tracker reply of %d peers: %s" % (c["npeers"], crash_first(res.get("stderr", ""))), c)
                continue
            o = res["out"]
            if o.get("note"):
                raise Internal("bigreply: %s" % o["note"])
            for vi in o.get("violations") or []:
                v.violation(vi["key"], vi["what"], c)
            for nc in o.get("nonconf") or []:
                v.warn("nonconformance: bigreply: " + nc)
        v.cov["big_replies"] = {"cases": len(big), "rule": "tracker replies of 40 / 700 / 1500 peers delivered to a running torrent whose event loop is busy; GetKnowns must hold exactly the encoded peers"}
    # the announce discipline of a running torrent, with and without a proxy, HTTP and UDP: walks of Privacy.tla in which
    # the loop ticks repeatedly after an announce; a contact while the specification's tracker is not due is too early
    disc_replay = replay and isinstance(allscen[0].get("init"), dict) and "proxy" in allscen[0]["init"]
    if not replay or disc_replay:
      pcs = allscen if disc_replay else None
      if pcs is None:
          r = run_tlc("MCPrivacy", "Privacy_edges.cfg", workers=1, timeout=600)
          require_ok(r, "Privacy edge dump (announce discipline)")
          g = Graph.from_result(r, lambda s: not s["started"])
          os.unlink(r.outfile)

          def follow(init, names):
              cur, path = init, []
              for nm in names:
                  nxt = [(lab, b) for lab, b in g.out[cur] if lab["l"]["a"] == nm]
                  if not nxt:
                      raise Internal("announce discipline: no %s edge" % nm)
                  path.append(nxt[0])
                  cur = nxt[0][1]
              return (init, path)
          walks = []
          for i in g.inits:
              st = g.states[i]
              if st["conf"] == {"trk": True, "ws": False, "dht": "none"}:
                  walks.append(follow(i, ["Start", "Tick", "Tick", "Tick", "TrackerDue", "Tick", "Tick", "Tick", "TrackerDue", "Tick", "Tick"]))
          pcs = []
          for k, w in enumerate(walks):
              sc = g.scenario(w, "")
              sc["id"] = 9500 + k
              pcs.append(sc)
      wd3 = vlib.scratch("trkdisc-")
      sf3, rf3 = os.path.join(wd3, "c.ndjson"), os.path.join(wd3, "r.ndjson")
      with open(sf3, "w") as f:
          for c in pcs:
              f.write(json.dumps(c) + "\n")
      out3, _ = vlib.run_harness(vh, ["privacy", "-in", sf3, "-out", rf3, "-parallel", "4", "-timeout", "120"], timeout=1200)
      log(out3.strip())
      contacts = 0
      for line in open(rf3):
          res = json.loads(line)
          c = pcs[res["index"]]
          if res.get("crash") or res.get("hang"):
              raise Internal("announce discipline case failed: %s" % res.get("stderr", "")[-300:])
          o = res["out"]
          if o.get("note"):
              raise Internal("announce discipline: %s" % o["note"])
          for e in o.get("early") or []:
              v.violation("contact-too-early:torrent", e, c)
          contacts += sum(1 for ob in (o.get("observed") or []) if ob and any(x.startswith("tracker:") for x in ob))
      v.cov["announce_discipline"] = {"walks": len(pcs), "contacts": contacts,
                                      "rule": "HTTP / UDP tracker x proxy / no proxy: repeated ticks after an announce on a running torrent"}
      if contacts < 4 and not disc_replay:
          raise Internal("announce discipline: only %d contacts (vacuous)" % contacts)
    v.cov["traces_validated_against_impl"] = len(scen)
    v.cov["evaluations"] = len(scen)
    v.cov["distinct_nontrivial"] = len({json.dumps([sc.get("hist"), [st["a"] for st in sc.get("steps", [])], sc["kind"]], sort_keys=True) for sc in scen})
    v.cov["rule"] = ("every reply sequence of UdpExchange.tla through the real retransmission loop (both exchanges); edge-covering walks of "
                     "Tracker.tla replayed against a local HTTP / UDP tracker, tracker state compared after every action")
    v.cov["scenarios_by_kind"] = kinds
    v.cov["impl_steps_replayed"] = steps
    return v.finish()
