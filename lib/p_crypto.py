"""C07 (Handshake.tla) and C08 (CryptoPolicy.tla, CryptoConn.tla): bound to the real handshakes and crypto.Conn (harness binding "crypto")."""
import json, os, random
import vlib
from vlib import run_tlc, require_ok, Verdict, Internal, log


def harness(v, prop, cases, parallel=12, timeout=90, interop=False):
    vh = vlib.build_harness()
    wd = vlib.scratch("cry-")
    sf, rf = os.path.join(wd, "cases.ndjson"), os.path.join(wd, "res.ndjson")
    with open(sf, "w") as f:
        for c in cases:
            f.write(json.dumps(c, separators=(",", ":")) + "\n")
    out, err = vlib.run_harness(vh, ["crypto", "-in", sf, "-out", rf, "-parallel", str(parallel), "-timeout", str(timeout)], timeout=7200)
    log(out.strip())
    obs = {}
    for line in open(rf):
        res = json.loads(line)
        c = cases[res["index"]]
        if res.get("crash") or res.get("hang"):
            st = res.get("stderr", "")
            first = [x for x in st.splitlines() if x.startswith(("panic", "fatal"))][:1]
            v.violation("crash:" + c["kind"], "the process %s on case %s: %s" % ("hung" if res.get("hang") else "crashed", json.dumps(c)[:300], first), c)
            continue
        o = res["out"]
        if o.get("note"):
            raise Internal("case %s: %s" % (c["id"], o["note"]))
        for vi in o.get("violations") or []:
            if prop in vi["prop"].split(","):
                v.violation(vi["key"], vi["what"], c)
            elif interop and c["kind"].startswith("seg"):
                # C08: "an independent implementation interoperates, the receiver gets exactly the bytes the sender wrote"
                v.violation("interop:" + vi["key"], vi["what"], c)
            else:
                v.warn("%s %s: %s" % (vi["prop"], vi["key"], vi["what"]))
        for nc in o.get("nonconf") or []:
            v.warn("nonconformance: " + nc)
        k = c["kind"] + ":" + (o.get("observed", "") if c["kind"] == "policy" else "run")
        obs[k] = obs.get(k, 0) + 1
        if c["id"] % 977 == 3:
            v.sample({k2: c[k2] for k2 in c if k2 != "id"})
    return obs


def boundaries(role, hs, c):
    """Field ends of the stream flowing towards the code under test."""
    if hs == "plain":
        ends = [1, 20, 28, 48, 68, 68 + c["early"]]
        return [e for e in ends if e > 0]
    if role == "server":
        ia = {"none": 0, "bt": 68, "bt+2": 70}[c["ia"]]
        e, ends = 0, []
        for ln in (96, c["pada"], 20, 20, 8, 4, 2, c["padc"], 2, ia):
            e += ln
            ends.append(e)
        tail = (68 if c["ia"] == "none" else 0) + c["early"]
        if tail:
            if c["ia"] == "none":
                ends += [e + 20, e + 28, e + 48, e + 68]
            ends.append(e + tail)
        return ends
    e, ends = 0, []
    for ln in (96, c["padb"], 8, 4, 2, c["padd"], 20, 8, 20, 20, c["early"]):
        e += ln
        ends.append(e)
    return ends


def seg_cases(tier, rng):
    cases = []
    pads = [0, 1, 3] if tier == "quick" else [0, 1, 3, 40, 512]
    for hs in ("plain", "crypto"):
        for role in ("server", "client"):
            params = []
            if hs == "plain":
                params = [{"early": e} for e in (0, 2, 5)]
            elif role == "server":
                params = [{"pada": a, "padc": c, "ia": ia, "early": e} for a in pads for c in pads for ia in ("none", "bt", "bt+2") for e in (0, 2)]
            else:
                params = [{"padb": b, "padd": d, "sel": sel, "early": e} for b in pads for d in pads for sel in (1, 2) for e in (0, 2, 5)]
            for p in params:
                ends = boundaries(role, hs, p)
                plans = [[], [-1]]
                singles = sorted({x for e in ends for x in (e - 1, e, e + 1) if 0 < x < ends[-1]})
                if tier == "quick":
                    # all single cuts for the smallest pads, a seeded sample otherwise
                    small = all(p.get(k, 0) <= 1 for k in ("pada", "padb", "padc", "padd"))
                    pick = singles if small else rng.sample(singles, min(6, len(singles)))
                else:
                    pick = singles
                plans += [[x] for x in pick]
                n2 = 4 if tier == "quick" else 40
                for _ in range(n2):
                    plans.append(sorted(rng.sample(singles, min(len(singles), rng.randint(2, 3)))))
                for cuts in plans:
                    cases.append(dict(p, kind="seg" + role, hs=hs, cuts=cuts))
                # Handshake!ServerAccepts: an exchange keyed with one served torrent whose handshake names the other
                if hs == "crypto" and role == "server" and p["pada"] <= 1 and p["padc"] <= 1:
                    for cuts in ([], [-1]):
                        cases.append(dict(p, kind="segserver", hs=hs, cuts=cuts, skey="B"))
    return cases


def run_c07(prop, tier, seed, replay=None):
    v = Verdict(prop, tier, seed)
    rng = random.Random(seed)
    v.assumptions = ["the other party is the harness's independent MSE / BitTorrent handshake implementation over a scripted connection that returns exactly "
                     "the segments of the cut plan (each Read ends at the next cut; everything buffered is delivered once the sender has flushed)",
                     "cut plans: all coalesced, byte at a time, every single cut at each field boundary -1/0/+1, seeded 2-3-cut combinations; pads 0,1,3 (quick) "
                     "+40,512 (thorough); IA none / handshake / handshake+2; early data 0,2,5 bytes; both roles, both handshake kinds",
                     "segmentation cases: DefaultOptions(prefer=true, force=false) on the side under test; agreement of the two ends (outcome, cipher mode, "
                     "info-hash, peer ids): all 2^6 x 2^6 option pairs x both handshake kinds, real client against real server over net.Pipe"]
    if replay:
        cases = [json.load(open(replay))["scenario"]]
    else:
        r = run_tlc("MCHandshake", "Handshake_mc.cfg", workers=4, timeout=600)
        require_ok(r, "Handshake model checking")
        v.add_tlc("Handshake_mc.cfg", r)
        cases = seg_cases(tier, rng)
        # "client and server always agree on these values ... all option combinations that allow the handshake to succeed":
        # every cell of the CryptoPolicy.tla table, real client against real server; only the agreement observables count here
        r = run_tlc("MCCryptoPolicy", "CryptoPolicy_mc.cfg", workers=4, timeout=600)
        require_ok(r, "CryptoPolicy_mc.cfg")
        v.add_tlc("CryptoPolicy_mc.cfg", r)
        pol = []
        for p in sorted(set(r.lines("CASE"))):
            c = json.loads(p)
            c["kind"] = "policy"
            pol.append(c)
            # over a connection that buffers writes (a TCP socket) an end learns nothing from the fate of what it wrote
            pol.append(dict(c, buffered=True))
        os.unlink(r.outfile)
        if len(pol) != 2 * 8192:
            raise Internal("CryptoPolicy: %d cells" % len(pol))
        cases += pol
        for i, c in enumerate(cases):
            c["id"] = i
    obs = harness(v, prop, cases)
    v.cov["traces_validated_against_impl"] = len(cases)
    v.cov["evaluations"] = len(cases)
    v.cov["distinct_nontrivial"] = len({json.dumps({k: c[k] for k in c if k != "id"}, sort_keys=True) for c in cases})
    v.cov["rule"] = "one handshake per (role, kind, pads, IA, early data, cut plan); non-trivial = at least the 68-byte handshake crosses the scripted connection"
    v.cov["cases_by_kind"] = obs
    return v.finish()


def run_c08(prop, tier, seed, replay=None):
    v = Verdict(prop, tier, seed)
    rng = random.Random(seed)
    v.assumptions = ["policy table: real client against real server over net.Pipe with both directions tapped; all 2^6 x 2^6 option pairs x both handshake kinds",
                     "key derivation / interoperability: the harness's independent MSE implementation completes handshakes with the real code in both roles (C07 cases) "
                     "and decrypts what crypto.Conn puts on the wire",
                     "crypto.Conn: write sizes 1, 32767, 32768, 32769, 100000; the underlying connection accepts everything / a prefix / nothing, or fails, at every position of the script"]
    if replay:
        cases = [json.load(open(replay))["scenario"]]
    else:
        for cfg, mod in (("CryptoPolicy_mc.cfg", "MCCryptoPolicy"), ("CryptoConn_mc.cfg", "CryptoConn")):
            r = run_tlc(mod, cfg, workers=4, timeout=600)
            require_ok(r, cfg)
            v.add_tlc(cfg, r)
            if mod == "MCCryptoPolicy":
                cases = []
                for p in sorted(set(r.lines("CASE"))):
                    c = json.loads(p)
                    c["kind"] = "policy"
                    cases.append(c)
                    cases.append(dict(c, buffered=True))
                os.unlink(r.outfile)
        if len(cases) != 2 * 8192:
            raise Internal("CryptoPolicy: %d cells" % len(cases))
        sizes = [1, 32767, 32768, 32769, 100000]
        nconn = 300 if tier == "quick" else 5000
        for _ in range(nconn):
            writes = [rng.choice(sizes) for _ in range(rng.randint(1, 4))]
            # the script of the underlying connection: per underlying Write call
            accept = []
            for _ in range(rng.randint(0, 6)):
                accept.append(rng.choice([1 << 20, 1 << 20, 1 << 20, 0, 1, 32767, 100, -1]))
            cases.append({"kind": "conn", "writes": writes, "accept": accept})
        # interoperation with the independent MSE implementation: the encrypted handshakes of the C07 table (every pad
        # length, both cipher selections, early data), all coalesced and byte at a time
        rng2 = random.Random(seed)
        cases += [c for c in seg_cases(tier, rng2) if c.get("hs") == "crypto" and c.get("cuts") in ([], [-1]) and not c.get("skey")]
        for i, c in enumerate(cases):
            c["id"] = i
    obs = harness(v, prop, cases, interop=True)
    v.cov["traces_validated_against_impl"] = len(cases)
    v.cov["evaluations"] = len(cases)
    v.cov["distinct_nontrivial"] = len({json.dumps({k: c[k] for k in c if k != "id"}, sort_keys=True) for c in cases})
    v.cov["rule"] = "every cell of the CryptoPolicy.tla table executed with real client and server; seeded write/accept scripts on crypto.Conn"
    v.cov["outcomes"] = obs
    v.cov["exhaustive"] = True
    return v.finish()
