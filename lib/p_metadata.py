"""C12: spec/Metadata.tla bound to tor/metadata.go through tor.handleEvent (B2) + trace validation."""
import json, os, random, re
import vlib
from vlib import run_tlc, require_ok, Graph, Verdict, Internal, log

SIZES = {"20000": 20000, "32768": 32768, "5000": 5000}


def trace_cfg(wd, name, ts, parseok, spec, invs):
    with open(os.path.join(wd, name), "w") as f:
        f.write("SPECIFICATION %s\nCONSTANTS\n  TrueSize = %d\n  ParseOK = %s\n  Sizes <- MCSizes\n  MaxVotes = 1000\n  Dev = {}\n"
                "CHECK_DEADLOCK FALSE\nPOSTCONDITION AllRead\n" % (spec, ts, "TRUE" if parseok else "FALSE"))
        if invs:
            f.write("INVARIANTS " + " ".join(invs) + "\n")


def gen_random(rng, nrand):
    scen = []
    # seeded random histories, longer, all three sizes + the authentic-but-invalid dictionary
    for k in range(nrand):
        ts = [20000, 32768, 5000][k % 3]
        parseok = (k % 7 != 0)
        sizes = [0, ts - 1, ts, ts + 1, ts + 16384, 134217729]
        steps = []
        for _ in range(rng.randint(4, 24)):
            x = rng.random()
            if x < 0.25:
                steps.append({"a": "Vote", "size": rng.choice(sizes + [ts, ts])})
            elif x < 0.32:
                steps.append({"a": "Tick"})
            else:
                sz = rng.choice(sizes + [ts] * 6)
                idx = rng.randint(0, (ts + 16383) // 16384 + 1)
                lens = [0, 1, 16384, 16385]
                if sz > idx * 16384:
                    lens += [sz - idx * 16384, sz - idx * 16384 - 1]
                    lens += [min(16384, sz - idx * 16384)] * 6
                steps.append({"a": "Block", "idx": idx, "sz": sz, "n": max(0, rng.choice(lens)),
                              "q": "honest" if rng.random() < 0.7 else "forged"})
        # recovery suffix: honest votes take a strict majority, then two honest passes with a tick
        # in between must publish the metadata whatever happened before (C12 liveness clause)
        wrong = sum(1 for st in steps if st["a"] == "Vote" and st["size"] != ts and 0 < st["size"] <= 134217728)
        right = sum(1 for st in steps if st["a"] == "Vote" and st["size"] == ts)
        steps += [{"a": "Vote", "size": ts}] * max(1, wrong - right + 1)
        nblk = (ts + 16383) // 16384
        for _ in range(2):
            steps.append({"a": "Tick"})
            order = list(range(nblk))
            rng.shuffle(order)
            for b in order:
                steps.append({"a": "Block", "idx": b, "sz": ts, "n": min(16384, ts - b * 16384), "q": "honest"})
        scen.append({"truesize": ts, "parseok": parseok, "recover": True, "steps": steps})
    return scen


def run(prop, tier, seed, replay=None):
    v = Verdict(prop, tier, seed)
    rng = random.Random(seed)
    v.assumptions = ["SHA-1 is trusted (digest = info-hash iff the buffer has the true size and holds the true bytes)",
                     "true sizes 5000 (1 block), 20000 (2 blocks, short tail), 32768 (2 full blocks); claimed sizes true-1, true, true+1, "
                     "true+16384, 0, 128MiB+1; payload lengths 0, 1, 16384, 16385, exact tail, tail-1, whole remainder",
                     "events are applied through tor.handleEvent (TorPeerExtended, TorMetaData) on a stepped torrent; the wire decoding of "
                     "ut_metadata messages is covered by C04/C05"]
    scen = []
    if replay and json.load(open(replay))["scenario"].get("binding") == "peerfsm":
        import p_peerfsm
        p_peerfsm.metadata_probe(v, prop, tier, seed, [json.load(open(replay))["scenario"]])
        return v.finish()
    if replay:
        scen = [json.load(open(replay))["scenario"]]
    else:
        for cfg in ["Metadata_mc_20000.cfg", "Metadata_mc_32768.cfg", "Metadata_mc_5000.cfg", "Metadata_mc_noparse.cfg"]:
            r = run_tlc("MCMetadata", cfg, workers=8, timeout=900)
            require_ok(r, "model checking " + cfg)
            v.add_tlc(cfg, r)
        for ts in (20000, 32768):
            r = run_tlc("MCMetadata", "Metadata_edges_%d.cfg" % ts, workers=1, timeout=900)
            require_ok(r, "edge dump %d" % ts)
            g = Graph.from_result(r, lambda s: s["infoLen"] == 0 and not s["complete"] and all(c == 0 for c in s["votes"].values()))
            os.unlink(r.outfile)
            walks, unc = g.covering_walks(rng, maxlen=14)
            if unc or not g.inits:
                raise Internal("metadata edge dump: %d edges unreachable" % unc)
            v.cov.setdefault("edge_graphs", []).append({"truesize": ts, "states": len(g.states), "edges": g.nedges, "covering_walks": len(walks)})
            if tier == "quick" and len(walks) > 2500:
                rng.shuffle(walks)
                walks = walks[:2500]
            for init, path in walks:
                scen.append({"truesize": ts, "parseok": True, "steps": [lab for lab, _ in path]})
        scen += gen_random(rng, 600 if tier == "quick" else 20000)
        for i, sc in enumerate(scen):
            sc["id"] = i
    vh = vlib.build_harness()
    wd = vlib.scratch("md-")
    sf, rf = os.path.join(wd, "scen.ndjson"), os.path.join(wd, "res.ndjson")
    with open(sf, "w") as f:
        for sc in scen:
            f.write(json.dumps(sc, separators=(",", ":")) + "\n")
    out, err = vlib.run_harness(vh, ["metadata", "-in", sf, "-out", rf, "-parallel", "12", "-timeout", "60"], timeout=3600)
    log(out.strip())
    groups = {}
    completed = 0
    for line in open(rf):
        res = json.loads(line)
        sc = scen[res["index"]]
        if res.get("crash") or res.get("hang"):
            v.violation("metadata-crash", "the process crashed/hung while replaying scenario %s: %s" % (sc["id"], res.get("stderr", "")[:300]), sc)
            continue
        o = res["out"]
        if o.get("note"):
            raise Internal("scenario %s: %s" % (sc["id"], o["note"]))
        for vi in o.get("violations") or []:
            v.violation(vi["key"], vi["what"] + " (scenario %s step %d)" % (sc["id"], vi["step"]), sc)
        ev = o.get("events") or []
        if ev and ev[-1]["s"]["complete"]:
            completed += 1
        groups.setdefault((sc["truesize"], sc["parseok"]), []).append((sc, ev))
        if sc["id"] % 997 == 3:
            v.sample({"truesize": sc["truesize"], "steps": sc["steps"][:8], "final": ev[-1]["s"] if ev else None})
    v.cov["evaluations"] = len(scen)
    v.cov["distinct_nontrivial"] = len({json.dumps(s["steps"], sort_keys=True) for s in scen})
    v.cov["rule"] = ("behaviours = edge-covering walks over TLC's exhaustive graph of Metadata.tla + seeded random histories; replayed through "
                     "tor.handleEvent; distinct = distinct action sequences")
    v.cov["histories_ending_with_metadata_published"] = completed
    if not replay and completed == 0:
        raise Internal("no history ever completed the metadata (vacuous)")
    if not replay:
        # the same exchange seen from the peer handlers (what the torrent makes them write must be writable)
        import p_peerfsm
        p_peerfsm.metadata_probe(v, prop, tier, seed)
    # trace validation
    for (ts, parseok), lst in groups.items():
        twd = vlib.scratch("mdt-")
        tf = os.path.join(twd, "trace.ndjson")
        index = []
        with open(tf, "w") as f:
            for sc, ev in lst:
                for k, e in enumerate(ev):
                    f.write(json.dumps(e, separators=(",", ":")) + "\n")
                    index.append((sc, k))
        trace_cfg(twd, "mon.cfg", ts, parseok, "MonSpec", ["Authentic", "InBounds"])
        trace_cfg(twd, "strict.cfg", ts, parseok, "TraceSpec", [])
        r = run_tlc("MetadataTrace", "mon.cfg", workdir=twd, workers=1, env={"TRACE": tf}, timeout=3600)
        if r.violation:
            m = re.findall(r"^/\\ l = (\d+)", open(r.outfile).read(), re.M)
            line = int(m[-1]) - 1 if m else 1
            sc, k = index[max(0, line - 1)]
            key = {"Authentic": "forged-metadata-accepted", "InBounds": "metadata-panic"}.get(r.violation, r.violation)
            v.violation(key, "invariant %s of Metadata.tla is false in a state observed from the implementation (scenario %s step %d)"
                        % (r.violation, sc["id"], k), sc)
        elif not r.ok:
            raise Internal("metadata monitor pass failed: %s\n%s" % (r.error, r.tail))
        v.cov["states"] += r.distinct
        v.cov["transitions"] += r.generated
        r = run_tlc("MetadataTrace", "strict.cfg", workdir=twd, workers=1, env={"TRACE": tf}, timeout=3600)
        if not r.ok:
            raise Internal("metadata trace validation failed: %s\n%s" % (r.error or r.violation, r.tail))
        bad = {}
        for x in r.lines("BADLINE"):
            ln = int(x.split()[0])
            sc, k = index[ln - 1]
            bad.setdefault(sc["id"], (k, x.split()[1], sc))
        for sid, (k, a, sc) in list(bad.items())[:10]:
            v.warn("nonconformance: scenario %s step %d (%s) is not a step of Metadata.tla: %s" % (sid, k, a, json.dumps(sc["steps"][k - 1]) if k else ""))
        v.cov["traces_validated_against_impl"] += len(lst)
        v.cov.setdefault("trace_validation", []).append({"truesize": ts, "parseok": parseok, "traces": len(lst), "events": len(index),
                                                         "rejected_traces": len(bad)})
        v.cov["states"] += r.distinct
        v.cov["transitions"] += r.generated
    return v.finish()


def crash_probe(v, prop, tier, seed, scen=None):
    """The torrent-side processing of ut_metadata messages, for C05: random histories, crashes only."""
    rng = random.Random(seed + 55)
    if scen is None:
        scen = gen_random(rng, 300 if tier == "quick" else 6000)
        # and walks covering the edges of Metadata.tla's graph (two-block metadata): they reach the states after a hash mismatch
        r = run_tlc("MCMetadata", "Metadata_edges_32768.cfg", workers=1, timeout=900)
        require_ok(r, "metadata edge dump (probe)")
        g = Graph.from_result(r, lambda s: s["infoLen"] == 0 and not s["complete"] and all(c == 0 for c in s["votes"].values()))
        os.unlink(r.outfile)
        walks, unc = g.covering_walks(rng, maxlen=14)
        if tier == "quick" and len(walks) > 1500:
            rng.shuffle(walks)
            walks = walks[:1500]
        for init, path in walks:
            scen.append({"truesize": 32768, "parseok": True, "steps": [lab for lab, _ in path]})
        for i, sc in enumerate(scen):
            sc["id"], sc["binding"] = i, "metadata"
    vh = vlib.build_harness()
    wd = vlib.scratch("mdp-")
    sf, rf = os.path.join(wd, "scen.ndjson"), os.path.join(wd, "res.ndjson")
    with open(sf, "w") as f:
        for sc in scen:
            f.write(json.dumps(sc, separators=(",", ":")) + "\n")
    out, err = vlib.run_harness(vh, ["metadata", "-in", sf, "-out", rf, "-parallel", "12", "-timeout", "60"], timeout=3600)
    log(out.strip())
    for line in open(rf):
        res = json.loads(line)
        sc = scen[res["index"]]
        if res.get("crash") or res.get("hang"):
            v.violation("torrent-side-crash", "the process crashed/hung while the torrent handled metadata messages (scenario %s): %s" % (sc["id"], res.get("stderr", "")[:300]), sc)
            continue
        o = res["out"]
        if o.get("note"):
            raise Internal("metadata probe scenario %s: %s" % (sc["id"], o["note"]))
        for vi in o.get("violations") or []:
            if vi["key"].startswith("metadata-panic"):
                v.violation("torrent-side-panic", "tor.handleEvent panicked on a ut_metadata message sequence: " + vi["what"] + " (metadata scenario %s step %d)" % (sc["id"], vi["step"]), sc)
    v.cov["torrent_side_metadata"] = {"histories": len(scen), "rule": "seeded random ut_metadata histories (votes, honest and forged blocks, ticks, recovery passes) through tor.handleEvent; panics only"}
    return len(scen)
