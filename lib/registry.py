"""Property -> check driver.  MANIFEST.json is generated from this table by bin/mkmanifest."""
import p_piecestore
import p_wire
import p_metadata
import p_geometry
import p_tracker
import p_sched
import p_upload
import p_peerfsm
import p_live
import p_crypto
import p_webseed
import p_http
import p_privacy

HOOK_COMMITS = ["ad8b203", "23d7fe8", "8de280d", "16a7335", "4ddeda5", "a9fce0f", "a520d9f", "e8728f0", "f1ee887", "0fe75e2", "19b6519", "e17ca75", "a0fde5f"]

NOT_APPLICABLE = {}

_PS_NOTE = ("Trusted: TLC, the Go harness (gate scheduler, content PRF, projection), SHA-1 abstraction. Bounds: 2-3 pieces, "
            "1-2 abstract chunks per piece (x4 real chunks in the mmap geometry), 2-4 threads. Interleavings are those at "
            "the verifYield points (every place where ps.mu is not held inside an operation).")

_B4 = "TLC-enumerated case table (TLA+ decision function over boundary classes) executed on the real code, outcomes checked by TLC against the specification's invariants"

_LIVE = "Trusted: TLC, the loop-gate stepping, mktor/content. Real goroutines, real event loop; timing only through generous watchdogs (5-10 s)."

REGISTRY = {
    "C07": {"run": p_crypto.run_c07, "design": "DESIGN.md section 3 C07",
            "technique": "TLC exhaustive model checking of Handshake.tla (all chunkings of a staged reader) + real handshakes against an independent MSE implementation over a connection that delivers TLC/plan-chosen segments + every cell of the CryptoPolicy.tla table for the agreement of the two ends (over net.Pipe and over a buffering connection)",
            "level": "Handshake.tla checks BufIsReceived/StageAligned/SurplusExact for every chunking of an abstract field layout; the real protocol/crypto handshakes run "
                     "in both roles against the harness's independent implementation with every single cut at each field boundary, byte-at-a-time, coalesced and multi-cut "
                     "plans: the handshake must succeed with the right hash, ids, capability bits and cipher mode, and bytes glued to it reach the message layer exactly once, in order.",
            "note": "Trusted: TLC, the harness's MSE implementation and scripted connection."},
    "C08": {"run": p_crypto.run_c08, "design": "DESIGN.md section 3 C08",
            "technique": "TLC-enumerated policy table (CryptoPolicy.tla, 8192 cells) executed with real client and server + CryptoConn.tla write-loop model with scripted partial/failing writes checked by an independent decrypter",
            "level": "CryptoPolicy.tla computes the outcome of every pair of option sets and handshake kind and TLC checks it is permitted by both policies; every cell is executed: "
                     "established mode vs both policies, agreement, payload visibility on the tapped wire, transparency. crypto.Conn.Write is driven with scripted underlying "
                     "writes; the wire must decrypt (independent key derivation + RC4) to a prefix of the plaintext and stay silent after the first failure.",
            "note": "Trusted: TLC, the harness's MSE implementation."},
    "C14": {"run": p_webseed.run, "design": "DESIGN.md section 3 C14",
            "technique": "TLC-checked declarative FileChunks operator and writer state machine (Webseed.tla) + case tables executed on tor.fileChunks, tor.NewWriter, GetRight.Get (scripted local HTTP server) and the full maybeWebseed path of a running torrent",
            "level": "FileChunks is specified declaratively and TLC checks it tiles every range; 242 layout/range cases (x padding variants) run on the real fileChunks with a model-free "
                     "tiling oracle. The writer model (whole blocks, clipping, release accounting) is model-checked; ~1100 stream-split cases run on the real writer with the store "
                     "inspected block by block and TorData+TorDrop summed. 16 server behaviours x 5 ranges run through GetRight.Get with a recording writer. Running torrents fetch "
                     "from a local web seed (3 layouts x 3 server modes): stored blocks must be the right bytes and inFlight must return to zero.",
            "note": "Trusted: TLC, the scripted HTTP server, mktor/content."},
    "C18": {"run": p_privacy.run, "design": "DESIGN.md section 3 C18",
            "technique": "TLC exhaustive model checking of Privacy.tla (usable and unusable proxy) + edge-covering walks of its state graph executed on a running torrent with every outbound channel observed (local HTTP/UDP tracker, web seed, SOCKS5 proxy, DHT announce hook, scripted peers) + TLC trace validation of the recorded traces (PrivacyTrace.tla)",
            "level": "Privacy.tla (configuration x proxy x tracker-due x piece-wanted; Start, SetConf, DhtEvent, TrackerDue, Tick, Want, Incoming, Outgoing) is model-checked "
                     "exhaustively (PrivacyInv: nothing in Forbidden(conf, proxy) is ever produced). Walks covering every edge of the graph are executed on a real torrent "
                     "(its tickers stopped and fired on demand): the tracker and web seed are a local HTTP server, the proxy a local SOCKS5 server that "
                     "also plays the remote peer, incoming connections go through tor.Server, DHT announces are observed by a hook. Any observation in the model's "
                     "Forbidden set for the configuration in force is a violation; differences from the model's out are warnings.",
            "note": "Trusted: TLC, the harness's HTTP/SOCKS servers. Not driven: UDP trackers, Hoffman web seeds, IPv6 address disclosure (no global IPv6 address in the sandbox)."},
    "C19": {"run": p_http.run_c19, "design": "DESIGN.md section 3 C19",
            "technique": "TLC-enumerated (route, method, Host class) table of WebUI.tla executed on the real handlers through net/http's DefaultServeMux with hostile strings in every remote-controlled source",
            "level": "WebUI.tla states which requests must be refused (foreign or missing Host) and which sources each page shows; TLC checks that a refused request is inert "
                     "in the model and enumerates 520 cases. Each case runs against the real mux with a live torrent whose name, path components, tracker URL, web-seed URL "
                     "a tracker's failure reason and a known peer's version carry marked hostile strings: refused requests must answer 4xx, carry no torrent data and leave the torrent set and "
                     "configuration unchanged; served HTML must not contain any marker unescaped; playlists must have exactly 1+2n lines.",
            "note": "Trusted: TLC, net/http/httptest. The tracker error text is produced by a real announce to a local tracker that fails with a hostile reason."},
    "C20": {"run": p_http.run_c20, "design": "DESIGN.md section 3 C20",
            "technique": "TLC-enumerated (layout, lookup path) table of Namespace.tla executed on the real HTTP file/directory/playlist handlers and on the FUSE nodes (fuse.VerifRoot)",
            "level": "Namespace.tla defines Resolve/IsDir/Entries/Listed declaratively over component sequences; TLC checks their mutual consistency and enumerates 1264 cases over "
                     "8 layouts. For each case the real HTTP handler must serve exactly the resolved file's bytes (ground truth from the content PRF, also under Range), answer "
                     "non-200 for absent or partial paths, list exactly the files below a directory (page and playlist), and the FUSE tree must resolve, size, list and read "
                     "the same (padding files hidden).",
            "note": "Trusted: TLC, httptest, mktor/content. The FUSE kernel transport is not exercised; the nodes' methods are called directly."},
    "C10": {"run": p_live.run_c10, "design": "DESIGN.md section 3 C10",
            "technique": "TLC exhaustive model checking of Requests.tla + simulated behaviours executed on a running torrent (loop gate + yield hook)",
            "level": "Requests.tla (two-step Torrent.Request, FIFO loop, Flip before its TorHave, eviction, withdrawals) is model-checked exhaustively "
                     "(2 pieces, 2 consumers, 4 operations) and simulated (3/3/14); behaviours are executed with real goroutines calling Torrent.Request "
                     "against the real loop stepped event by event; at the end: no waiter on an open channel for a verified piece, no waiter woken for an "
                     "unverified piece it still wants, the priority table equals what the consumers hold, no double close (crash). The idle priority (waiters that register no priority) and the pruning of idle entries on configuration changes are part of the model; TLC refutes pruning without closing the channel.",
            "note": _LIVE},
    "C17": {"run": p_live.run_c17, "design": "DESIGN.md section 3 C17",
            "technique": "TLC model checking (liveness under fairness) of Lifecycle.tla + every operation x stop point executed on a real running torrent (with peers, a blocked reader, and an outstanding web-seed fetch)",
            "level": "Lifecycle.tla models the send/await selects of the four call shapes, the loop and its exit path; TLC checks that every call returns "
                     "(weak fairness) and the loop never waits for a vanished caller, for all pairs of shapes plus a deleter; each of the 17 exported operations "
                     "is executed at each realisable stop point on a real torrent with peers and a blocked reader: the call must return, and after Kill the torrent "
                     "is unlisted, peer connections closed, the reader fails, piece memory and goroutines return to their baselines. Lifecycle!KillIsComplete (Kill returns only when the torrent is unlisted and its memory released) is bound by deleting a torrent while a piece is being hashed; peers leaving while the queue is full and the torrent is stopped through its context must not leak.",
            "note": _LIVE},
    "C02": {"run": p_live.run_c02, "design": "DESIGN.md section 3 C02",
            "technique": "TLC model checking of Reader.tla and FuseHandle.tla + simulated seek/read/evict/cancel/kill behaviours executed on a real tor.Reader with a harness-played honest seed + FuseHandle cases on a real FUSE handle",
            "level": "Reader.tla gives io.Seeker semantics, clipping and EOF; TLC checks Window/EofExactlyAtLength and simulates behaviours over 5 ranges; each is run on a "
                     "real Reader of a running torrent: every byte equals the ground truth at offset+position, nothing beyond the range, EOF exactly at length, a blocked "
                     "read returns once the seed has supplied what was requested (even after evictions, no (0,nil) spin), and fails once cancelled or deleted. "
                     "FuseHandle.tla (Seek+ReadFull under a semaphore on the Reader shared by all reads of one open file) is model-checked, the unserialised variant refuted, "
                     "and 44 (read A blocked on a late piece, read B) cases run on a real FUSE handle. A torrent of 4 GiB + 3 MiB (sparse hashes) is read across and beyond offset 2^32 through the store, a Reader, an HTTP Range request and a FUSE read.",
            "note": _LIVE},
    "C05": {"run": p_peerfsm.run, "design": "DESIGN.md section 3 C05",
            "technique": "TLC model checking of PeerFsm.tla + every (state class x message class) edge and random message sequences executed on peer.handleMessage and tor.handleEvent with crash/hang/allocation monitors + the Sched.tla behaviours under the same monitors + every bencoded payload class of Framing.tla sent well-framed to a live peer.Run",
            "level": "PeerFsm.tla predicts accept/disconnect for ~170 message classes (boundary indexes 0, last, n, 2^30, 2^32-1; offsets; lengths; payload sizes; "
                     "extended handshakes; metadata, PEX) in every capability/metadata state; every edge of its graph and random sequences are concretised and "
                     "handled by the real peer handler in that state, the resulting events by the real torrent handler; panics, non-termination and allocation "
                     "beyond the bound are violations, outcome mismatches are reported as nonconformance.",
            "note": "Trusted: TLC, the stepping shims, TotalAlloc. Sequences up to 10 messages."},
    "C16": {"run": p_upload.run, "design": "DESIGN.md section 3 C16",
            "technique": "TLC exhaustive model checking of Upload.tla and Congestion.tla + TLC-simulated behaviours and edge-covering walks applied to the real peer handlers with every written message checked",
            "level": "Upload.tla (interest, choking with counter, request queue with head drop, cancel, upload tick serving/rejecting, eviction) is model-checked "
                     "exhaustively (2 peers, 8 steps) and simulated to depth 30; the behaviours drive handleMessage/handleEvent/scheduleUpload of real peers over "
                     "a real piece store; each Piece written must go to a peer that saw Unchoke last, answer a still-pending request of that peer, carry the true "
                     "bytes of the range from a verified piece; NumUnchoking() must equal the number of peers with amUnchoking set after every step; no step may allocate "
                     "more than 8 MiB. Congestion.tla (a remote that stops reading: writer of 4 slots, what each call site does when a write fails) is model-checked, "
                     "its shipped variant refuted, and walks covering every edge of both variants are run with a writer channel the harness stops reading.",
            "note": "Trusted: TLC, the stepping shims. Head drop at reqQ=250 under congestion is not driven."},
    "C11": {"run": p_sched.run, "design": "DESIGN.md section 3 C11",
            "technique": "TLC model checking of Sched.tla / Advert.tla / Pex.tla / BlockName.tla + behaviours and case tables executed on the real peer code with every message written to the wire checked",
            "level": "Requests/cancels: the Sched.tla behaviours (see C09) are applied to the real handlers and every Request/Cancel the peer writes is checked "
                     "against what the remote has advertised/allowed at that moment (index, alignment, exact length incl. the short last block, choke/allowed-fast, "
                     "duplicates, queue depth). Advertisement: Advert.tla enumerated over piece counts 1..17, 24, 71..73, 144, 145, 160 x held sets x fast; the "
                     "real peer.Run writes it to a pipe and the harness decodes it. PEX: every edge of Pex.tla's graph + random walks on the real pexState. Pex.tla keeps the pending lists in order and caps a message at Cap entries; it is also run with three abstract addresses of 25 peers each against the real cap of 50.",
            "note": "Trusted: TLC, the harness's frame reader. A >4 GiB geometry (fromChunk overflow) is not enumerated by TLC."},
    "C09": {"run": p_sched.run, "design": "DESIGN.md section 3 C09",
            "technique": "TLC exhaustive model checking of Sched.tla + TLC-simulated behaviours applied to the real torrent/peer handlers (stepped mailboxes) + TLC evaluation of Conservation/Availability on the observed bookkeeping",
            "level": "Sched.tla (explicit mailboxes both ways, request/cancel/choke/reject/expiry/piece-payload classes, bitmap changes) is model-checked "
                     "exhaustively for one peer with the full message alphabet and two peers with a reduced one; simulated two-peer behaviours are applied "
                     "to tor.handleEvent/request and peer.handleEvent/handleMessage/expireRequests/maybeRequest with harness-owned mailboxes; at every "
                     "quiescent point inFlight and available are compared with what the peers really hold/advertise, in Go and again by TLC. "
                     "Mailbox.tla (bounded torrent mailbox, private backlog, idle peer flushes at once; Ordered, AllArrive) is model-checked and bound to a real "
                     "peer.Run over net.Pipe held at the writeEvent yield point: every <= 12-step schedule on which the deviation mailbox_first reorders, and "
                     "simulated complete runs, are replayed and the availability must be zero once the peer has left. GenSchedDev.tla enumerates one schedule per bad state "
                     "of Sched.tla under the deviations late_dup_silent / choke_forgets_fast (warm start, <= 10 steps); they are replayed with the other behaviours.",
            "note": "Trusted: TLC, the stepping shims (export_verif files), fakepeer. Go select races other than the mailbox hand-over are outside this binding."},
    "C15": {"run": p_tracker.run, "design": "DESIGN.md section 3 C15",
            "technique": "TLC exhaustive model checking of Tracker.tla / UdpExchange.tla + replay of every edge / every reply sequence on the real tracker code against scripted local trackers",
            "level": "Tracker.tla (lock, readiness with the 5/15/30 min rules, reply classes, minimum-gap history) and UdpExchange.tla (4-attempt "
                     "retransmission over 6 reply classes) are model-checked exhaustively; every reply sequence is run through the real udpRequestReply "
                     "over a scripted connection, and edge-covering walks of the lifetime graph are executed with tracker.New(...).Announce/GetState "
                     "against a local HTTP server and a local UDP socket with the clock advanced by a hook; stuck-busy, contact gaps and learnt peers "
                     "are checked model-free, everything else against the specification's state. At the level of a running torrent: replies of up to 1500 peers delivered while the event loop is busy (GetKnowns must hold exactly the encoded peers), UDP replies cut inside an entry, and the announce discipline with repeated ticks after an announce (HTTP/UDP tracker x proxy/no proxy).",
            "note": "Trusted: TLC, the scripted servers. IPv6 leg always fails in the sandbox binding (127.0.0.1 only)."},
    "C13": {"run": p_geometry.run, "design": "DESIGN.md section 3 C13", "technique": _B4,
            "level": "Geometry.tla maps an abstract metainfo record to Reject or Accept(geometry); TLC checks the accepted geometries are "
                     "self-consistent and enumerates ~1600 records; each is bencoded and read by tor.ReadTorrent; accepted torrents are compared "
                     "with the specified geometry, their info-hash with SHA-1 of the raw info bytes, and WriteTorrent->ReadTorrent must preserve hash, "
                     "tracker tiers and web seeds; TLC re-evaluates consistency on every observed geometry. Magnet links: 326 abstract links of MCMagnet.tla (forms, xt sequences, tr/ws/as/dn) through tor.ReadMagnet.",
            "note": "Trusted: TLC, the harness bencoder. Record classes, not all byte strings; magnet links not enumerated."},
    "C12": {"run": p_metadata.run, "design": "DESIGN.md section 3 C12",
            "technique": "TLC exhaustive model checking of Metadata.tla + replay of TLC behaviours through tor.handleEvent + TLC trace validation",
            "level": "Metadata.tla (votes, guess with random tie-break, resize, block checks, over-long copies, hash, parse) is model-checked "
                     "exhaustively for three true sizes; every edge of the state graph and seeded random histories are applied to a real Torrent "
                     "through tor.handleEvent; the observed buffer after each step is validated by TLC (strict) and Authentic/InBounds are "
                     "evaluated on every observed state (monitor).",
            "note": "Trusted: TLC, harness (authentic dictionary builder, block classification), SHA-1 abstraction. The peer-side decoding of "
                    "ut_metadata messages is not part of this binding (C04/C05)."},
    "C04": {"run": p_wire.run_c04, "design": "DESIGN.md section 3 C04", "technique": _B4,
            "level": "Framing.tla models decoding of one message as a state machine over abstract inputs; TLC checks Total/ExactlyFramed/NeverBeyond/"
                     "Bounded on the model for the full cross product of classes, prints every case, the harness runs protocol.Read on a concrete "
                     "stream for each (counting reader, allocation measurement, following frame) and TLC re-evaluates the invariants on the observed outcomes.",
            "note": "Trusted: TLC, harness concretisation of classes into bytes, TotalAlloc measurement. Classes, not all byte strings."},
    "C06": {"run": p_wire.run_c06, "design": "DESIGN.md section 3 C06", "technique": _B4,
            "level": "Codec.tla is an independent token-level description of the wire format written from the BEPs; TLC enumerates ~2000 messages with "
                     "boundary field values; for each, protocol.Write is compared with the independent encoding, protocol.Read must decode both back to "
                     "the message, and concatenated streams are decoded through readers cut at every point.",
            "note": "Trusted: TLC, the token expander and the independent bencode parser of the harness."},
    "C01": {"run": p_piecestore.run, "design": "DESIGN.md section 3 C01",
            "technique": "TLC exhaustive model checking of PieceStore.tla + gated-goroutine replay of TLC behaviours on tor/piece + TLC trace validation of the recorded logs",
            "level": "PieceStore.tla is model-checked exhaustively (all interleavings of 2-4 operations over every initial condition); "
                     "every edge of the 2-thread state graph, simulated 4-thread behaviours and random gate schedules are executed on the real "
                     "piece.Pieces, every byte ReadAt returns after every step is compared with the ground truth, and the logs are validated "
                     "by TLC against the specification with the C01 invariants evaluated on each observed state. The upload path is covered by "
                     "Upload.tla behaviours executed on the real upload handlers with every Piece payload compared with the verified content.",
            "note": _PS_NOTE},
    "C03": {"run": p_piecestore.run, "design": "DESIGN.md section 3 C03",
            "technique": "TLC exhaustive model checking of PieceStore.tla and Expire.tla + gated-goroutine replay of TLC behaviours on tor/piece and tor.Expire + TLC trace validation of the recorded logs",
            "level": "Same machinery as C01; the observables are alloc.Bytes() against the buffers actually held after every step, "
                     "Count(), which pieces an eviction pass drops and reports (LRU order from the specification), nothing held after "
                     "Del() returned, process survival (worker sub-processes). Global eviction: Expire.tla (fair shares, non-atomic pass, "
                     "evictions running in their own goroutines) is model-checked; every short schedule on which the shipped code crashed and simulated "
                     "behaviours are executed on tor.Expire with running torrents, the pass and its evictions gated at yield points.",
            "note": _PS_NOTE},
}
