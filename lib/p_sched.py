"""C09 (and the request-conformance part of C11): spec/Sched.tla bound to the real torrent/peer handlers (B2)."""
import json, os, random
import vlib
from vlib import run_tlc, require_ok, Verdict, Internal, log
from p_wire import tlc_violations


def gen_behaviours(v, tier, seed):
    n = 2500 if tier == "quick" else 40000
    r = run_tlc("GenSched", "Sched_sim.cfg", workers=1, simulate=n, depth=45, seed=seed, timeout=3000)
    require_ok(r, "Sched simulation")
    scen, seen = [], set()
    for p in r.lines("BEH"):
        if p in seen:
            continue
        seen.add(p)
        scen.append({"steps": json.loads(p)})
    os.unlink(r.outfile)
    if len(scen) < n // 2:
        raise Internal("Sched simulation produced only %d behaviours" % len(scen))
    # the same specification over pieces of three blocks (piece length not a power of two)
    n3 = n // 5
    r = run_tlc("GenSched", "Sched_sim3.cfg", workers=1, simulate=n3, depth=45, seed=seed + 1, timeout=3000)
    require_ok(r, "Sched simulation (pieces of three blocks)")
    k3 = 0
    for p in r.lines("BEH"):
        if p in seen:
            continue
        seen.add(p)
        scen.append({"steps": json.loads(p), "geom": 2})
        k3 += 1
    os.unlink(r.outfile)
    if k3 < n3 // 2:
        raise Internal("Sched simulation (pieces of three blocks) produced only %d behaviours" % k3)
    # schedules on which a deviation of the specification breaks a property (GenSchedDev.tla): a late good block for a piece
    # completed through another peer that nobody releases; a choke from a fast peer that forgets what the remote still holds
    r = run_tlc("GenSchedDev", "Sched_dev.cfg", workers=8, timeout=1800)
    require_ok(r, "Sched deviation schedules")
    dev = {"dup": [], "conservation": []}
    for p in sorted(set(r.lines("BEH"))):
        d = json.loads(p)
        dev[d["bad"]].append(d["steps"])
    os.unlink(r.outfile)
    if len(dev["dup"]) < 100 or len(dev["conservation"]) < 5:
        raise Internal("Sched_dev.cfg: the deviations are not refuted (%d / %d schedules)" % (len(dev["dup"]), len(dev["conservation"])))
    rng = random.Random(seed + 17)
    rng.shuffle(dev["dup"])
    picked = dev["conservation"] + dev["dup"][:300 if tier == "quick" else 6000]
    for steps in picked:
        scen.append({"steps": steps, "geom": 0})
    v.cov["simulated_behaviours"] = len(scen)
    v.cov["simulated_behaviours_three_block_pieces"] = k3
    v.cov["deviation_schedules"] = {"late_dup_silent": len(dev["conservation"]), "choke_forgets_fast": len(dev["dup"]), "replayed": len(picked)}
    return scen


def run_replays(v, prop, scen):
    vh = vlib.build_harness()
    wd = vlib.scratch("sched-")
    sf, rf = os.path.join(wd, "scen.ndjson"), os.path.join(wd, "res.ndjson")
    with open(sf, "w") as f:
        for sc in scen:
            f.write(json.dumps(sc, separators=(",", ":")) + "\n")
    out, err = vlib.run_harness(vh, ["sched", "-in", sf, "-out", rf, "-parallel", "12", "-timeout", "120"], timeout=7200)
    log(out.strip())
    obs, applied, nreq = [], 0, 0
    for line in open(rf):
        res = json.loads(line)
        sc = scen[res["index"]]
        if res.get("crash") or res.get("hang"):
            st = res.get("stderr", "")
            first = [x for x in st.splitlines() if x.startswith(("panic", "fatal"))][:1]
            if res.get("hang"):
                raise Internal("scenario %s hung: %s" % (sc["id"], st[-1500:]))
            v.violation("handler-crash", "a handler crashed the process in scenario %s: %s" % (sc["id"], first), sc)
            continue
        o = res["out"]
        if o.get("note"):
            v.warn("scenario %s: %s" % (sc["id"], o["note"]))
        for vi in o.get("violations") or []:
            if vi["prop"] == prop:
                v.violation(vi["key"], vi["what"] + " (scenario %s step %d)" % (sc["id"], vi["step"]), sc)
            else:
                v.warn("scenario %s: %s %s: %s" % (sc["id"], vi["prop"], vi["key"], vi["what"]))
        applied += o.get("applied", 0)
        nreq += o.get("requests_sent", 0)
        for q in o.get("obs") or []:
            obs.append((sc, q))
        if sc["id"] % 499 == 1:
            v.sample({"scenario": sc["id"], "steps": sc["steps"][:12], "quiescent_points": len(o.get("obs") or [])})
    return obs, applied, nreq


def run_c11_tables(v, tier, seed, rng):
    """Advert.tla and Pex.tla: TLC-enumerated cases / edge walks on the real peer code."""
    r = run_tlc("MCAdvert", "Advert_mc.cfg", workers=1, timeout=600)
    require_ok(r, "Advert model checking")
    v.add_tlc("Advert_mc.cfg", r)
    cases = []
    for p in sorted(set(r.lines("CASE"))):
        c = json.loads(p)
        c["kind"] = "advert"
        cases.append(c)
    os.unlink(r.outfile)
    if len(cases) < 200:
        raise Internal("Advert: only %d cases" % len(cases))
    r = run_tlc("MCPex", "Pex_mc.cfg", workers=4, timeout=600)
    require_ok(r, "Pex model checking")
    v.add_tlc("Pex_mc.cfg", r)
    r = run_tlc("MCPex", "Pex_edges.cfg", workers=1, timeout=600)
    require_ok(r, "Pex edge dump")
    from vlib import Graph
    g = Graph.from_result(r, lambda s: not (s["pending"] or s["pendingDel"] or s["sent"] or s["told"] or s["present"]))
    os.unlink(r.outfile)
    walks, unc = g.covering_walks(rng, maxlen=14)
    if unc or not g.inits:
        raise Internal("Pex edge dump: %d edges unreachable" % unc)
    walks += g.random_walks(rng, 300 if tier == "quick" else 5000, maxlen=30)
    for w in walks:
        sc = g.scenario(w, "")
        cases.append({"kind": "pex", "steps": sc["steps"]})
    # the 50-entries-per-message split: three abstract addresses of 25 peers each, Cap = 2 addresses per message
    r = run_tlc("MCPex", "Pex_edges_cap.cfg", workers=1, timeout=900)
    require_ok(r, "Pex edge dump (Cap)")
    gc = Graph.from_result(r, lambda s: not (s["pending"] or s["pendingDel"] or s["sent"] or s["told"] or s["present"]))
    os.unlink(r.outfile)
    walks2, unc2 = gc.covering_walks(rng, maxlen=24)
    if unc2 or not gc.inits:
        raise Internal("Pex edge dump (Cap): %d edges unreachable" % unc2)
    for w in walks2:
        sc = gc.scenario(w, "")
        cases.append({"kind": "pex", "steps": sc["steps"], "mult": 25})
    # BlockName.tla: how a block number becomes (piece, offset, length) on the wire, beyond 4 GiB and for piece lengths
    # that are not powers of two
    r = run_tlc("BlockName", "BlockName_mc.cfg", workers=1, timeout=600)
    require_ok(r, "BlockName model checking")
    v.add_tlc("BlockName_mc.cfg", r)
    nb = 0
    for p in sorted(set(r.lines("CASE"))):
        c = json.loads(p)
        c["kind"] = "blockname"
        cases.append(c)
        nb += 1
    os.unlink(r.outfile)
    if nb < 80:
        raise Internal("BlockName: only %d cases" % nb)
    for i, c in enumerate(cases):
        c["id"] = i
    vh = vlib.build_harness()
    wd = vlib.scratch("c11x-")
    sf, rf = os.path.join(wd, "cases.ndjson"), os.path.join(wd, "res.ndjson")
    with open(sf, "w") as f:
        for c in cases:
            f.write(json.dumps(c, separators=(",", ":")) + "\n")
    out, err = vlib.run_harness(vh, ["c11x", "-in", sf, "-out", rf, "-parallel", "12", "-timeout", "60"], timeout=3600)
    log(out.strip())
    kinds = {}
    for line in open(rf):
        res = json.loads(line)
        c = cases[res["index"]]
        if res.get("crash") or res.get("hang"):
            v.violation("peer-crash", "the process crashed/hung on case %s: %s" % (json.dumps(c)[:200], res.get("stderr", "")[:300]), c)
            continue
        o = res["out"]
        if o.get("note"):
            raise Internal("case %s: %s" % (c["id"], o["note"]))
        for vi in o.get("violations") or []:
            v.violation(vi["key"], vi["what"], c)
        for nc in o.get("nonconf") or []:
            v.warn("nonconformance: " + nc)
        kinds[c["kind"]] = kinds.get(c["kind"], 0) + 1
        if c["kind"] == "advert" and c["id"] % 97 == 5:
            v.sample({"advert": {"n": c["n"], "held": c["held"], "fast": c["fast"]}, "sent": o.get("observed")})
    v.cov["c11_table_cases"] = kinds
    v.cov["pex_edge_graph"] = {"states": len(g.states), "edges": g.nedges}
    return len(cases)


def mailbox_probe(v, prop, tier, seed, cases=None):
    """Mailbox.tla (C09): a peer's events reach the torrent in the order produced, whatever the mailbox holds.
    Behaviours: TLC-simulated complete runs of the specification, and every schedule of at most 12 steps on which the
    deviation "mailbox_first" delivers out of order, replayed on a real peer.Run and a stepped real torrent."""
    rng = random.Random(seed + 5)
    if cases is None:
        r = run_tlc("Mailbox", "Mailbox_mc.cfg", workers=4, timeout=600)
        require_ok(r, "Mailbox model checking")
        v.add_tlc("Mailbox_mc.cfg", r)
        r = run_tlc("MCMailbox", "Mailbox_dev.cfg", workers=1, timeout=900)
        require_ok(r, "Mailbox deviation schedules")
        bad = sorted(set(r.lines("BEH")))
        os.unlink(r.outfile)
        if len(bad) < 50:
            raise Internal("Mailbox_dev.cfg: the deviation is not refuted (%d schedules)" % len(bad))
        rng.shuffle(bad)
        bad = bad[:120 if tier == "quick" else 1500]
        n = 150 if tier == "quick" else 3000
        r = run_tlc("MCMailbox", "Mailbox_sim.cfg", workers=1, simulate=n, depth=40, seed=seed, timeout=1800)
        require_ok(r, "Mailbox simulation")
        sims = sorted(set(r.lines("BEH")))
        os.unlink(r.outfile)
        if len(sims) < n // 3:
            raise Internal("Mailbox simulation: only %d behaviours" % len(sims))
        cases = [{"kind": "mailbox", "cap": 2, "mb": json.loads(p), "binding": "mailbox"} for p in bad + sims]
        for i, c in enumerate(cases):
            c["id"] = 20000 + i
        v.cov["mailbox"] = {"deviation_schedules": len(bad), "simulated_runs": len(sims),
                            "rule": "Mailbox.tla schedules on a real peer.Run over net.Pipe (goroutine held at the writeEvent yield point), harness-owned mailbox of capacity 2, "
                                    "events handled by a stepped real torrent in the order taken; availability is zero once the peer has left"}
    vh = vlib.build_harness()
    wd = vlib.scratch("mbx-")
    sf, rf = os.path.join(wd, "cases.ndjson"), os.path.join(wd, "res.ndjson")
    with open(sf, "w") as f:
        for c in cases:
            f.write(json.dumps(c, separators=(",", ":")) + "\n")
    out, err = vlib.run_harness(vh, ["c11x", "-in", sf, "-out", rf, "-parallel", "12", "-timeout", "60"], timeout=3600)
    log(out.strip())
    for line in open(rf):
        res = json.loads(line)
        c = cases[res["index"]]
        if res.get("crash") or res.get("hang"):
            st = res.get("stderr", "")
            first = [x for x in st.splitlines() if x.startswith(("panic", "fatal"))][:1]
            if res.get("hang"):
                raise Internal("mailbox case %s hung: %s" % (c["id"], st[-400:]))
            v.violation("handler-crash", "the process crashed in mailbox case %s: %s" % (c["id"], first), c)
            continue
        o = res["out"]
        if o.get("note") and not o.get("violations"):
            raise Internal("mailbox case %s: %s" % (c["id"], o["note"]))
        for vi in o.get("violations") or []:
            if vi["prop"] == prop:
                v.violation(vi["key"], vi["what"], c)
        for nc in o.get("nonconf") or []:
            v.warn("nonconformance: mailbox case %s: %s" % (c["id"], nc))
    return len(cases)


def run(prop, tier, seed, replay=None):
    v = Verdict(prop, tier, seed)
    v.assumptions = ["binding B2: the real handlers are stepped synchronously, the mailboxes between torrent and peers are consumed in the order "
                     "the TLC behaviour says; the Run loop's exit path and select races are not exercised here",
                     "geometry: 2 pieces of 2+1 blocks, the last block short or full, and 2 pieces of 3+1 blocks (piece length not a power of two); 2 peers (one with, one without the fast extension)",
                     "maybeRequest's pipelining (rate dependent) is nondeterministic in the specification"]
    if replay and json.load(open(replay))["scenario"].get("binding") == "mailbox":
        mailbox_probe(v, prop, tier, seed, [json.load(open(replay))["scenario"]])
        return v.finish()
    if replay and json.load(open(replay))["scenario"].get("binding") == "webseed":
        import p_webseed
        p_webseed.full_path_probe(v, prop, tier, seed, [json.load(open(replay))["scenario"]])
        return v.finish()
    if replay:
        scen = [json.load(open(replay))["scenario"]]
    else:
        cfgs = ["Sched_mc1q.cfg"] if tier == "quick" else ["Sched_mc1.cfg", "Sched_mc2.cfg"]
        for cfg in cfgs:
            r = run_tlc("MCSched", cfg, workers=16, timeout=3000)
            require_ok(r, "model checking " + cfg)
            v.add_tlc(cfg, r)
        scen = gen_behaviours(v, tier, seed)
        for i, sc in enumerate(scen):
            sc["id"] = i
            sc.setdefault("geom", i % 2)
    if replay and scen[0].get("kind") in ("advert", "pex"):
        raise Internal("replay of advert/pex cases: run `harness/bin/vh c11x` on the scenario")
    obs, applied, nreq = run_replays(v, prop, scen)
    v.cov["evaluations"] = len(scen)
    v.cov["distinct_nontrivial"] = len({json.dumps(s["steps"], sort_keys=True) for s in scen})
    v.cov["rule"] = "TLC-simulated behaviours of Sched.tla (2 peers, <= 14 remote messages, <= 6 scheduling decisions, depth 45) applied to the real handlers"
    v.cov["impl_steps_applied"] = applied
    v.cov["requests_put_on_the_wire"] = nreq
    v.cov["quiescent_points_checked"] = len(obs)
    if not replay and not v.violations and (len(obs) < len(scen) or nreq == 0):
        raise Internal("too few quiescent points (%d) or no request was ever sent (%d): vacuous" % (len(obs), nreq))
    if prop == "C09":
        twd = vlib.scratch("scht-")
        tf = os.path.join(twd, "obs.ndjson")
        with open(tf, "w") as f:
            for _, q in obs:
                f.write(json.dumps({"inFlight": q["inFlight"], "avail": q["avail"], "held": q["held"], "adv": q["adv"]}, separators=(",", ":")) + "\n")
        r = run_tlc("SchedTrace", "SchedTrace.cfg", workdir=twd, workers=1, env={"TRACE": tf}, timeout=1800, continue_on_violation=True)
        if r.error and not r.violation:
            raise Internal("SchedTrace failed: %s\n%s" % (r.error, r.tail))
        for inv, l in tlc_violations(r.outfile)[:20]:
            sc, q = obs[l - 1]
            key = "availability-mismatch" if inv == "Availability" else "inflight-miscount"
            v.violation(key, "invariant %s of Sched.tla is false on bookkeeping observed at a quiescent point: %s (scenario %s step %s)"
                        % (inv, json.dumps(q), sc["id"], q["step"]), sc)
        v.cov["states"] += r.distinct
        v.cov["transitions"] += r.generated
    v.cov["traces_validated_against_impl"] = len(scen)
    if prop == "C09" and not replay:
        # "once events in transit have been processed": the order in which a live peer's events reach the torrent
        n = mailbox_probe(v, prop, tier, seed)
        v.cov["traces_validated_against_impl"] += n
    if prop == "C09" and not replay:
        # the blocks reserved for web-seed fetches are part of the same bookkeeping
        import p_webseed
        p_webseed.full_path_probe(v, prop, tier, seed)
    if prop == "C11" and not replay:
        n = run_c11_tables(v, tier, seed, random.Random(seed))
        v.cov["traces_validated_against_impl"] += n
        v.cov["evaluations"] += n
        v.cov["distinct_nontrivial"] += n
    return v.finish()
