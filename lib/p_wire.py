"""C04 (spec/Framing.tla) and C06 (spec/Codec.tla): TLC-enumerated case tables (B4) run on
protocol.Read / protocol.Write."""
import json, os, random, re
import vlib
from vlib import run_tlc, require_ok, Verdict, Internal, log


def harness_cases(cases, parallel=12, timeout=60):
    vh = vlib.build_harness()
    wd = vlib.scratch("wire-")
    sf, rf = os.path.join(wd, "cases.ndjson"), os.path.join(wd, "res.ndjson")
    with open(sf, "w") as f:
        for c in cases:
            f.write(json.dumps(c, separators=(",", ":")) + "\n")
    out, err = vlib.run_harness(vh, ["wire", "-in", sf, "-out", rf, "-parallel", str(parallel), "-timeout", str(timeout)], timeout=3600)
    log(out.strip())
    res = [None] * len(cases)
    for line in open(rf):
        r = json.loads(line)
        res[r["index"]] = r
    if any(r is None for r in res):
        raise Internal("harness returned fewer results than cases")
    return res


def crash_line(st):
    for line in st.splitlines():
        if line.startswith(("panic:", "fatal error:", "runtime:")):
            return line.strip()[:100]
    return "crash"


def tlc_violations(outfile):
    """(invariant, l) for every violation TLC reports with -continue."""
    res, cur = [], None
    for line in open(outfile, errors="replace"):
        m = re.match(r"^Error: Invariant (\S+) is violated", line)
        if m:
            cur = [m.group(1), None]
            res.append(cur)
        m = re.match(r"^/\\ l = (\d+)", line)
        if m and cur is not None:
            cur[1] = int(m.group(1))
    return [(a, b) for a, b in res if b]


def run_c04(prop, tier, seed, replay=None):
    v = Verdict(prop, tier, seed)
    v.assumptions = ["'all byte strings' is covered as the cross product of the classes of MCFraming.tla "
                     "(17 announced lengths x 23 ids x 7 sub-ids x 12 bencoded-body classes x 5 truncations), filler bytes seeded",
                     "allocation is measured with runtime.MemStats.TotalAlloc around each call; bound 8*len+64KiB"]
    if replay:
        cases = [json.load(open(replay))["scenario"]]
    else:
        r = run_tlc("MCFraming", "Framing_mc.cfg", workers=1, timeout=600)
        require_ok(r, "Framing model checking")
        v.add_tlc("Framing_mc.cfg", r)
        seen, cases = set(), []
        for payload in r.lines("CASE"):
            if payload in seen:
                continue
            seen.add(payload)
            c = json.loads(payload)
            c["kind"] = "frame"
            cases.append(c)
        os.unlink(r.outfile)
        if len(cases) < 500:
            raise Internal("Framing: only %d cases generated" % len(cases))
        reps = 1 if tier == "quick" else 6
        cases = [dict(c, seed=seed * 100 + k) for k in range(reps) for c in cases]
        for i, c in enumerate(cases):
            c["id"] = i
    # the classes that may allocate a lot run in their own workers, a crash is a result too
    res = harness_cases(cases, parallel=8, timeout=120)
    obs_lines = []
    outcomes = {}
    for c, r in zip(cases, res):
        if r.get("crash") or r.get("hang"):
            st = r.get("stderr", "")
            v.violation("decode-crash:id%d" % c["in"]["id"],
                        "the process %s while decoding %s: %s" % ("hung" if r.get("hang") else "crashed", json.dumps(c["in"]), crash_line(st)), c)
            continue
        o = r["out"]
        if o.get("note"):
            raise Internal("case %s: %s" % (c["id"], o["note"]))
        for vi in o.get("violations") or []:
            v.violation(vi["key"], vi["what"], c)
        for nc in o.get("nonconf") or []:
            v.warn("nonconformance: " + nc)
        outcomes[o["out"]] = outcomes.get(o["out"], 0) + 1
        auto = c["in"]["lh"] < 0
        cons = o["consumed"]
        if cons > o["frame_end"]:
            cons = -3
        elif auto and cons == o["frame_end"]:
            cons = -2
        obs_lines.append((c, {"in": c["in"], "out": o["out"], "consumed": cons, "alloc": o["alloc"]}))
        if len(v.cov["samples"]) < 5 and c["id"] % 211 == 0:
            v.sample({"input": c["in"], "specification": c["out"], "observed": o["out"], "consumed": o["consumed"],
                      "frame_end": o["frame_end"], "alloc_bytes": o["alloc_bytes"]})
    # monitor pass: TLC evaluates the invariants of Framing.tla on what the code did
    wd = vlib.scratch("ftrace-")
    tf = os.path.join(wd, "obs.ndjson")
    with open(tf, "w") as f:
        for _, e in obs_lines:
            f.write(json.dumps(e, separators=(",", ":")) + "\n")
    r = run_tlc("FramingTrace", "FramingTrace.cfg", workdir=wd, workers=1, env={"TRACE": tf}, timeout=1200,
                continue_on_violation=True)
    if r.error and not r.violation:
        raise Internal("FramingTrace failed: %s\n%s" % (r.error, r.tail))
    for inv, l in tlc_violations(r.outfile):
        c, e = obs_lines[l - 1]
        key = {"Total": "nil-nil:id%d" % c["in"]["id"] if e["out"] == "none" else "total",
               "NeverBeyond": "read-beyond-frame:id%d" % c["in"]["id"], "ExactlyFramed": "misframed",
               "Bounded": "bencode-string-prealloc" if c["in"]["body"] == "hugestr" else "alloc-unbounded",
               "NoPanic": "decode-panic"}.get(inv, inv)
        v.violation(key, "invariant %s of Framing.tla is false on the observed outcome %s" % (inv, json.dumps(e)), c)
    v.cov["states"] += r.distinct
    v.cov["transitions"] += r.generated
    v.cov["traces_validated_against_impl"] = len(obs_lines)
    v.cov["evaluations"] = len(cases)
    v.cov["distinct_nontrivial"] = len({json.dumps(c["in"], sort_keys=True) for c in cases})
    v.cov["rule"] = "one case per abstract input of MCFraming.tla (distinct = distinct abstract inputs); every case decodes at least a length prefix"
    v.cov["observed_outcomes"] = outcomes
    v.cov["exhaustive"] = True
    return v.finish()


def run_c06(prop, tier, seed, replay=None):
    v = Verdict(prop, tier, seed)
    rng = random.Random(seed)
    v.assumptions = ["field values are the boundary classes of MCCodec.tla, not all 2^32 values",
                     "bencoded extension payloads are compared as dictionaries (keys sorted, values equal, zero-valued "
                     "keys may be omitted); fixed-layout messages byte for byte",
                     "round trip is checked with the sub-ids storrent advertises (1-4)"]
    if replay:
        cases = [json.load(open(replay))["scenario"]]
    else:
        r = run_tlc("MCCodec", "Codec_mc.cfg", workers=1, timeout=600)
        require_ok(r, "Codec model checking")
        v.add_tlc("Codec_mc.cfg", r)
        seen, cases = set(), []
        for payload in r.lines("CASE"):
            if payload in seen:
                continue
            seen.add(payload)
            c = json.loads(payload)
            c["kind"] = "codec"
            cases.append(c)
        os.unlink(r.outfile)
        if len(cases) < 1000:
            raise Internal("Codec: only %d cases generated" % len(cases))
        nstreams = 150 if tier == "quick" else 3000
        small = [c for c in cases if c["m"].get("n", 0) <= 17]
        streams = []
        # every small message appears in at least one stream (so every decoder branch sees every cut position) ...
        order = list(small)
        rng.shuffle(order)
        for k in range(0, len(order), 4):
            streams.append({"kind": "stream", "seed": seed * 13 + k, "cases": order[k:k + 4]})
        # ... the larger payloads (bitfields of 1000 bytes) between two small messages ...
        for c in [c for c in cases if 17 < c["m"].get("n", 0) <= 1000][:12]:
            streams.append({"kind": "stream", "seed": seed * 17 + len(streams), "cases": [rng.choice(small), c, rng.choice(small)]})
        # ... and random compositions
        for k in range(nstreams):
            streams.append({"kind": "stream", "seed": seed * 7 + k, "cases": [rng.choice(small) for _ in range(rng.randint(2, 6))]})
        # short payloads followed by full-size blocks (the decoded buffers are released to the pool in between)
        shortp = [c for c in cases if c["m"]["k"] == "Piece" and 0 < c["m"].get("n", 0) < 16384][:3]
        fullp = [c for c in cases if c["m"]["k"] == "Piece" and c["m"].get("n", 0) == 16384][:3]
        if shortp and fullp:
            streams.append({"kind": "stream", "seed": seed + 5, "cases": [shortp[0], fullp[0], shortp[-1], fullp[-1], fullp[0]]})
        # one long stream with full-size blocks, cut at random points only
        streams.append({"kind": "stream", "seed": seed, "cases": [c for c in cases if c["m"].get("n", 0) == 16384][:8]})
        cases = cases + streams
        for i, c in enumerate(cases):
            c["id"] = i
    res = harness_cases(cases, parallel=12, timeout=120)
    nchecks = 0
    kinds = {}
    for c, r in zip(cases, res):
        if r.get("crash") or r.get("hang"):
            v.violation("codec-crash", "the process crashed on case %s: %s" % (json.dumps(c.get("m"))[:200], crash_line(r.get("stderr", ""))), c)
            continue
        o = r["out"]
        if o.get("note"):
            raise Internal("case %s: %s" % (c["id"], o["note"]))
        for vi in o.get("violations") or []:
            v.violation(vi["key"], vi["what"], c)
        nchecks += o.get("checks", 0)
        if c["kind"] == "codec":
            kinds[c["m"]["k"]] = kinds.get(c["m"]["k"], 0) + 1
            if c["id"] % 400 == 7:
                v.sample({"message": c["m"], "tokens": c["toks"][:12]})
    v.cov["traces_validated_against_impl"] = len(cases)
    v.cov["evaluations"] = nchecks
    v.cov["distinct_nontrivial"] = len({json.dumps(c.get("m", c.get("cases")), sort_keys=True)[:2000] for c in cases})
    v.cov["rule"] = ("one codec case per message of MCCodec.tla: Write vs the independent token encoding, Read of both; stream cases "
                     "concatenate 2-6 messages and decode them through readers cut at every single point, byte-at-a-time and at random cuts")
    v.cov["messages_by_kind"] = kinds
    return v.finish()
