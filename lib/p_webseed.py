"""C14: spec/Webseed.tla bound to tor.fileChunks, the web-seed writer, GetRight.Get and the full fetch path."""
import json, os, random
import vlib
from vlib import run_tlc, require_ok, Verdict, Internal, log

SERVERS = ["honest", "200-whole", "200-nolength", "shifted", "malformed-range", "no-content-range", "star-total", "wrong-total", "416", "404", "500",
           "short-range", "truncated-body", "overlong-body", "long-range", "reset"]


def run(prop, tier, seed, replay=None):
    v = Verdict(prop, tier, seed)
    rng = random.Random(seed)
    v.assumptions = ["file layouts: lengths of 0..9 units of 8 KiB, up to 4 files, padding flags; block-aligned ranges inside one piece",
                     "writer: ranges of whole blocks or ending with the torrent's short last block; stream splits around block boundaries; 0/1/5000/16484/40000 excess bytes; "
                     "the piece completed by someone else before segment 0/1/2",
                     "server behaviours: %s; Hoffman (BEP 17) seeds: exact, inclusive range, no length with excess / short, short length, truncated, over-long, 206, 503, bad length, reset" % ", ".join(SERVERS),
                     "full path: single-file, multi-file with a padding file, and 2 MiB pieces; honest / short-range / over-long servers on 127.0.0.1"]
    if replay:
        cases = [json.load(open(replay))["scenario"]]
    else:
        r = run_tlc("MCWebseed", "Webseed_files.cfg", workers=1, timeout=600)
        require_ok(r, "Webseed file-chunk cases")
        v.add_tlc("Webseed_files.cfg", r)
        cases = []
        for p in sorted(set(r.lines("CASE"))):
            c = json.loads(p)
            c["kind"] = "files"
            cases.append(dict(c, pads=[]))
            if len(c["lens"]) > 1:
                cases.append(dict(c, pads=[k == 1 for k in range(len(c["lens"]))]))
        os.unlink(r.outfile)
        if len(cases) < 300:
            raise Internal("Webseed: only %d file cases" % len(cases))
        for rl in (4, 5, 7):
            for b in ("FALSE", "TRUE"):
                r = run_tlc("MCWebseed", "Webseed_writer_%d_%s.cfg" % (rl, b), workers=4, timeout=600)
                require_ok(r, "Webseed writer %d %s" % (rl, b))
                v.add_tlc("Webseed_writer_%d_%s.cfg" % (rl, b), r)
        ranges = [(0, 49152), (16384, 49152), (98304, 200000), (0, 131072), (114688, 16384), (16384, 16384)]
        splits = [[1 << 20], [16383, 1, 16384, 16385, 1 << 20], [16385, 16383, 1 << 20], [5, 16384, 7, 100000], [1, 1, 1, 16381, 32768, 1 << 20],
                  [40000, 40000, 40000, 40000], [16384, 16384, 16384, 16384, 16384], [100, 200, 300, 1 << 20]]
        for (bg, rl) in ranges:
            for sg in splits:
                for via in ("write", "readfrom"):
                    for extra in (0, 1, 5000, 16484, 40000):    # up to more than two whole blocks beyond the range
                        for busy in ((-1, 1) if tier == "quick" else (-1, 0, 1, 2)):
                            cases.append({"kind": "writer", "begin": bg, "rlen": rl, "segs": sg, "via": via, "extra": extra, "busyat": busy})
        for sv in SERVERS:
            for (off, ln, fl) in ((0, 20000, 100000), (1000, 20000, 100000), (90000, 10000, 100000), (0, 100000, 100000), (16384, 1, 16385)):
                cases.append({"kind": "get", "server": sv, "off": off, "len": ln, "flen": fl})
        cases.append({"kind": "farfiles"})      # pieces on both sides of offset 2^32 of a torrent longer than 4 GiB
        HSERVERS = ["h-exact", "h-inclusive", "h-nolength-excess", "h-nolength-short", "h-short-length", "h-truncated", "h-overlong", "h-206", "h-503",
                    "h-bad-length", "h-reset", "h-whole-piece", "h-whole-torrent"]
        for sv in HSERVERS:
            for (off, ln, fl) in ((0, 16384, 200000), (65536 + 16384, 32768, 200000), (196608, 3392, 200000), (65536, 65536, 200000), (131072 + 100, 5000, 200000)):
                cases.append({"kind": "hget", "server": sv, "off": off, "len": ln, "flen": fl})
        reps = 1 if tier == "quick" else 5
        for _ in range(reps):
            for layout in ("single", "multi", "big"):
                for sv in ("honest", "short-range", "overlong-body"):
                    cases.append({"kind": "full", "layout": layout, "server": sv})
        for i, c in enumerate(cases):
            c["id"] = i
    vh = vlib.build_harness()
    wd = vlib.scratch("ws-")
    sf, rf = os.path.join(wd, "cases.ndjson"), os.path.join(wd, "res.ndjson")
    with open(sf, "w") as f:
        for c in cases:
            f.write(json.dumps(c, separators=(",", ":")) + "\n")
    out, err = vlib.run_harness(vh, ["webseed", "-in", sf, "-out", rf, "-parallel", "12", "-timeout", "120"], timeout=7200)
    log(out.strip())
    kinds = {}
    for line in open(rf):
        res = json.loads(line)
        c = cases[res["index"]]
        if res.get("crash") or res.get("hang"):
            st = res.get("stderr", "")
            first = [x for x in st.splitlines() if x.startswith(("panic", "fatal"))][:1]
            v.violation("crash:" + c["kind"], "the process %s on case %s: %s" % ("hung" if res.get("hang") else "crashed", json.dumps(c)[:300], first), c)
            continue
        o = res["out"]
        if o.get("note"):
            raise Internal("case %s: %s" % (c["id"], o["note"]))
        for vi in o.get("violations") or []:
            v.violation(vi["key"], vi["what"], c)
        for nc in o.get("nonconf") or []:
            v.warn("nonconformance: " + nc)
        kinds[c["kind"]] = kinds.get(c["kind"], 0) + 1
        if c["id"] % 211 == 5 or c["kind"] == "full" and c["id"] % 3 == 0:
            v.sample({k: c[k] for k in c if k not in ("id", "chunks")} | {"observed": o.get("observed")})
    v.cov["traces_validated_against_impl"] = len(cases)
    v.cov["evaluations"] = len(cases)
    v.cov["distinct_nontrivial"] = len({json.dumps({k: c[k] for k in c if k != "id"}, sort_keys=True) for c in cases})
    v.cov["rule"] = "file-chunk cases enumerated by TLC; writer / server-behaviour / full-path cases from the parameter grids of Webseed.tla's actions"
    v.cov["cases_by_kind"] = kinds
    return v.finish()


def full_path_probe(v, prop, tier, seed, cases=None):
    """The full web-seed path of a running torrent, for C09: every block reserved for a fetch is released when it ends."""
    if cases is None:
        cases = [{"kind": "full", "layout": layout, "server": sv, "binding": "webseed"} for layout in ("single", "multi", "big") for sv in ("honest", "short-range", "overlong-body")]
        for i, c in enumerate(cases):
            c["id"] = 5000 + i
    vh = vlib.build_harness()
    wd = vlib.scratch("wsp-")
    sf, rf = os.path.join(wd, "cases.ndjson"), os.path.join(wd, "res.ndjson")
    with open(sf, "w") as f:
        for c in cases:
            f.write(json.dumps(c, separators=(",", ":")) + "\n")
    out, err = vlib.run_harness(vh, ["webseed", "-in", sf, "-out", rf, "-parallel", "9", "-timeout", "120"], timeout=3600)
    log(out.strip())
    for line in open(rf):
        res = json.loads(line)
        c = cases[res["index"]]
        if res.get("crash") or res.get("hang"):
            continue   # C14's business
        o = res["out"]
        if o.get("note"):
            raise Internal("web-seed probe case %s: %s" % (c["id"], o["note"]))
        for vi in o.get("violations") or []:
            if vi["key"] == "full-inflight-leak":
                v.violation("inflight-leak:webseed", vi["what"], c)
    v.cov["webseed_full_path"] = {"cases": len(cases), "rule": "running torrents fetching from a local web seed (3 layouts incl. 2 MiB pieces x 3 server behaviours): inFlight is zero once every fetch has ended"}
    return len(cases)


def kill_probe(v, prop, tier, seed, cases=None):
    """For C17: a torrent deleted while a web-seed fetch is outstanding (GetRight and Hoffman seeds, the server stalling before
    the headers or in the middle of the body): the fetch ends with the torrent."""
    if cases is None:
        reps = 1 if tier == "quick" else 6
        cases = [{"kind": "killfetch", "layout": ly, "server": sv, "binding": "webseed"} for _ in range(reps)
                 for ly in ("getright", "hoffman") for sv in ("stall-before-headers", "stall-mid-body")]
        for i, c in enumerate(cases):
            c["id"] = 7000 + i
    vh = vlib.build_harness()
    wd = vlib.scratch("wsk-")
    sf, rf = os.path.join(wd, "cases.ndjson"), os.path.join(wd, "res.ndjson")
    with open(sf, "w") as f:
        for c in cases:
            f.write(json.dumps(c, separators=(",", ":")) + "\n")
    out, err = vlib.run_harness(vh, ["webseed", "-in", sf, "-out", rf, "-parallel", "4", "-timeout", "120"], timeout=3600)
    log(out.strip())
    for line in open(rf):
        res = json.loads(line)
        c = cases[res["index"]]
        if res.get("crash") or res.get("hang"):
            st = res.get("stderr", "")
            first = [x for x in st.splitlines() if x.startswith(("panic", "fatal"))][:1]
            v.violation("crash:killfetch", "the process %s while a torrent with an outstanding web-seed fetch was deleted: %s" % ("hung" if res.get("hang") else "crashed", first), c)
            continue
        o = res["out"]
        if o.get("note") and not o.get("violations"):
            raise Internal("kill probe case %s: %s" % (c["id"], o["note"][:600]))
        for vi in o.get("violations") or []:
            if vi["prop"] == prop:
                v.violation(vi["key"], vi["what"], c)
    v.cov["webseed_kill_probe"] = {"cases": len(cases), "rule": "running torrents deleted while a fetch from a stalling local web seed (GetRight / Hoffman; before headers / mid-body) is outstanding"}
    return len(cases)
