"""C19 (spec/WebUI.tla) and C20 (spec/Namespace.tla): TLC-enumerated case tables replayed into the real HTTP handlers and FUSE nodes."""
import json, os, random
import vlib
from vlib import run_tlc, require_ok, Verdict, Internal, log


def _cases(module, cfg, v, minimum):
    r = run_tlc(module, cfg, workers=1, timeout=600)
    require_ok(r, cfg)
    v.add_tlc(cfg, r)
    out = [json.loads(p) for p in sorted(set(r.lines("CASE")))]
    os.unlink(r.outfile)
    if len(out) < minimum:
        raise Internal("%s: only %d cases" % (cfg, len(out)))
    return out


def _drive(v, prop, cases, label):
    vh = vlib.build_harness()
    wd = vlib.scratch("http-")
    sf, rf = os.path.join(wd, "cases.ndjson"), os.path.join(wd, "res.ndjson")
    with open(sf, "w") as f:
        for c in cases:
            f.write(json.dumps(c, separators=(",", ":")) + "\n")
    out, err = vlib.run_harness(vh, ["http", "-in", sf, "-out", rf, "-parallel", "12", "-timeout", "120"], timeout=7200)
    log(out.strip())
    n = 0
    for line in open(rf):
        res = json.loads(line)
        c = cases[res["index"]]
        if res.get("crash") or res.get("hang"):
            st = res.get("stderr", "")
            first = [x for x in st.splitlines() if x.startswith(("panic", "fatal"))][:1]
            v.violation("crash:" + label(c), "the process %s on case %s: %s" % ("hung" if res.get("hang") else "crashed", json.dumps(c)[:300], first), c)
            continue
        o = res["out"]
        if o.get("note"):
            raise Internal("case %s: %s" % (c["id"], o["note"]))
        for vi in o.get("violations") or []:
            if vi["prop"] == prop:
                v.violation(vi["key"], vi["what"], c)
        for nc in o.get("nonconf") or []:
            v.warn("nonconformance: " + nc)
        n += 1
        if c["id"] % 97 == 3:
            v.sample({k: c[k] for k in c if k != "id"} | {"observed": o.get("observed")})
    return n


def run_c20(prop, tier, seed, replay=None):
    v = Verdict(prop, tier, seed)
    v.assumptions = ["12 file layouts, 19 in the thorough tier (names sharing prefixes, nested directories, names needing URL escaping or containing %41 / ? / #, a file and a directory of the same "
                     "name, a duplicated path, a padding file); lookup paths over each layout's own components plus an absent name, the empty name and '..'",
                     "torrent content complete in RAM; file lengths 20000+1000k so that files are distinguishable by size and straddle pieces",
                     "HTTP: GET/HEAD/Range on the file view, directory page, ?playlist; FUSE: Lookup/Attr/ReadDirAll/Open/Read through fuse.VerifRoot()"]
    if replay:
        cases = [json.load(open(replay))["scenario"]]
    else:
        cases = _cases("MCNamespace", "Namespace_mc.cfg", v, 2100) if tier == "quick" else _cases("MCNamespace", "Namespace_big.cfg", v, 7000)
        for c in cases:
            c["kind"] = "namespace"
        # torrents sharing a name: Namespace!ByName
        byname = _cases("MCByName", "ByName_mc.cfg", v, 150)
        if tier == "quick":
            byname = [c for k, c in enumerate(byname) if k % 3 == seed % 3]
        for c in byname:
            c["kind"] = "byname"
        cases += byname
        for i, c in enumerate(cases):
            c["id"] = i
    n = _drive(v, prop, cases, lambda c: c["kind"])
    v.cov["traces_validated_against_impl"] = n
    v.cov["evaluations"] = n
    v.cov["distinct_nontrivial"] = len({json.dumps([c.get("files"), c.get("p"), c.get("kinds"), c.get("rank"), c.get("probe")]) for c in cases})
    v.cov["rule"] = "every (layout, lookup path) case enumerated by TLC from Namespace.tla; the expected resolution, listing and playlist come from the spec's operators"
    return v.finish()


def run_c19(prop, tier, seed, replay=None):
    v = Verdict(prop, tier, seed)
    v.assumptions = ["13 routes x 5 methods x 8 Host classes enumerated by TLC from WebUI.tla; three hostile string sets (a tag, an attribute break-out, a mix of & < > ' \"), six in the thorough tier",
                     "hostile values placed in the torrent name, a directory component, a file component, a tracker URL, a web-seed URL and a known peer's version; "
                     "one file name contains a line break",
                     "requests go through net/http's DefaultServeMux as registered by storrent's http.Serve; Host is set per class"]
    if replay:
        cases = [json.load(open(replay))["scenario"]]
    else:
        base = _cases("MCWebUI", "WebUI_mc.cfg", v, 500)
        cases = []
        sets = (0, 1, 2) if tier == "quick" else (0, 1, 2, 3, 4, 5)
        for c in base:
            for hs in sets:
                if tier == "quick" and c["expect"] == "refused" and hs != seed % 3:
                    continue
                cases.append(dict(c, hostile=hs))
        for i, c in enumerate(cases):
            c["id"], c["kind"] = i, "webui"
    n = _drive(v, prop, cases, lambda c: c["route"])
    v.cov["traces_validated_against_impl"] = n
    v.cov["evaluations"] = n
    v.cov["distinct_nontrivial"] = len({json.dumps([c["route"], c["method"], c["host"], c["hostile"]]) for c in cases})
    v.cov["rule"] = "every (route, method, Host class) case of WebUI.tla, times the hostile string sets"
    return v.finish()
