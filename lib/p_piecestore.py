"""C01 / C03: spec/PieceStore.tla bound to tor/piece by gated goroutine replay (B1)
and trace validation."""
import json, os, random, re
import vlib
from vlib import run_tlc, require_ok, Graph, Verdict, Internal, log

INV_PROP = {"CompleteIsHashed": "C01", "OnlyVerified": "C01", "BusyHasBuf": "C01",
            "Accounting": "C03", "BufferIffData": "C03", "DelReleasesAll": "C03"}


def is_init(s):
    return all(v == "idle" for v in s["pc"].values())


def crash_key(stderr):
    for line in stderr.splitlines():
        line = line.strip()
        if line.startswith("panic:") or line.startswith("fatal error:") or line.startswith("unexpected fault address") \
           or "SIGSEGV" in line or "SIGBUS" in line:
            return re.sub(r"0x[0-9a-f]+", "0x..", line)[:80]
    return "crash"


def props_of_crash(stderr):
    ps = {"C03"}
    if "fault address" in stderr or "SIGSEGV" in stderr or "SIGBUS" in stderr:
        ps.add("C01")
    return ps


def gen_scenarios(v, tier, seed, rng):
    """TLC-generated behaviours: edge-covering walks over the exhaustive graph of a
    small configuration, plus simulated deep behaviours of a larger one."""
    scen = []
    cfg = "PieceStore_edges2q.cfg" if tier == "quick" else "PieceStore_edges2.cfg"
    r = run_tlc("GenPieceStore", cfg, workers=1, timeout=1800)
    require_ok(r, "edge dump " + cfg)
    g = Graph.from_result(r, is_init)
    os.unlink(r.outfile)
    if not g.inits:
        raise Internal("edge dump: no initial state found")
    walks, unc = g.covering_walks(rng, maxlen=40)
    if unc:
        raise Internal("edge dump: %d edges not reachable from an initial state" % unc)
    v.cov["edge_graph"] = {"cfg": cfg, "states": len(g.states), "edges": g.nedges, "covering_walks": len(walks)}
    limit = 6000 if tier == "quick" else None
    if limit and len(walks) > limit:
        # quick tier: a seeded sample of the covering set (the thorough tier replays all of it)
        # (walks through the rare wait/relock steps of Del are always kept)
        rng.shuffle(walks)
        rare = {"DelWake", "DelRelock"}
        walks.sort(key=lambda w: 0 if any(lab["a"] in rare for lab, _ in w[1]) else 1)
        walks = walks[:limit]
        v.cov["edge_graph"]["walks_replayed"] = limit
    for w in walks:
        sc = g.scenario(w, "")
        sc["threads"] = 2
        scen.append(sc)
    # access-time alphabet (age, touch, expire, read) over every initial access order
    cfg = "PieceStore_edgesLRUq.cfg" if tier == "quick" else "PieceStore_edgesLRU.cfg"
    r = run_tlc("GenPieceStore", cfg, workers=1, timeout=1800)
    require_ok(r, "edge dump " + cfg)
    g2 = Graph.from_result(r, is_init)
    os.unlink(r.outfile)
    walks2, unc = g2.covering_walks(rng, maxlen=40)
    if unc or not g2.inits:
        raise Internal("edge dump %s: %d edges unreachable" % (cfg, unc))
    v.cov["edge_graph_lru"] = {"cfg": cfg, "states": len(g2.states), "edges": g2.nedges, "covering_walks": len(walks2)}
    if limit and len(walks2) > limit // 2:
        rng.shuffle(walks2)
        walks2 = walks2[:limit // 2]
        v.cov["edge_graph_lru"]["walks_replayed"] = len(walks2)
    for w in walks2:
        sc = g2.scenario(w, "")
        sc["threads"] = 2
        sc["np"] = 3
        scen.append(sc)
    # deletion racing with arrivals (4 threads with one operation each): the sweep passes piece 0, waits for piece 1 to be hashed,
    # piece 0 arrives again and is verified meanwhile.  The deviation "deleted_last" (the flag latched after the sweep) must be refuted.
    r = run_tlc("GenPieceStore", "PieceStore_dellast.cfg", workers=2, timeout=900)
    if r.violation not in ("DelReleasesAll", "OnlyVerified"):
        raise Internal("PieceStore_dellast.cfg: the deviation is not refuted (%s / %s)" % (r.violation, r.error))
    os.unlink(r.outfile)
    r = run_tlc("GenPieceStore", "PieceStore_edgesDelRace.cfg", workers=1, timeout=900)
    require_ok(r, "edge dump PieceStore_edgesDelRace.cfg")
    g3 = Graph.from_result(r, is_init)
    os.unlink(r.outfile)
    walks3, unc = g3.covering_walks(rng, maxlen=40)
    if unc or not g3.inits:
        raise Internal("edge dump PieceStore_edgesDelRace.cfg: %d edges unreachable" % unc)
    v.cov["edge_graph_delrace"] = {"states": len(g3.states), "edges": g3.nedges, "covering_walks": len(walks3)}
    for w in walks3:
        sc = g3.scenario(w, "")
        sc["threads"] = 4
        sc["np"] = 2
        scen.append(sc)
    # refused allocations (the kernel refuses the mapping of a piece buffer): 2 threads, mapped pieces only
    r = run_tlc("GenPieceStore", "PieceStore_edgesNoMem.cfg", workers=1, timeout=900)
    require_ok(r, "edge dump PieceStore_edgesNoMem.cfg")
    g4 = Graph.from_result(r, is_init)
    os.unlink(r.outfile)
    walks4, unc = g4.covering_walks(rng, maxlen=40)
    if unc or not g4.inits:
        raise Internal("edge dump PieceStore_edgesNoMem.cfg: %d edges unreachable" % unc)
    v.cov["edge_graph_nomem"] = {"states": len(g4.states), "edges": g4.nedges, "covering_walks": len(walks4)}
    if tier == "quick" and len(walks4) > 1500:
        rng.shuffle(walks4)
        walks4.sort(key=lambda w: 0 if any(lab.get("a") == "AddCrit" for lab, _ in w[1]) else 1)
        walks4 = walks4[:1500]
    for w in walks4:
        sc = g4.scenario(w, "")
        sc["threads"] = 2
        sc["geom"] = "mmap"
        scen.append(sc)
    # simulation: 4 threads, 3 pieces
    n = 1500 if tier == "quick" else 20000
    r = run_tlc("GenPieceStore", "PieceStore_sim.cfg", workers=1, simulate=n, depth=40, seed=seed, timeout=1800)
    require_ok(r, "simulation")
    nb = 0
    for payload in r.lines("BEH"):
        h = json.loads(payload)
        scen.append({"init": h[0]["s"], "steps": h[1:], "threads": 4})
        nb += 1
    os.unlink(r.outfile)
    v.cov["simulated_behaviours"] = nb
    if nb == 0:
        raise Internal("simulation produced no behaviour")
    for i, sc in enumerate(scen):
        sc["id"] = i
        sc.setdefault("geom", "mmap" if i % 2 else "heap")
    return scen


def far_scenarios(start_id):
    # a store of more than 4 GiB (the products of counts and piece sizes leave 32 bits)
    return [{"id": start_id, "threads": 0, "far": True}]


def stress_scenarios(tier, seed, start_id):
    n, ms = (6, 1500) if tier == "quick" else (48, 5000)
    out = []
    for k in range(n):
        out.append({"id": start_id + k, "threads": 0,
                    "stress": {"seed": seed * 7919 + k, "millis": ms, "psize": [1 << 20, 256 << 10, 32 << 10][k % 3],
                               "pieces": 4, "del": k % 2 == 1}})
    return out


def random_scenarios(tier, seed, start_id):
    n = 300 if tier == "quick" else 6000
    out = []
    for k in range(n):
        nt = 3 if k % 2 else 4
        out.append({"id": start_id + k, "geom": "mmap" if k % 3 == 0 else "heap", "threads": nt,
                    "random": {"seed": seed * 1000003 + k, "nch": [2, 2, 1],
                               "threads": ["t1", "t2", "t3", "t4"][:nt], "ops": 4}})
    return out


def validate_traces(v, prop, events_by_cfg, scen_of_line):
    """TLC validates the logs recorded from the implementation."""
    for nt, lines in events_by_cfg.items():
        if not lines:
            continue
        wd = vlib.scratch("trace-")
        tf = os.path.join(wd, "trace%s.ndjson" % nt)
        with open(tf, "w") as f:
            for _, _, e in lines:
                f.write(json.dumps(e, separators=(",", ":")) + "\n")
        ntraces = sum(1 for _, _, e in lines if e["a"] == "reset")
        # monitor pass: property invariants on every observed state
        r = run_tlc("PieceStoreTrace", "PieceStoreMon_%s.cfg" % nt, workdir=wd, workers=1, env={"TRACE": tf}, timeout=3600)
        if r.violation:
            m = re.findall(r"^/\\ l = (\d+)", open(r.outfile).read(), re.M)
            line = int(m[-1]) - 1 if m else 0
            sid, step, _ = lines[max(0, min(line - 1, len(lines) - 1))]
            p = INV_PROP.get(r.violation, prop)
            if p == prop:
                v.violation("observed-" + r.violation,
                            "invariant %s of PieceStore.tla is false in a state observed from the implementation "
                            "(scenario %s step %s)" % (r.violation, sid, step), scen_of_line.get(sid))
            else:
                v.warn("invariant %s (property %s) false on an observed state, scenario %s" % (r.violation, p, sid))
        elif not r.ok:
            raise Internal("monitor pass failed: %s\n%s" % (r.error, r.tail))
        v.cov["states"] += r.distinct
        v.cov["transitions"] += r.generated
        # strict pass: the log must be a behaviour of the specification
        r = run_tlc("PieceStoreTrace", "PieceStoreTrace_%s.cfg" % nt, workdir=wd, workers=1, env={"TRACE": tf}, timeout=3600)
        if not r.ok:
            raise Internal("trace validation failed: %s\n%s" % (r.error or r.violation, r.tail))
        bad = sorted((int(x.split()[0]), x.split()[1], (x.split() + [""])[2]) for x in r.lines("BADLINE"))
        badscen = {}
        for b, act, diag in bad:
            sid, step, e = lines[b - 1]
            if sid in badscen:
                continue          # only the first unexplained line of a trace is meaningful
            badscen[sid] = (step, e["t"], act, diag)
            # which pieces an eviction pass drops and reports is a C03 observable
            if prop == "C03" and act in ("ExpOne", "ExpBytes", "ExpBegin") and \
               any(f in diag for f in ("hasbuf", "ret")) and "pc" not in diag:
                v.violation("expire-order", "an eviction pass dropped or reported other pieces than least-recently-used "
                            "order (commonest first beyond 2 h) requires: scenario %s step %s (%s), specification and "
                            "implementation differ in %s" % (sid, step, act, diag), scen_of_line.get(sid))
        for sid, (step, t, a, diag) in list(badscen.items())[:10]:
            v.warn("nonconformance: scenario %s step %s (%s %s) is not a step of PieceStore.tla [%s]" % (sid, step, t, a, diag))
        v.cov["traces_validated_against_impl"] += ntraces
        v.cov.setdefault("trace_validation", []).append(
            {"threads": nt, "traces": ntraces, "events": len(lines), "rejected_traces": len(badscen),
             "wall_s": round(r.wall, 1)})
        v.cov["states"] += r.distinct
        v.cov["transitions"] += r.generated


def run(prop, tier, seed, replay=None):
    v = Verdict(prop, tier, seed)
    rng = random.Random(seed)
    v.assumptions = ["SHA-1 is trusted: digest equality is modelled as 'every chunk holds true content and the caller "
                     "passed the metainfo hash'", "bounds: 2-3 pieces of 1-2 (abstract) chunks, 2-4 threads, one operation "
                     "per thread in TLC-generated behaviours, 4 per thread in random schedules",
                     "yield points are the only places where goroutines are interleaved by the gated replay"]
    if replay and json.load(open(replay))["scenario"].get("kind") in ("farread", "fuseconc"):
        import p_http
        p_http._drive(v, prop, [json.load(open(replay))["scenario"]], lambda c: c["kind"])
        return v.finish()
    if replay and json.load(open(replay))["scenario"].get("binding") == "gexpire":
        import p_expire
        p_expire.global_expire(v, tier, seed, [json.load(open(replay))["scenario"]])
        return v.finish()
    if replay and json.load(open(replay))["scenario"].get("binding") == "upload":
        import p_upload
        p_upload.payload_check(v, tier, seed, [json.load(open(replay))["scenario"]])
        return v.finish()
    if replay:
        scen = [json.load(open(replay))["scenario"]]
    else:
        # 1. exhaustive model checking of the design
        mcs = [("PieceStore_mc2.cfg", 16)] if tier == "quick" else [("PieceStore_mc2.cfg", 16), ("PieceStore_mc3.cfg", 16)]
        if tier == "quick":
            mcs.append(("PieceStore_mc4core.cfg", 16))
        for cfg, wk in mcs:
            r = run_tlc("MCPieceStore", cfg, workers=wk, timeout=3000)
            require_ok(r, "model checking " + cfg)
            v.add_tlc(cfg, r)
        # 2. behaviours from the specification, 3. replay on the implementation
        scen = gen_scenarios(v, tier, seed, rng)
        scen += random_scenarios(tier, seed, len(scen))
        scen += stress_scenarios(tier, seed, len(scen))
        if prop == "C03":
            scen += far_scenarios(len(scen))
    vh = vlib.build_harness()
    wd = vlib.scratch("ps-")
    sf, rf = os.path.join(wd, "scen.ndjson"), os.path.join(wd, "res.ndjson")
    with open(sf, "w") as f:
        for sc in scen:
            f.write(json.dumps(sc, separators=(",", ":")) + "\n")
    out, err = vlib.run_harness(vh, ["piecestore", "-in", sf, "-out", rf, "-parallel", "12", "-timeout", "40"], timeout=7200)
    log(out.strip())
    events = {"2": [], "2x3": [], "3": [], "4": [], "4x2": []}
    stress_stats = {"runs": 0, "reads": 0, "reads_returning_data": 0, "blocks_added": 0, "pieces_verified": 0, "evictions": 0}
    scen_by_id = {}
    nres = 0
    steps_total = 0
    for line in open(rf):
        res = json.loads(line)
        sc = scen[res["index"]]
        sid = sc.get("id", res["index"])
        scen_by_id[sid] = sc
        nres += 1
        if res.get("crash") or res.get("hang"):
            st = res.get("stderr", "")
            if res.get("hang") and "piece.(*Pieces)" not in st:
                raise Internal("scenario %s: harness hang outside the piece store:\n%s" % (sid, st[-3000:]))
            kind = "hang" if res.get("hang") else crash_key(st)
            starved = any(x in st for x in ("cannot allocate memory", "out of memory")) and "piece.(*Pieces)" not in st and "storrent/alloc" not in st
            uses_limit = sc.get("far") or any((s_.get("s", {}).get("op", {}).get(s_.get("a", {}).get("t", ""), {}) or {}).get("sh") == "nomem" for s_ in sc.get("steps", []))
            if res.get("crash") and starved and uses_limit:
                # the Go runtime itself was refused memory while the scenario had the address-space limit lowered (or held
                # 4 GiB of mappings): the driver died, the store did nothing wrong
                v.warn("scenario %s gave no verdict: the Go runtime ran out of address space under the scenario's own limit (%s)" % (sid, st.strip().splitlines()[0][:120]))
                continue
            props = props_of_crash(st) if res.get("crash") else {"C03"}
            if prop in props:
                v.violation(kind, "the process %s while replaying scenario %s: %s" % (
                    "hung inside the piece store" if res.get("hang") else "crashed", sid, st.strip().splitlines()[0:3]), sc)
            else:
                v.warn("scenario %s: %s (attributed to %s)" % (sid, kind, sorted(props)))
            continue
        o = res["out"]
        if o.get("note"):
            raise Internal("scenario %s: %s %s" % (sid, o["note"], o.get("nonconf")))
        for vi in o.get("violations") or []:
            if vi["prop"] == prop:
                v.violation(vi["key"], vi["what"] + " (scenario %s step %d)" % (sid, vi["step"]), sc)
            else:
                v.warn("scenario %s: %s violation %s: %s" % (sid, vi["prop"], vi["key"], vi["what"]))
        for nc in o.get("nonconf") or []:
            v.warn("nonconformance: scenario %s %s" % (sid, nc))
        if sc.get("far"):
            if o.get("note"):
                raise Internal("far store scenario: %s" % o["note"])
            v.cov["store_beyond_4GiB"] = ("not established on this machine" if o.get("nonconf") else
                                          "260 mapped pieces of 16 MiB: Bytes() = allocator's count, eviction pass down to 1 GiB, Del releases everything")
            continue
        if "stress" in sc:
            stress_stats["runs"] += 1
            for a, b in (("reads", "reads"), ("reads_returning_data", "reads_data"), ("blocks_added", "adds"),
                         ("pieces_verified", "finalised"), ("evictions", "evictions")):
                stress_stats[a] += o.get(b, 0)
            continue
        steps_total += o.get("steps_done", 0)
        nt = str(sc.get("threads", 2)) + ("x3" if sc.get("np") == 3 else "") + ("x2" if sc.get("np") == 2 else "")
        for k, e in enumerate(o.get("events") or []):
            events[nt].append((sid, k, e))
        if "random" not in sc and "stress" not in sc and not sc.get("far"):
            v.sample({"scenario": sid, "geom": sc.get("geom"), "steps": [[s["a"]["t"], s["a"]["a"]] for s in sc["steps"]][:14]})
    if nres != len(scen):
        raise Internal("harness returned %d results for %d scenarios" % (nres, len(scen)))
    v.cov["evaluations"] = len(scen)
    v.cov["distinct_nontrivial"] = len({json.dumps(s.get("steps", s.get("random")), sort_keys=True) for s in scen})
    v.cov["rule"] = ("behaviours = edge-covering walks over TLC's exhaustive state graph (2 threads), TLC-simulated "
                     "behaviours (4 threads, 3 pieces) and seeded random gate schedules; each replayed on the real "
                     "piece.Pieces with gated goroutines, distinct = distinct action sequences")
    v.cov["impl_steps_replayed"] = steps_total
    v.cov["free_running_stress"] = stress_stats
    if not replay and stress_stats["reads_returning_data"] == 0:
        raise Internal("free-running stress never read any data (vacuous)")
    validate_traces(v, prop, events, scen_by_id)
    if prop == "C03" and not replay:
        import p_expire
        p_expire.global_expire(v, tier, seed)
    if prop == "C01" and not replay:
        import p_upload
        p_upload.payload_check(v, tier, seed)
        # "returned at the offset it occupies", for offsets beyond 2^32
        import p_http
        fc = p_http._cases("MCFuseHandle", "FuseHandle_cases.cfg", v, 40)
        for i, c in enumerate(fc):
            c["id"], c["kind"], c["route"] = i + 1, "fuseconc", "C01"
        p_http._drive(v, prop, [{"id": 0, "kind": "farread", "route": "C01"}] + fc, lambda c: c["kind"])
    return v.finish()
