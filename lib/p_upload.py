"""C16: spec/Upload.tla bound to the real peer handlers (B2)."""
import json, os, random
import vlib
from vlib import run_tlc, require_ok, Verdict, Internal, log


def run(prop, tier, seed, replay=None):
    v = Verdict(prop, tier, seed)
    v.assumptions = ["binding B2: handlers stepped synchronously, upload rate set to the maximum so that the rate limiter always allows",
                     "2 peers (with / without the fast extension), 2 pieces, request classes: aligned, unaligned inside a piece, past the piece end, beyond the torrent; floods of 255 requests",
                     "write congestion and the Run loop's exit path (release of the unchoke count on disconnect) are not exercised by this binding"]
    if replay:
        scen = [json.load(open(replay))["scenario"]]
    else:
        r = run_tlc("MCUpload", "Upload_mc.cfg", workers=16, timeout=1800)
        require_ok(r, "Upload model checking")
        v.add_tlc("Upload_mc.cfg", r)
        n = 3000 if tier == "quick" else 40000
        r = run_tlc("MCUpload", "Upload_sim.cfg", workers=1, simulate=n, depth=31, seed=seed, timeout=3000)
        require_ok(r, "Upload simulation")
        scen = [{"steps": json.loads(p)} for p in sorted(set(r.lines("BEH")))]
        os.unlink(r.outfile)
        if len(scen) < n // 2:
            raise Internal("Upload simulation: only %d behaviours" % len(scen))
        for i, sc in enumerate(scen):
            sc["id"] = i
    vh = vlib.build_harness()
    wd = vlib.scratch("upl-")
    sf, rf = os.path.join(wd, "scen.ndjson"), os.path.join(wd, "res.ndjson")
    with open(sf, "w") as f:
        for sc in scen:
            f.write(json.dumps(sc, separators=(",", ":")) + "\n")
    out, err = vlib.run_harness(vh, ["upload", "-in", sf, "-out", rf, "-parallel", "12", "-timeout", "60"], timeout=3600)
    log(out.strip())
    served = rejects = 0
    for line in open(rf):
        res = json.loads(line)
        sc = scen[res["index"]]
        if res.get("crash") or res.get("hang"):
            st = res.get("stderr", "")
            first = [x for x in st.splitlines() if x.startswith(("panic", "fatal"))][:1]
            v.violation("upload-crash", "the process crashed/hung in scenario %s: %s" % (sc["id"], first), sc)
            continue
        o = res["out"]
        if o.get("note"):
            v.warn("scenario %s: %s" % (sc["id"], o["note"]))
        for vi in o.get("violations") or []:
            v.violation(vi["key"], vi["what"] + " (scenario %s step %d)" % (sc["id"], vi["step"]), sc)
        served += o.get("pieces_served", 0)
        rejects += o.get("rejects", 0)
        if sc["id"] % 577 == 2:
            v.sample({"scenario": sc["id"], "steps": sc["steps"][:12]})
    if not replay:
        # the exit path of peer.Run (release of the unchoke count) on a real running torrent deleted with a backlog
        import p_live
        live = [{"kind": "lifecycle", "id": len(scen) + k, "steps": [{"op": "Backlog", "stop": "behind"}]} for k in range(3 if tier == "quick" else 30)]
        p_live.harness(v, prop, live, parallel=3, timeout=90)
        scen = scen + live
    if not replay or scen[0].get("kind") == "congestion":
        ncg = congestion(v, tier, seed, scen if replay else None)
        scen = scen + [{"steps": []}] * 0
    v.cov["traces_validated_against_impl"] = len(scen)
    v.cov["evaluations"] = len(scen)
    v.cov["distinct_nontrivial"] = len({json.dumps(s["steps"], sort_keys=True) for s in scen})
    v.cov["rule"] = "TLC-simulated behaviours of Upload.tla (30 steps) applied to the real handlers; every message written is checked against the remote's own history"
    v.cov["pieces_served"] = served
    v.cov["rejects_seen"] = rejects
    if not replay and (served < 100 or rejects < 100):
        raise Internal("too few pieces served (%d) or rejects (%d): vacuous" % (served, rejects))
    return v.finish()


# C01's clause "no unverified or wrong byte ever leaves through the upload path": the same binding,
# keeping only the observations about the payload.
C01_KEYS = ("piece-wrong-payload", "piece-unverified")


def payload_check(v, tier, seed, scen=None):
    if scen is None:
        n = 700 if tier == "quick" else 8000
        r = run_tlc("MCUpload", "Upload_sim.cfg", workers=1, simulate=n, depth=31, seed=seed + 101, timeout=3000)
        require_ok(r, "Upload simulation (payload check)")
        scen = [{"steps": json.loads(p), "binding": "upload"} for p in sorted(set(r.lines("BEH")))]
        os.unlink(r.outfile)
        if len(scen) < n // 2:
            raise Internal("Upload simulation: only %d behaviours" % len(scen))
        for i, sc in enumerate(scen):
            sc["id"] = i
    vh = vlib.build_harness()
    wd = vlib.scratch("upl1-")
    sf, rf = os.path.join(wd, "scen.ndjson"), os.path.join(wd, "res.ndjson")
    with open(sf, "w") as f:
        for sc in scen:
            f.write(json.dumps(sc, separators=(",", ":")) + "\n")
    out, err = vlib.run_harness(vh, ["upload", "-in", sf, "-out", rf, "-parallel", "12", "-timeout", "60"], timeout=3600)
    log(out.strip())
    served = 0
    for line in open(rf):
        res = json.loads(line)
        sc = scen[res["index"]]
        if res.get("crash") or res.get("hang"):
            continue    # C16's business
        o = res["out"]
        for vi in o.get("violations") or []:
            if vi["key"] in C01_KEYS:
                v.violation("upload:" + vi["key"], vi["what"] + " (upload scenario %s step %d)" % (sc["id"], vi["step"]), sc)
        served += o.get("pieces_served", 0)
    v.cov["upload_path"] = {"behaviours": len(scen), "pieces_served": served,
                            "rule": "Upload.tla behaviours on the real upload handlers; every Piece payload compared with the verified content of the requested range"}
    if len(scen) > 100 and served < 50:
        raise Internal("upload payload check: only %d pieces served (vacuous)" % served)
    return len(scen)


def congestion(v, tier, seed, scen=None):
    """Congestion.tla: a remote that stops reading; bound to the real handlers with a writer channel of WCap slots."""
    if scen is None:
        r = run_tlc("Congestion", "Congestion_mc.cfg", workers=8, timeout=1800)
        require_ok(r, "Congestion model checking")
        v.add_tlc("Congestion_mc.cfg", r)
        r = run_tlc("Congestion", "Congestion_shipped.cfg", workers=4, timeout=600)
        if r.violation not in ("ChokedHasNoQueue", "NoStaleService"):
            raise Internal("Congestion_shipped.cfg: the shipped deviation is not refuted (%s / %s)" % (r.violation, r.error))
        os.unlink(r.outfile)
        r = run_tlc("MCCongestion", "Congestion_edges.cfg", workers=1, timeout=900)
        require_ok(r, "Congestion edge dump")
        g = vlib.Graph.from_result(r, lambda st: not st["interested"] and not st["unchoking"] and not st["stalled"] and st["backlog"] == 0
                                   and not st["dead"] and st["queue"] == [])
        os.unlink(r.outfile)
        rng = random.Random(seed)
        walks, unc = g.covering_walks(rng, maxlen=40)
        if unc or not g.inits:
            raise Internal("congestion edge dump: %d edges unreachable" % unc)
        if tier != "quick":
            walks += g.random_walks(rng, 3000, maxlen=40)
        v.cov["congestion_graph"] = {"states": len(g.states), "edges": g.nedges, "walks": len(walks)}
        scen = []
        for i, w in enumerate(walks):
            sc = g.scenario(w, "")
            sc["kind"], sc["id"] = "congestion", i
            scen.append(sc)
        # the walks of the specification with the shipped deviation, as input sequences only: they steer towards the
        # requests that a congested choke leaves behind
        r = run_tlc("MCCongestion", "Congestion_edges_shipped.cfg", workers=1, timeout=900)
        if r.error:
            raise Internal("Congestion edge dump (shipped): %s" % r.error)
        g2 = vlib.Graph.from_result(r, lambda st: not st["interested"] and not st["unchoking"] and not st["stalled"] and st["backlog"] == 0
                                    and not st["dead"] and st["queue"] == [])
        os.unlink(r.outfile)
        walks2, _ = g2.covering_walks(rng, maxlen=40)
        for w in walks2:
            sc = g2.scenario(w, "")
            sc["kind"], sc["id"], sc["stimuli"] = "congestion", len(scen), True
            scen.append(sc)
        if len(scen) < 100:
            raise Internal("Congestion: only %d walks" % len(scen))
    vh = vlib.build_harness()
    wd = vlib.scratch("cong-")
    sf, rf = os.path.join(wd, "scen.ndjson"), os.path.join(wd, "res.ndjson")
    with open(sf, "w") as f:
        for sc in scen:
            f.write(json.dumps(sc, separators=(",", ":")) + "\n")
    out, err = vlib.run_harness(vh, ["upload", "-in", sf, "-out", rf, "-parallel", "14", "-timeout", "120"], timeout=7200)
    log(out.strip())
    served = 0
    for line in open(rf):
        res = json.loads(line)
        sc = scen[res["index"]]
        if res.get("crash") or res.get("hang"):
            st = res.get("stderr", "")
            first = [x for x in st.splitlines() if x.startswith(("panic", "fatal"))][:1]
            v.violation("upload-crash", "the process crashed/hung in congestion scenario %s: %s" % (sc["id"], first), sc)
            continue
        o = res["out"]
        if o.get("note"):
            raise Internal("congestion scenario %s: %s" % (sc["id"], o["note"]))
        for vi in o.get("violations") or []:
            v.violation(vi["key"], vi["what"] + " (congestion scenario %s)" % sc["id"], sc)
        for nc in o.get("nonconf") or []:
            v.warn("nonconformance: congestion scenario %s: %s" % (sc["id"], nc))
        served += o.get("pieces_served", 0)
    v.cov["congestion"] = {"behaviours": len(scen), "pieces_served": served,
                           "rule": "walks covering every edge of the TLC state graph of Congestion.tla, on the real handlers with a 4-slot writer channel the harness stops reading"}
    if len(scen) > 50 and served < 20:
        raise Internal("congestion: only %d pieces served (vacuous)" % served)
    return len(scen)
