"""C10 (Requests.tla), C17 (Lifecycle.tla), C02 (Reader.tla): bound to a real running torrent (harness binding "live")."""
import json, os, random
import vlib
from vlib import run_tlc, require_ok, Verdict, Internal, log

OPS = ["GetStats", "GetAvailable", "DropPeer", "GetPeer", "GetPeers", "GetKnown", "GetKnowns", "GetConf", "SetConf",
       "RequestWant", "RequestNoWant", "Have", "BadPeer", "AddKnown", "Announce", "Kill", "KillCancelled"]
READER_RANGES = [(0, 130172), (40000, 20000), (30000, 70001), (120000, 10172), (32768, 32768)]


def harness(v, prop, scen, parallel=10, timeout=120):
    vh = vlib.build_harness()
    wd = vlib.scratch("live-")
    sf, rf = os.path.join(wd, "scen.ndjson"), os.path.join(wd, "res.ndjson")
    with open(sf, "w") as f:
        for sc in scen:
            f.write(json.dumps(sc, separators=(",", ":")) + "\n")
    out, err = vlib.run_harness(vh, ["live", "-in", sf, "-out", rf, "-parallel", str(parallel), "-timeout", str(timeout)], timeout=7200)
    log(out.strip())
    applied = 0
    stats = {}
    for line in open(rf):
        res = json.loads(line)
        sc = scen[res["index"]]
        if res.get("crash") or res.get("hang"):
            st = res.get("stderr", "")
            first = [x for x in st.splitlines() if x.startswith(("panic", "fatal"))][:1]
            key = "crash"
            if "close of closed channel" in st:
                key = "double-close"
            v.violation(key, "the process %s in scenario %s: %s" % ("hung" if res.get("hang") else "crashed", sc["id"], first or st[-300:]), sc)
            continue
        o = res["out"]
        for vi in o.get("violations") or []:
            if vi["prop"] == prop:
                v.violation(vi["key"], vi["what"] + " (scenario %s step %d)" % (sc["id"], vi["step"]), sc)
            else:
                v.warn("scenario %s: %s %s: %s" % (sc["id"], vi["prop"], vi["key"], vi["what"]))
        if o.get("note") and not o.get("violations"):
            raise Internal("scenario %s: %s" % (sc["id"], o["note"][:800]))
        applied += o.get("applied", 0)
        for k, n in (o.get("stats") or {}).items():
            stats[k] = stats.get(k, 0) + n
        if sc["id"] % 389 == 1:
            v.sample({"kind": sc["kind"], "steps": sc["steps"][:10]})
    return applied, stats


def run_c10(prop, tier, seed, replay=None):
    v = Verdict(prop, tier, seed)
    v.assumptions = ["the event loop is stepped with the double loop gate; the window between Torrent.Request's look at the store and its queueing is "
                     "controlled with the Request.checked yield hook", "3 pieces, 3 consumers, priorities -1/0/1 and the idle priority (waiters without a priority, pruned by configuration changes); idle prefetch (pickIdlePieces) is not driven"]
    if replay:
        scen = [json.load(open(replay))["scenario"]]
    else:
        r = run_tlc("MCRequests", "Requests_mc.cfg", workers=16, timeout=3000)
        require_ok(r, "Requests model checking")
        v.add_tlc("Requests_mc.cfg", r)
        n = 400 if tier == "quick" else 8000
        r = run_tlc("MCRequests", "Requests_sim.cfg", workers=1, simulate=n, depth=90, seed=seed, timeout=3000)
        require_ok(r, "Requests simulation")
        scen = [{"kind": "requests", "steps": json.loads(p)} for p in sorted(set(r.lines("BEH")))]
        os.unlink(r.outfile)
        # a smaller geometry in which idle-priority waiters, pruning and verification meet often
        r = run_tlc("MCRequests", "Requests_sim_idle.cfg", workers=1, simulate=n, depth=70, seed=seed + 1, timeout=3000)
        require_ok(r, "Requests simulation (idle)")
        scen += [{"kind": "requests", "steps": json.loads(p)} for p in sorted(set(r.lines("BEH")))]
        os.unlink(r.outfile)
        r = run_tlc("MCRequests", "Requests_prune.cfg", workers=8, timeout=3000)
        if r.violation != "NoLostWakeup":
            raise Internal("Requests_prune.cfg: the deviation is not refuted (%s / %s)" % (r.violation, r.error))
        os.unlink(r.outfile)
        if len(scen) < n // 2:
            raise Internal("Requests simulation: only %d behaviours" % len(scen))
        for i, sc in enumerate(scen):
            sc["id"] = i
    if not replay:
        # real Readers as consumers: their add/withdraw sequences, and what is left when they close
        # two Readers on the same piece, with an eviction in between: a withdrawal must be of what was registered
        scen += [{"kind": "tworeaders", "steps": [], "id": len(scen) + k} for k in range(3 if tier == "quick" else 40)]
        scen += [{"kind": "twoblocked", "steps": [], "id": len(scen) + k} for k in range(4 if tier == "quick" else 40)]
        # the torrent's own finalisation path (TorData -> finalisePiece -> Have), last block reported more than once, corrupt then good data
        scen += [{"kind": "finalise", "steps": [], "id": len(scen) + k} for k in range(6 if tier == "quick" else 60)]
        for k, (off, ln) in enumerate(READER_RANGES):
            r = run_tlc("MCReader", "Reader_sim%d.cfg" % (k + 1), workers=1, simulate=8 if tier == "quick" else 100, depth=17, seed=seed + k, timeout=1800)
            require_ok(r, "Reader simulation %d" % k)
            for p in sorted(set(r.lines("BEH"))):
                steps = json.loads(p)
                steps[0]["s"] = steps[0].pop("complete")
                scen.append({"kind": "reader", "offset": off, "length": ln, "steps": steps, "id": len(scen)})
            os.unlink(r.outfile)
    applied, stats = harness(v, prop, scen)
    v.cov["traces_validated_against_impl"] = len(scen)
    v.cov["evaluations"] = len(scen)
    v.cov["distinct_nontrivial"] = len({json.dumps(s["steps"], sort_keys=True) for s in scen})
    v.cov["rule"] = "TLC-simulated behaviours of Requests.tla (14 operations + loop steps) executed on a running torrent with real Torrent.Request calls"
    v.cov["impl_steps_applied"] = applied
    return v.finish()


def run_c17(prop, tier, seed, replay=None):
    v = Verdict(prop, tier, seed)
    v.assumptions = ["stop points realised with the loop gate: deletion completed before the call / GoAway queued ahead of the call's command / behind it; "
                     "'while being answered' cannot be separated from 'ahead' without a hook",
                     "2 peers over net.Pipe, one verified piece, one reader blocked on a missing piece; goroutine count compared with the count before AddTorrent"]
    if replay:
        scen = [json.load(open(replay))["scenario"]]
    else:
        shapes = ["send", "await", "want"]
        for s1 in shapes:
            for s2 in shapes + ["kill"]:
                r = run_tlc("MCLifecycle", "Lifecycle_%s_%s.cfg" % (s1, s2), workers=4, timeout=600)
                require_ok(r, "Lifecycle %s/%s" % (s1, s2))
                v.add_tlc("Lifecycle_%s_%s.cfg" % (s1, s2), r)
        # HelpersEnd is not vacuous: a fetch that does not watch the loop's context outlives the torrent
        r = run_tlc("MCLifecycle", "Lifecycle_fetch_dev.cfg", workers=2, timeout=600)
        if r.violation != "temporal":
            raise Internal("Lifecycle_fetch_dev.cfg: the deviation is not refuted (%s / %s)" % (r.violation, r.error))
        os.unlink(r.outfile)
        reps = 1 if tier == "quick" else 12
        scen = [{"kind": "lifecycle", "steps": [{"op": op, "stop": stop}]} for _ in range(reps) for op in OPS for stop in ("dead", "behind", "ahead")]
        scen += [{"kind": "lifecycle", "steps": [{"op": "Backlog", "stop": "behind"}]} for _ in range(2 * reps)]
        scen += [{"kind": "lifecycle", "steps": [{"op": "PeerFaults", "stop": "ahead"}]} for _ in range(3 * reps)]
        scen += [{"kind": "lifecycle", "steps": [{"op": "Backlog", "stop": "leaving"}]} for _ in range(2 * reps)]
        # the "dead" stop point realised as a torrent that AddTorrent refused (its hash is already listed)
        scen += [{"kind": "refused", "steps": []} for _ in range(reps)]
        # Lifecycle!KillIsComplete: deletion while a piece is being hashed
        scen += [{"kind": "killhash", "steps": []} for _ in range(2 * reps)]
        for i, sc in enumerate(scen):
            sc["id"] = i
    if replay and scen[0].get("binding") == "webseed":
        import p_webseed
        p_webseed.kill_probe(v, prop, tier, seed, scen)
        return v.finish()
    applied, stats = harness(v, prop, scen, parallel=6, timeout=90)
    if not replay:
        # the torrent's other helpers: an outstanding web-seed fetch ends with the torrent
        import p_webseed
        p_webseed.kill_probe(v, prop, tier, seed)
    v.cov["traces_validated_against_impl"] = len(scen)
    v.cov["evaluations"] = len(scen)
    v.cov["distinct_nontrivial"] = len({json.dumps(s["steps"], sort_keys=True) for s in scen})
    v.cov["rule"] = "every exported blocking operation x {deleted before, deletion queued ahead, deletion queued behind} on a real running torrent with peers and a blocked reader"
    v.cov["exhaustive"] = True
    return v.finish()


def run_c02(prop, tier, seed, replay=None):
    v = Verdict(prop, tier, seed)
    v.assumptions = ["the honest seed is the harness: at quiescent points of the loop it supplies exactly the requested pieces that are missing",
                     "4 pieces of 32 KiB, torrent of 130172 bytes; 5 (offset, length) ranges; buffer sizes 1..70000; seeks incl. negative and beyond the end",
                     "HTTP Range / FUSE front-ends are exercised in C20's check, not here"]
    if replay:
        scen = [json.load(open(replay))["scenario"]]
    else:
        r = run_tlc("MCReader", "Reader_mc.cfg", workers=16, timeout=1800)
        require_ok(r, "Reader model checking")
        v.add_tlc("Reader_mc.cfg", r)
        n = 60 if tier == "quick" else 400
        scen = []
        for k, (off, ln) in enumerate(READER_RANGES):
            r = run_tlc("MCReader", "Reader_sim%d.cfg" % (k + 1), workers=1, simulate=n, depth=17, seed=seed + k, timeout=1800)
            require_ok(r, "Reader simulation %d" % k)
            for p in sorted(set(r.lines("BEH"))):
                steps = json.loads(p)
                steps[0]["s"] = steps[0].pop("complete")
                scen.append({"kind": "reader", "offset": off, "length": ln, "steps": steps})
            os.unlink(r.outfile)
        if len(scen) < 100:
            raise Internal("Reader simulation: only %d behaviours" % len(scen))
        # several Readers blocked on one missing piece at the same time (the consumers of Requests.tla are real Readers)
        scen += [{"kind": "twoblocked", "offset": 0, "length": 0, "steps": []} for _ in range(4 if tier == "quick" else 40)]
        for i, sc in enumerate(scen):
            sc["id"] = i
    if replay and scen[0].get("kind") in ("fuseconc", "farread"):
        import p_http
        p_http._drive(v, prop, scen, lambda c: c["kind"])
        return v.finish()
    applied, stats = harness(v, prop, scen, parallel=10, timeout=180)
    nfc = 0
    if not replay:
        # the FUSE front-end: several reads in flight on one handle share one Reader (FuseHandle.tla)
        import p_http
        r = run_tlc("FuseHandle", "FuseHandle_mc.cfg", workers=4, timeout=600)
        require_ok(r, "FuseHandle model checking")
        v.add_tlc("FuseHandle_mc.cfg", r)
        r = run_tlc("FuseHandle", "FuseHandle_shipped.cfg", workers=2, timeout=600)
        if r.violation not in ("Prefix", "Exact"):
            raise Internal("FuseHandle_shipped.cfg: the deviation is not refuted (%s / %s)" % (r.violation, r.error))
        os.unlink(r.outfile)
        fc = p_http._cases("MCFuseHandle", "FuseHandle_cases.cfg", v, 40)
        for i, c in enumerate(fc):
            c["id"], c["kind"] = i, "fuseconc"
        # a torrent longer than 4 GiB: ranges across and beyond 2^32 through the store, a Reader, HTTP Range and FUSE
        fc.append({"id": len(fc), "kind": "farread", "route": prop})
        nfc = p_http._drive(v, prop, fc, lambda c: c["kind"])
        v.cov["fuse_handle"] = {"cases": nfc, "rule": "every (read A, read B, late piece) case of FuseHandle.tla on a real FUSE handle of a running torrent"}
    v.cov["traces_validated_against_impl"] = len(scen) + nfc
    v.cov["evaluations"] = len(scen) + nfc
    v.cov["distinct_nontrivial"] = len({json.dumps([s["offset"], s["steps"]], sort_keys=True) for s in scen})
    v.cov["rule"] = "TLC-simulated seek/read/evict/cancel/kill behaviours of Reader.tla executed on a real tor.Reader; every returned byte compared with the ground truth"
    v.cov["reader_stats"] = stats
    if not replay and stats.get("reads", 0) < 200:
        raise Internal("too few reads (%s): vacuous" % stats)
    return v.finish()
