"""C03, global eviction: spec/Expire.tla bound to the real tor.Expire (harness/gexpire)."""
import json, os, random
import vlib
from vlib import run_tlc, require_ok, Internal, log

LOW, HIGH = 14, 16


def global_expire(v, tier, seed, scen=None):
    if scen is None:
        cfg = "Expire_mcq.cfg" if tier == "quick" else "Expire_mc.cfg"
        r = run_tlc("Expire", cfg, workers=8, timeout=3000)
        require_ok(r, "Expire model checking")
        v.add_tlc(cfg, r)
        # the code as shipped: TLC must regenerate the crash
        r = run_tlc("Expire", "Expire_shipped.cfg", workers=2, timeout=600)
        if r.violation != "NoCrash":
            raise Internal("Expire_shipped.cfg: expected the NoCrash counterexample, got %s / %s" % (r.violation, r.error))
        os.unlink(r.outfile)
        r = run_tlc("MCExpire", "Expire_crash.cfg", workers=4, timeout=900)
        require_ok(r, "Expire crash schedules")
        crash = [json.loads(p) for p in sorted(set(r.lines("BEH")))]
        os.unlink(r.outfile)
        if len(crash) < 1000:
            raise Internal("Expire: only %d crash schedules" % len(crash))
        rng = random.Random(seed)
        rng.shuffle(crash)
        crash = crash[:250 if tier == "quick" else 2000]
        n = 150 if tier == "quick" else 1500
        r = run_tlc("MCExpire", "Expire_sim.cfg", workers=1, simulate=n, depth=14, seed=seed, timeout=1800)
        require_ok(r, "Expire simulation")
        sim = [json.loads(p) for p in sorted(set(r.lines("BEH")))]
        os.unlink(r.outfile)
        # three torrents (two within their share, one above it)
        r = run_tlc("Expire", "Expire_mc3.cfg", workers=8, timeout=1800)
        require_ok(r, "Expire model checking, three torrents")
        v.add_tlc("Expire_mc3.cfg", r)
        r = run_tlc("MCExpire", "Expire_sim3.cfg", workers=1, simulate=n // 2, depth=14, seed=seed + 3, timeout=1800)
        require_ok(r, "Expire simulation, three torrents")
        sim += [json.loads(p) for p in sorted(set(r.lines("BEH")))]
        os.unlink(r.outfile)
        scen = [{"binding": "gexpire", "low": LOW, "high": HIGH, "steps": s} for s in crash + sim]
        for i, sc in enumerate(scen):
            sc["id"] = i
    vh = vlib.build_harness()
    wd = vlib.scratch("gexp-")
    sf, rf = os.path.join(wd, "scen.ndjson"), os.path.join(wd, "res.ndjson")
    with open(sf, "w") as f:
        for sc in scen:
            f.write(json.dumps(sc, separators=(",", ":")) + "\n")
    out, err = vlib.run_harness(vh, ["gexpire", "-in", sf, "-out", rf, "-parallel", "12", "-timeout", "120"], timeout=7200)
    log(out.strip())
    passes = evictions = 0
    for line in open(rf):
        res = json.loads(line)
        sc = scen[res["index"]]
        if res.get("crash") or res.get("hang"):
            st = res.get("stderr", "")
            first = [x for x in st.splitlines() if x.startswith(("panic", "fatal"))][:1]
            if res.get("hang"):
                raise Internal("global-expire scenario %s hung: %s" % (sc["id"], st[-400:]))
            v.violation("global-expire-crash", "the process crashed in global-eviction scenario %s: %s" % (sc["id"], first), sc)
            continue
        o = res["out"]
        if o.get("note"):
            raise Internal("global-expire scenario %s: %s" % (sc["id"], o["note"]))
        for vi in o.get("violations") or []:
            v.violation(vi["key"], vi["what"] + " (global-eviction scenario %s)" % sc["id"], sc)
        for nc in o.get("nonconf") or []:
            v.warn("nonconformance: global eviction: " + nc)
        passes += o.get("passes", 0)
        evictions += o.get("evictions", 0)
    v.cov["global_eviction"] = {"behaviours": len(scen), "passes": passes, "eviction_rounds": evictions,
                                "rule": "every schedule of <= 8 steps on which Expire.tla with the shipped deviation crashes (sampled in the quick tier) + simulated behaviours, "
                                        "replayed on tor.Expire with the pass and its evictions gated at yield points"}
    if len(scen) > 50 and (passes < 50 or evictions < 20):
        raise Internal("global eviction: too few passes (%d) / eviction rounds (%d)" % (passes, evictions))
    return len(scen)
