"""C13: spec/Geometry.tla (decision function over abstract metainfo records, B4) on tor.ReadTorrent/WriteTorrent."""
import json, os, re
import vlib
from vlib import run_tlc, require_ok, Verdict, Internal, log
from p_wire import tlc_violations


def run(prop, tier, seed, replay=None):
    v = Verdict(prop, tier, seed)
    v.assumptions = ["'all byte strings' is covered through the record classes of MCGeometry.tla (piece lengths, lengths incl. 2^62 and 2^63-1, "
                     "file lists, piece-table sizes, names, key order, extra keys, tracker / web-seed shapes); magnet links through the 326 abstract links of MCMagnet.tla "
                     "(forms, xt sequences, tr / ws / as / dn parameters)",
                     "bencoding of the records is done by the harness's own encoder"]
    if replay:
        cases = [json.load(open(replay))["scenario"]]
    else:
        r = run_tlc("MCGeometry", "Geometry_mc.cfg", workers=1, timeout=600)
        require_ok(r, "Geometry model checking")
        v.add_tlc("Geometry_mc.cfg", r)
        cases = [json.loads(p) for p in sorted(set(r.lines("CASE")))]
        os.unlink(r.outfile)
        if len(cases) < 1000:
            raise Internal("Geometry: only %d cases" % len(cases))
        for i, c in enumerate(cases):
            c["id"] = i
    magnets = []
    if not replay:
        r = run_tlc("MCMagnet", "Magnet_mc.cfg", workers=1, timeout=600)
        require_ok(r, "Magnet model checking")
        v.add_tlc("Magnet_mc.cfg", r)
        magnets = [json.loads(p) for p in sorted(set(r.lines("CASE")))]
        os.unlink(r.outfile)
        if len(magnets) < 300:
            raise Internal("Magnet: only %d cases" % len(magnets))
        for i, c in enumerate(magnets):
            c["id"], c["kind"] = len(cases) + i, "magnet"
        cases = cases + magnets
    vh = vlib.build_harness()
    wd = vlib.scratch("geo-")
    sf, rf = os.path.join(wd, "cases.ndjson"), os.path.join(wd, "res.ndjson")
    with open(sf, "w") as f:
        for c in cases:
            f.write(json.dumps(c, separators=(",", ":")) + "\n")
    out, err = vlib.run_harness(vh, ["geometry", "-in", sf, "-out", rf, "-parallel", "8", "-timeout", "60"], timeout=1800)
    log(out.strip())
    verdicts = {}
    obs = []
    for line in open(rf):
        res = json.loads(line)
        c = cases[res["index"]]
        if res.get("crash") or res.get("hang"):
            st = res.get("stderr", "")
            first = [x for x in st.splitlines() if x.startswith(("panic", "fatal", "runtime"))][:1]
            v.violation("read-crash", "the process crashed reading record %s: %s" % (json.dumps(c["c"]), first), c)
            continue
        o = res["out"]
        if o.get("note"):
            raise Internal("case %s: %s" % (c["id"], o["note"]))
        for vi in o.get("violations") or []:
            v.violation(vi["key"], vi["what"], c)
        for nc in o.get("nonconf") or []:
            v.warn("nonconformance: " + nc)
        if c.get("kind") == "magnet":
            verdicts["magnet:%s->%s" % (c["exp"]["verdict"], o["verdict"])] = verdicts.get("magnet:%s->%s" % (c["exp"]["verdict"], o["verdict"]), 0) + 1
            continue
        k = (c["exp"]["verdict"], o["verdict"])
        verdicts["%s->%s" % k] = verdicts.get("%s->%s" % k, 0) + 1
        if o["verdict"] == "accept":
            g = o["geom"]
            flat = [g["length"], g["npieces"], g["slots"], g["nhashes"]] + g["offsets"] + g["lengths"]
            if all(abs(x) < 2**31 - 1 for x in flat):
                obs.append((c, g))
            else:
                v.violation("accepted-oversize", "a torrent with sizes beyond 2^31 was accepted: %s" % json.dumps(g), c)
        if c["id"] % 331 == 5:
            v.sample({"record": c["c"], "specification": c["exp"]["verdict"], "observed": o["verdict"], "geometry": o.get("geom")})
    # monitor pass
    twd = vlib.scratch("geot-")
    tf = os.path.join(twd, "obs.ndjson")
    with open(tf, "w") as f:
        for _, g in obs:
            f.write(json.dumps(g, separators=(",", ":")) + "\n")
    r = run_tlc("GeometryTrace", "GeometryTrace.cfg", workdir=twd, workers=1, env={"TRACE": tf}, timeout=900, continue_on_violation=True)
    if r.error and not r.violation:
        raise Internal("GeometryTrace failed: %s\n%s" % (r.error, r.tail))
    for inv, l in tlc_violations(r.outfile):
        c, g = obs[l - 1]
        v.violation("inconsistent-geometry:" + {"Table": "piece-table", "Layout": "negative-file-length", "PieceLength": "piece-length"}.get(inv, inv),
                    "invariant %s of GeometryTrace.tla is false on the geometry of an accepted torrent: %s" % (inv, json.dumps(g)), c)
    v.cov["states"] += r.distinct
    v.cov["transitions"] += r.generated
    v.cov["traces_validated_against_impl"] = len(cases)
    v.cov["evaluations"] = len(cases)
    v.cov["distinct_nontrivial"] = len({json.dumps(c["c"], sort_keys=True) for c in cases})
    v.cov["rule"] = "one case per abstract metainfo record of MCGeometry.tla (accepted torrents are re-serialised and read again) and per abstract magnet link of MCMagnet.tla"
    v.cov["specification_vs_observed_verdicts"] = verdicts
    v.cov["exhaustive"] = True
    return v.finish()
