------------------------------- MODULE Upload -------------------------------
(***************************************************************************)
(* Upload and choking discipline of one torrent's peers (peer/peer.go:     *)
(* Request/Cancel/Interested handling, unchoke, scheduleUpload).  C16:     *)
(* piece data goes only to a peer we are unchoking, only in answer to a    *)
(* pending request of that peer (received since the last choke, not        *)
(* cancelled, not answered yet), with the verified content of the range;   *)
(* the unchoke counter equals the number of peers actually unchoked; the   *)
(* per-peer queue is bounded.                                              *)
(*                                                                         *)
(* A request is a class name; Servable(rq) says whether its range lies     *)
(* inside one piece (then it can be served when that piece is verified).   *)
(***************************************************************************)
EXTENDS Integers, Sequences, FiniteSets, TLC

CONSTANTS Peers, Reqs, PieceOfReq, Servable, Pieces, MaxSteps, QMax

\* request classes whose length exceeds what the client is willing to serve in one reply (128 KiB): the reply buffer is
\* allocated from the length field, so such a request must be refused on arrival (rejected with the fast extension, dropped without)
TooLong == Reqs \cap {"rh"}

VARIABLES interested, unchoking, queue, canFast, verified, num, sentPieces, wire, steps, last

vars == <<interested, unchoking, queue, canFast, verified, num, sentPieces, wire, steps, last>>

Init ==
  /\ interested = [p \in Peers |-> FALSE] /\ unchoking = [p \in Peers |-> FALSE]
  /\ queue = [p \in Peers |-> <<>>] /\ canFast \in [Peers -> BOOLEAN]
  /\ verified \in SUBSET Pieces /\ num = 0
  /\ sentPieces = [p \in Peers |-> <<>>] /\ wire = <<>> /\ steps = 0 /\ last = [a |-> "Init"]

Step(l) == steps < MaxSteps /\ steps' = steps + 1 /\ last' = l
Emit(p, ms) == wire' = wire \o [k \in 1..Len(ms) |-> [p |-> p, m |-> ms[k]]]
Rejects(p, rs) == IF canFast[p] THEN [k \in 1..Len(rs) |-> [k |-> "Reject", r |-> rs[k]]] ELSE <<>>

Interested(p) ==
  /\ Step([a |-> "Interested", p |-> p])
  /\ interested' = [interested EXCEPT ![p] = TRUE]
  /\ UNCHANGED <<unchoking, queue, canFast, verified, num, sentPieces, wire>>

\* NotInterested: we choke the peer at once; its queued requests are rejected
Choke(p) ==
  IF unchoking[p]
    THEN /\ unchoking' = [unchoking EXCEPT ![p] = FALSE] /\ num' = num - 1
         /\ queue' = [queue EXCEPT ![p] = <<>>]
         /\ Emit(p, <<[k |-> "Choke"]>> \o Rejects(p, queue[p]))
    ELSE UNCHANGED <<unchoking, num, queue, wire>>

NotInterested(p) ==
  /\ Step([a |-> "NotInterested", p |-> p])
  /\ interested' = [interested EXCEPT ![p] = FALSE]
  /\ Choke(p)
  /\ UNCHANGED <<canFast, verified, sentPieces>>

\* the torrent's choking decision
TorUnchoke(p, u) ==
  /\ Step([a |-> "TorUnchoke", p |-> p, u |-> u])
  /\ IF u /\ interested[p] THEN
        IF unchoking[p] THEN UNCHANGED <<unchoking, num, queue, wire>>
        ELSE /\ unchoking' = [unchoking EXCEPT ![p] = TRUE] /\ num' = num + 1
             /\ Emit(p, <<[k |-> "Unchoke"]>>) /\ UNCHANGED queue
     ELSE Choke(p)      \* an uninterested peer is not unchoked (and choked if it was)
  /\ UNCHANGED <<interested, canFast, verified, sentPieces>>

Request(p, rq) ==
  /\ Step([a |-> "Request", p |-> p, r |-> rq])
  /\ IF ~unchoking[p] \/ rq \in TooLong THEN Emit(p, Rejects(p, <<rq>>)) /\ UNCHANGED queue   \* over-long requests are never queued
     ELSE IF Len(queue[p]) >= QMax THEN      \* head drop
        /\ queue' = [queue EXCEPT ![p] = Append(Tail(@), rq)]
        /\ Emit(p, Rejects(p, <<Head(queue[p])>>))
     ELSE queue' = [queue EXCEPT ![p] = Append(@, rq)] /\ UNCHANGED wire
  /\ UNCHANGED <<interested, unchoking, canFast, verified, num, sentPieces>>

\* a flood: QMax + 5 requests for the same block in a row (head drops keep the queue bounded)
Flood(p) ==
  /\ Step([a |-> "Flood", p |-> p])
  /\ IF ~unchoking[p] THEN Emit(p, Rejects(p, [k \in 1..(QMax + 5) |-> "r0"])) /\ UNCHANGED queue
     ELSE LET all == queue[p] \o [k \in 1..(QMax + 5) |-> "r0"] IN
          /\ queue' = [queue EXCEPT ![p] = SubSeq(all, Len(all) - QMax + 1, Len(all))]
          /\ Emit(p, Rejects(p, SubSeq(all, 1, Len(all) - QMax)))
  /\ UNCHANGED <<interested, unchoking, canFast, verified, num, sentPieces>>

RemoveFirst(s, x) == LET idx == CHOOSE k \in 1..Len(s) : s[k] = x /\ \A j \in 1..(k - 1) : s[j] # x
                     IN SubSeq(s, 1, idx - 1) \o SubSeq(s, idx + 1, Len(s))

Cancel(p, rq) ==
  /\ Step([a |-> "Cancel", p |-> p, r |-> rq])
  /\ IF \E k \in 1..Len(queue[p]) : queue[p][k] = rq
       THEN queue' = [queue EXCEPT ![p] = RemoveFirst(@, rq)] /\ Emit(p, Rejects(p, <<rq>>))
       ELSE UNCHANGED <<queue, wire>>
  /\ UNCHANGED <<interested, unchoking, canFast, verified, num, sentPieces>>

\* the upload ticker: the head request is served from verified data, else rejected
UploadTick(p) ==
  /\ Step([a |-> "UploadTick", p |-> p])
  /\ IF unchoking[p] /\ queue[p] # <<>> THEN
        LET rq == Head(queue[p]) IN
        /\ queue' = [queue EXCEPT ![p] = Tail(@)]
        /\ IF Servable[rq] /\ PieceOfReq[rq] \in verified
             THEN /\ Emit(p, <<[k |-> "Piece", r |-> rq]>>)
                  /\ sentPieces' = [sentPieces EXCEPT ![p] = Append(@, rq)]
             ELSE /\ Emit(p, Rejects(p, <<rq>>)) /\ UNCHANGED sentPieces
     ELSE UNCHANGED <<queue, wire, sentPieces>>
  /\ UNCHANGED <<interested, unchoking, canFast, verified, num>>

Evict(i) ==
  /\ i \in verified /\ Step([a |-> "Evict", i |-> i])
  /\ verified' = verified \ {i}
  /\ UNCHANGED <<interested, unchoking, queue, canFast, num, sentPieces, wire>>

Verify(i) ==
  /\ i \notin verified /\ Step([a |-> "Verify", i |-> i])
  /\ verified' = verified \cup {i}
  /\ UNCHANGED <<interested, unchoking, queue, canFast, num, sentPieces, wire>>

Next == \/ \E p \in Peers : Interested(p) \/ NotInterested(p) \/ UploadTick(p) \/ Flood(p)
                           \/ (\E u \in BOOLEAN : TorUnchoke(p, u))
                           \/ (\E rq \in Reqs : Request(p, rq) \/ Cancel(p, rq))
        \/ \E i \in Pieces : Evict(i) \/ Verify(i)
Spec == Init /\ [][Next]_vars

-----------------------------------------------------------------------------
CounterMatches == num = Cardinality({p \in Peers : unchoking[p]})
QueueBounded   == \A p \in Peers : Len(queue[p]) <= QMax
ChokedHasNoQueue == \A p \in Peers : ~unchoking[p] => queue[p] = <<>>
\* a Piece is only ever emitted for the head of the queue of an unchoked peer
PieceDiscipline ==
  [][\A k \in (Len(wire) + 1)..Len(wire') : wire'[k].m.k = "Piece" =>
        /\ unchoking[wire'[k].p] /\ queue[wire'[k].p] # <<>> /\ Head(queue[wire'[k].p]) = wire'[k].m.r
        /\ Servable[wire'[k].m.r] /\ PieceOfReq[wire'[k].m.r] \in verified]_vars
=============================================================================
