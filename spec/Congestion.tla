------------------------------ MODULE Congestion ------------------------------
(***************************************************************************)
(* C16 under write congestion: one remote peer that may stop reading its   *)
(* socket.  peer.write puts a message on the writer channel (WCap slots)   *)
(* and fails with ErrCongested when the channel stays full.  What a failed *)
(* write does depends on the call site (peer/peer.go):                     *)
(*   unchoke(true)      Unchoke not written: nothing changes               *)
(*   unchoke(false)     Choke not written: nothing changes, error          *)
(*                      Choke written, the k-th RejectRequest not: error   *)
(*   Request (choked)   RejectRequest not written: error                   *)
(*   Cancel             RejectRequest not written: error                   *)
(*   scheduleUpload     nothing is sent while the channel is more than     *)
(*                      half full; a Piece that cannot be written stays    *)
(*                      at the head of the queue                           *)
(* An error returned by a handler ends the connection (Run), except in the *)
(* NotInterested handler, which ignores it.                                *)
(*                                                                         *)
(* A request received before a Choke is void afterwards: queue entries    *)
(* carry a flag saying so (stale), and so does the Piece that answers one. *)
(* The state space is finite: `out` holds what the last step wrote.        *)
(* Dev "stale_after_congested_choke": as shipped, unchoke(false) returns   *)
(* from the middle of its reject loop without clearing the queue.          *)
(***************************************************************************)
EXTENDS Integers, Sequences, FiniteSets

CONSTANTS WCap, MaxQ, Dev

VARIABLES fast, interested, unchoking, queue, stalled, backlog, dead, num, out, last
vars == <<fast, interested, unchoking, queue, stalled, backlog, dead, num, out, last>>

Init == /\ fast \in BOOLEAN /\ interested = FALSE /\ unchoking = FALSE /\ queue = <<>>
        /\ stalled = FALSE /\ backlog = 0 /\ dead = FALSE /\ num = 0 /\ out = <<>> /\ last = [a |-> "Init"]

Step(l) == ~dead /\ last' = l
Quiet == out' = <<>> /\ UNCHANGED backlog          \* the step writes nothing

\* how many of n messages the channel takes
Fit(n) == IF stalled THEN (IF n < WCap - backlog THEN n ELSE WCap - backlog) ELSE n
Written(ms) == /\ out' = SubSeq(ms, 1, Fit(Len(ms)))
               /\ backlog' = IF stalled THEN backlog + Fit(Len(ms)) ELSE 0
AllFit(ms) == Fit(Len(ms)) = Len(ms)

\* the connection ends: Run's exit path gives the unchoke count back
Disconnect == /\ dead' = TRUE /\ unchoking' = FALSE /\ num' = (IF unchoking THEN num - 1 ELSE num) /\ queue' = <<>>

RejectsOf(q) == IF fast THEN [k \in 1..Len(q) |-> [k |-> "Reject", stale |-> q[k]]] ELSE <<>>
Msg(kind) == [k |-> kind, stale |-> FALSE]

\* unchoke(false); ignoreErr: the NotInterested handler drops the error
DoChoke(ignoreErr) ==
  IF ~unchoking THEN Quiet /\ UNCHANGED <<unchoking, num, queue, dead>>
  ELSE LET ms == <<Msg("Choke")>> \o RejectsOf(queue) IN
       /\ Written(ms)
       /\ IF Fit(Len(ms)) = 0
          THEN \* not even the Choke: still unchoking
               IF ignoreErr THEN UNCHANGED <<unchoking, num, queue, dead>>
               ELSE Disconnect
          ELSE IF AllFit(ms)
               THEN unchoking' = FALSE /\ num' = num - 1 /\ queue' = <<>> /\ UNCHANGED dead
               ELSE \* the Choke went out, some RejectRequest did not
                    IF ignoreErr
                    THEN /\ unchoking' = FALSE /\ num' = num - 1 /\ UNCHANGED dead
                         /\ queue' = IF "stale_after_congested_choke" \in Dev THEN [k \in 1..Len(queue) |-> TRUE] ELSE <<>>
                    ELSE /\ dead' = TRUE /\ unchoking' = FALSE /\ num' = num - 1 /\ queue' = <<>>

Interested ==
  /\ Step([a |-> "Interested"]) /\ interested' = TRUE /\ Quiet
  /\ UNCHANGED <<fast, unchoking, queue, stalled, dead, num>>

NotInterested ==
  /\ Step([a |-> "NotInterested"]) /\ interested' = FALSE
  /\ DoChoke(TRUE)
  /\ UNCHANGED <<fast, stalled>>

TorUnchoke(u) ==
  /\ Step([a |-> "TorUnchoke", u |-> u])
  /\ IF u /\ interested
     THEN IF unchoking THEN Quiet /\ UNCHANGED <<unchoking, num, queue, dead>>
          ELSE /\ Written(<<Msg("Unchoke")>>)
               /\ IF AllFit(<<Msg("Unchoke")>>) THEN unchoking' = TRUE /\ num' = num + 1 ELSE UNCHANGED <<unchoking, num>>
               /\ UNCHANGED <<queue, dead>>
     ELSE DoChoke(FALSE)
  /\ UNCHANGED <<fast, interested, stalled>>

Request ==
  /\ Step([a |-> "Request"]) /\ Len(queue) < MaxQ
  /\ IF ~unchoking
     THEN LET ms == RejectsOf(<<FALSE>>) IN
          /\ Written(ms)
          /\ IF AllFit(ms) THEN UNCHANGED <<unchoking, num, queue, dead>> ELSE Disconnect
     ELSE queue' = Append(queue, FALSE) /\ Quiet /\ UNCHANGED <<unchoking, num, dead>>
  /\ UNCHANGED <<fast, interested, stalled>>

Cancel ==
  /\ Step([a |-> "Cancel"])
  /\ IF queue = <<>> THEN Quiet /\ UNCHANGED <<unchoking, num, queue, dead>>
     ELSE LET ms == RejectsOf(<<queue[1]>>) IN
          /\ Written(ms)
          /\ IF AllFit(ms) THEN queue' = Tail(queue) /\ UNCHANGED <<unchoking, num, dead>> ELSE Disconnect
  /\ UNCHANGED <<fast, interested, stalled>>

\* the upload ticker
UploadTick ==
  /\ Step([a |-> "UploadTick"])
  /\ IF unchoking /\ queue # <<>> /\ ~(backlog * 2 > WCap)
     THEN LET ms == <<[k |-> "Piece", stale |-> queue[1]]>> IN
          /\ Written(ms)
          /\ queue' = IF AllFit(ms) THEN Tail(queue) ELSE queue
     ELSE Quiet /\ UNCHANGED queue
  /\ UNCHANGED <<fast, interested, unchoking, stalled, dead, num>>

\* the remote stops reading / reads everything that is waiting
Stall == /\ Step([a |-> "Stall"]) /\ ~stalled /\ stalled' = TRUE /\ Quiet
         /\ UNCHANGED <<fast, interested, unchoking, queue, dead, num>>
Drain == /\ Step([a |-> "Drain"]) /\ stalled /\ stalled' = FALSE /\ backlog' = 0 /\ out' = <<>>
         /\ UNCHANGED <<fast, interested, unchoking, queue, dead, num>>

Next == Interested \/ NotInterested \/ (\E u \in BOOLEAN : TorUnchoke(u)) \/ Request \/ Cancel \/ UploadTick \/ Stall \/ Drain
Spec == Init /\ [][Next]_vars

-----------------------------------------------------------------------------
\* C16: a Piece answers a request that has not been choked away, and goes to a peer we are unchoking
NoStaleService == \A k \in 1..Len(out) : out[k].k = "Piece" => ~out[k].stale /\ unchoking
\* nothing is queued for a peer we are choking
ChokedHasNoQueue == ~unchoking => queue = <<>>
\* the count of unchoked peers is exact
CounterMatches == num = IF unchoking THEN 1 ELSE 0
=============================================================================
