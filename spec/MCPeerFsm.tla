------------------------------ MODULE MCPeerFsm ------------------------------
EXTENDS PeerFsm, Json
VARIABLE hist
MCInit == Init /\ hist = <<>>
MCNext == Next /\ UNCHANGED hist
MCSpec == MCInit /\ [][MCNext]_<<vars, hist>>
StateRec == [infoKnown |-> infoKnown, canFast |-> canFast, canExt |-> canExt, gotExt |-> gotExt, seed |-> seed, bm |-> bm, wide |-> wide, outcome |-> outcome]
Emit == PrintT("EDGE " \o ToJson([f |-> StateRec, a |-> last', t |-> StateRec']))
view == <<infoKnown, canFast, canExt, gotExt, seed, bm, wide, outcome>>
SimInit == Init /\ hist = <<[k |-> "Init", infoKnown |-> infoKnown, canFast |-> canFast, canExt |-> canExt]>>
SimNext == Next /\ hist' = Append(hist, [m |-> last', o |-> outcome'])
SimSpec == SimInit /\ [][SimNext]_<<vars, hist>>
Dump == (n = MaxMsgs \/ outcome = "disconnect") => PrintT("BEH " \o ToJson(hist))
=============================================================================
