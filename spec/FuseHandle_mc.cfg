SPECIFICATION Spec
CONSTANTS
  Clients = {a, b}
  NPieces = 4
  Dev = {}
INVARIANTS Exact Prefix
CHECK_DEADLOCK FALSE
