SPECIFICATION MCSpec
CONSTANTS MaxMsgs = 1000
VIEW view
INVARIANTS Total
CHECK_DEADLOCK FALSE
