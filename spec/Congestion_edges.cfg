SPECIFICATION Spec
CONSTANTS
  WCap = 4
  MaxQ = 3
  Dev = {}
INVARIANTS ChokedHasNoQueue CounterMatches NoStaleService
VIEW view
ACTION_CONSTRAINT Emit
CHECK_DEADLOCK FALSE
