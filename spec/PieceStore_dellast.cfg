\* quick edge dump: 2 threads, core alphabet, every initial condition
SPECIFICATION RaceSpec
CONSTANTS
  t1 = t1  t2 = t2  t3 = t3  t4 = t4  t5 = t5
  Threads = {t1, t2, t3, t4}
  NCh <- MCNCh2
  Avail <- MCAvail2
  Dev = {"deleted_last"}
  Ops <- MCOpsDelRace
  InitConds <- MCInitRace
  InitNold <- MCNold0
  InitRanks <- MCRankId
CHECK_DEADLOCK FALSE
INVARIANTS DelReleasesAll OnlyVerified
