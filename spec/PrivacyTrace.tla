----------------------------- MODULE PrivacyTrace -----------------------------
(* Validation of logs recorded from a real running torrent (harness binding   *)
(* "privacy") against Privacy.tla.                                            *)
(*                                                                            *)
(* Each log line is one step: the action the harness performed, everything    *)
(* that left the process during the step (obs, in the alphabet AllObs) and    *)
(* the configuration read back from the torrent with GetConf afterwards.      *)
(*                                                                            *)
(* Monitor pass (MonSpec): the observed configuration, proxy flag and         *)
(* observations are loaded into conf / proxy / out and TLC evaluates          *)
(* PrivacyInv on every observed state: the property is decided by TLC on the  *)
(* implementation's own outputs.                                              *)
(* Strict pass (TraceSpec): every line must be the named action of            *)
(* Privacy.tla, producing exactly the observed outputs and the observed       *)
(* configuration; `due` and `wanted` are not logged and are inferred by TLC.  *)
EXTENDS Privacy, Json, IOUtils, TLC

Trace == ndJsonDeserialize(IOEnv.TRACE)
VARIABLE l

ToSet(s) == {s[k] : k \in DOMAIN s}
\* the sandbox may or may not have a global IPv6 address: the model does not produce peer:ipv6
Strict(e) == (ToSet(e.obs) \cap AllObs) \ {"peer:ipv6"}

Load(e) == /\ started' = e.started /\ proxy' = e.proxy /\ kind' = e.kind /\ conf' = e.conf
           /\ due' = TRUE /\ wanted' = FALSE /\ peer' = e.peer /\ out' = ToSet(e.obs) \cap AllObs /\ last' = [a |-> "Load"]

Reset(e) == /\ started' = FALSE /\ proxy' = e.proxy /\ kind' = e.kind /\ conf' = e.conf /\ due' = TRUE /\ wanted' = FALSE /\ peer' = FALSE
            /\ out' = {} /\ last' = [a |-> "Reset"]

Act(e) ==
  CASE e.l.a = "reset"      -> Reset(e)
    [] e.l.a = "Start"      -> Start
    [] e.l.a = "SetConf"    -> SetConf(e.l.c)
    [] e.l.a = "DhtEvent"   -> DhtEvent(e.l.fam)
    [] e.l.a = "TrackerDue" -> TrackerDue
    [] e.l.a = "Tick"       -> Tick
    [] e.l.a = "Want"       -> Want
    [] e.l.a = "Incoming"   -> Incoming
    [] e.l.a = "Outgoing"   -> Outgoing
    [] e.l.a = "PeerJoin"   -> PeerJoin
    [] e.l.a = "PeerLeave"  -> PeerLeave
    [] OTHER -> FALSE

Explained == LET e == Trace[l] IN Act(e) /\ (e.l.a = "reset" \/ (out' = Strict(e) /\ conf' = e.conf))

TInit == /\ l = 1 /\ started = FALSE /\ proxy = FALSE /\ kind = "http" /\ conf = [trk |-> FALSE, ws |-> FALSE, dht |-> "none"]
         /\ due = TRUE /\ wanted = FALSE /\ peer = FALSE /\ out = {} /\ last = [a |-> "Init"]

TraceNext ==
  /\ l <= Len(Trace)
  /\ l' = l + 1
  /\ \/ Explained
     \/ /\ ~ENABLED Explained
        /\ PrintT("BADLINE " \o ToString(l) \o " " \o Trace[l].l.a)
        /\ Load(Trace[l])       \* resynchronise on the observed state so that the rest of the trace is still checked
TraceSpec == TInit /\ [][TraceNext]_<<vars, l>>

MonNext == /\ l <= Len(Trace) /\ l' = l + 1 /\ Load(Trace[l])
MonSpec == TInit /\ [][MonNext]_<<vars, l>>

AllRead == TLCGet("stats").diameter - 1 = Len(Trace)
=============================================================================
