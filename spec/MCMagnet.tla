------------------------------ MODULE MCMagnet ------------------------------
(***************************************************************************)
(* C13, magnet links (tor.ReadMagnet).  A link is abstracted to its        *)
(* scheme, the sequence of its xt parameters, and its tr / ws / as / dn    *)
(* parameters.  A bare info-hash (40 hex digits or 32 base-32 characters)  *)
(* is accepted in place of a link.  The torrent that results has the       *)
(* info-hash of the first xt parameter that is a well-formed               *)
(* urn:btih: (hex or base 32); a link without one is an error; anything    *)
(* that is not a magnet link is "not for me" (nil, nil), not an error.     *)
(***************************************************************************)
EXTENDS Integers, Sequences, FiniteSets, TLC, Json

VARIABLE c

\* xt kinds: the hash A in hex / base 32 / upper-case hex, the hash B in hex, a btih of the wrong length,
\* another urn, garbage after urn:btih:
\* ... and strings of a hash's length that are not a hash: 32 base-32 characters of which the last are padding (16-19
\* bytes), 42 hex digits, 24 base-32 characters; "amb32": 32 characters that are hex digits as well as base-32
\* characters - 16 bytes in hex, which is no hash, and the 20 bytes of hash C in base 32
XtKinds == {"hexA", "b32A", "HEXA", "hexB", "short", "sha1urn", "garbage", "b32pad1", "b32pad4", "hexlong", "b32short", "amb32"}
HashOf(x) == CASE x \in {"hexA", "b32A", "HEXA"} -> "A" [] x = "hexB" -> "B" [] x = "amb32" -> "C" [] OTHER -> "none"

Forms == {"magnet", "bare-hex", "bare-b32", "http-url", "junk", "empty", "magnet-noquery", "bare-b32pad", "bare-hexlong", "bare-amb32"}
Xts == {<<>>} \cup {<<x>> : x \in XtKinds}
       \cup {<<x, y>> : x \in {"short", "sha1urn", "garbage", "hexA", "b32pad1", "b32pad4", "hexlong", "b32short"}, y \in {"hexA", "hexB", "b32A"}}

Cases == {[form |-> f, xt |-> <<>>, tr |-> 0, badtr |-> 0, ws |-> 0, dn |-> FALSE] : f \in Forms \ {"magnet"}}
         \cup {[form |-> "magnet", xt |-> x, tr |-> t, badtr |-> b, ws |-> w, dn |-> d] :
                 x \in Xts, t \in {0, 2}, b \in {0, 1}, w \in {0, 1}, d \in BOOLEAN}

FirstHash(xs) == LET good == {k \in 1..Len(xs) : HashOf(xs[k]) # "none"} IN
                 IF good = {} THEN "none" ELSE HashOf(xs[CHOOSE k \in good : \A j \in good : k <= j])

Expected(m) ==
  CASE m.form \in {"bare-hex", "bare-b32"} -> [verdict |-> "torrent", hash |-> "A", ntr |-> 0, nws |-> 0, dn |-> FALSE]
    [] m.form = "bare-amb32" -> [verdict |-> "torrent", hash |-> "C", ntr |-> 0, nws |-> 0, dn |-> FALSE]
    [] m.form \in {"http-url", "junk", "empty", "bare-b32pad", "bare-hexlong"} -> [verdict |-> "notmagnet", hash |-> "none", ntr |-> 0, nws |-> 0, dn |-> FALSE]
    [] m.form = "magnet-noquery" -> [verdict |-> "error", hash |-> "none", ntr |-> 0, nws |-> 0, dn |-> FALSE]
    [] OTHER -> IF FirstHash(m.xt) = "none" THEN [verdict |-> "error", hash |-> "none", ntr |-> 0, nws |-> 0, dn |-> FALSE]
                ELSE [verdict |-> "torrent", hash |-> FirstHash(m.xt), ntr |-> m.tr, nws |-> 2 * m.ws, dn |-> m.dn]

Init == c \in Cases
Next == UNCHANGED c
Spec == Init /\ [][Next]_c
\* the specification itself: a torrent always has a hash, and it is one that the link carries
Good == LET e == Expected(c) IN e.verdict = "torrent" => e.hash \in {"A", "B", "C"}
Emit == PrintT("CASE " \o ToJson([c |-> c, exp |-> Expected(c)]))
=============================================================================
