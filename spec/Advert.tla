------------------------------- MODULE Advert -------------------------------
(***************************************************************************)
(* C11: the initial advertisement of the pieces we hold (BEP 3 bitfield,   *)
(* BEP 6 have-all / have-none), as a function of the number of pieces n,   *)
(* the set held and whether the peer supports the fast extension.          *)
(* A bitfield has exactly ceil(n/8) bytes and its spare bits are zero.     *)
(* Dev "extend_num": the shipped code sizes the bitfield with Extend(n),   *)
(* one byte too many when n is a multiple of 8.                            *)
(***************************************************************************)
EXTENDS Integers, Sequences, FiniteSets, TLC

CONSTANT Dev

Bytes(n) == (n + 7) \div 8
SeqOfSet(S) == LET F[k \in 0..Cardinality(S)] ==
                     IF k = 0 THEN <<>> ELSE
                       LET prev == F[k - 1]
                           rest == S \ {prev[j] : j \in 1..Len(prev)}
                       IN Append(prev, CHOOSE x \in rest : \A y \in rest : x <= y)
               IN F[Cardinality(S)]

Advert(n, held, fast) ==
  IF held = {} THEN (IF fast THEN <<[k |-> "HaveNone"]>> ELSE <<>>)
  ELSE IF fast /\ held = 0..(n - 1) THEN <<[k |-> "HaveAll"]>>
  ELSE IF Cardinality(held) < n \div 72 THEN
       (IF fast THEN <<[k |-> "HaveNone"]>> ELSE <<>>) \o
       [j \in 1..Cardinality(held) |-> [k |-> "Have", i |-> SeqOfSet(held)[j]]]
  ELSE <<[k |-> "Bitfield",
          bytes |-> IF "extend_num" \in Dev THEN n \div 8 + 1 ELSE Bytes(n),
          bits |-> SeqOfSet(held)]>>

Conformant(n, held, fast) ==
  LET a == Advert(n, held, fast) IN
  \A j \in 1..Len(a) :
    /\ a[j].k = "Have" => a[j].i \in 0..(n - 1)
    /\ a[j].k = "Bitfield" => /\ a[j].bytes = Bytes(n)
                              /\ \A b \in 1..Len(a[j].bits) : a[j].bits[b] \in 0..(n - 1)
=============================================================================
