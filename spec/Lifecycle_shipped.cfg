SPECIFICATION Spec
CONSTANTS
  Callers = {"a", "b", "k"}
  Shape <- Shape_want_send
  QCap = 2
  Dev = {"want_bare_recv"}
INVARIANTS AfterDeleted KillIsComplete
PROPERTIES Returns LoopNeverStuck HelpersEnd
CHECK_DEADLOCK FALSE
