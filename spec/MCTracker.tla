------------------------------ MODULE MCTracker ------------------------------
EXTENDS Tracker, Json

R(n, f, it, retry, peers) == [name |-> n, fail |-> f, it |-> it, retry |-> retry, peers |-> peers]
\* reply classes (HTTP and UDP are mapped to these by the harness)
MCReplies == {R("ok30", FALSE, 30, -1, {"a", "b"}),        \* interval 30 s, two compact peers
              R("ok3600", FALSE, 3600, -1, {"c"}),         \* interval 1 h, dictionary peers (one with a bad address)
              R("okneg", FALSE, -5, -1, {"d"}),            \* negative interval, one IPv6 peer
              R("okodd", FALSE, 1800, -1, {}),             \* compact peers of a length that is not a multiple of 6
              R("okp6odd", FALSE, 1800, -1, {"a"}),        \* good compact peers, peers6 of 19 bytes (ignored)
              R("fail", TRUE, 0, -1, {}),                  \* HTTP 500 / UDP error
              R("malformed", TRUE, 0, -1, {}),             \* not bencoding / truncated datagram
              R("reason3", TRUE, 0, 180, {}),              \* failure reason, retry in 3 minutes
              R("reason30", TRUE, 0, 1800, {}),            \* failure reason, retry in 30 minutes
              R("never", TRUE, 0, 8640000, {})}            \* failure reason, retry in: never
MCElapsed == {299, 301, 899, 901, 1799, 1801, 3599, 3601, 8639999, 8640001}

StateRec == [locked |-> locked, el |-> el, interval |-> interval, err |-> err, inAnn |-> inAnn,
             ncontacts |-> Len(contacts), learnt |-> learnt, res |-> res]
Emit == PrintT("EDGE " \o ToJson([f |-> StateRec, a |-> last', t |-> StateRec']))
view == <<locked, el, interval, err, inAnn, pendingCall, contacts, learnt>>
=============================================================================
