----------------------------- MODULE MCPrivacy -----------------------------
EXTENDS Privacy, Json, TLC
StateRec == [started |-> started, proxy |-> proxy, kind |-> kind, conf |-> conf, due |-> due, wanted |-> wanted, peer |-> peer]
Emit == PrintT("EDGE " \o ToJson([f |-> StateRec,
                                  a |-> [l |-> last', out |-> out', forbidden |-> Forbidden(conf', proxy')],
                                  t |-> StateRec']))
view == <<started, proxy, kind, conf, due, wanted, peer>>
=============================================================================
