SPECIFICATION Spec
CONSTANTS
  Clients = {a, b}
  NPieces = 4
  Dev = {"seek_before_acquire"}
INVARIANTS Exact Prefix
CHECK_DEADLOCK FALSE
