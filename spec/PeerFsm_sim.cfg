SPECIFICATION SimSpec
CONSTANTS MaxMsgs = 8
INVARIANTS Dump Total
CHECK_DEADLOCK FALSE
