SPECIFICATION DevSpec
CONSTANTS
  p1 = p1  p2 = p2
  Peers = {p1, p2}
  NC = 3
  PieceOf <- MCPieceOf
  Dev = {"late_dup_silent", "choke_forgets_fast"}
  MaxMsgs = 5
  MaxReqs = 3
  MaxLen = 10
VIEW devview
INVARIANTS DumpBad
CHECK_DEADLOCK FALSE
