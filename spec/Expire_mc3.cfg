SPECIFICATION Spec
CONSTANTS
  T = {t1, t2, t3}
  Low = 14
  High = 16
  MaxB = 7
  Dev = {}
INVARIANTS TypeOK NoCrash DownToLow
CONSTRAINT FewEv3
CHECK_DEADLOCK FALSE
