------------------------------- MODULE Webseed -------------------------------
(***************************************************************************)
(* C14, part 1: mapping of a torrent byte range to file ranges             *)
(* (tor.fileChunks) -- declarative: the unique sequence of (file, offset,  *)
(* length) with positive lengths, in file order, whose images tile         *)
(* [o, o+l).  Part 2: the web-seed writer (tor/writer.go) as a state       *)
(* machine: whole blocks only, clipped to its range, stored blocks         *)
(* reported, the remainder dropped on Close.  Sizes in units U (the block  *)
(* is BU units).                                                           *)
(***************************************************************************)
EXTENDS Integers, Sequences, FiniteSets, TLC

\* ---- part 1 ------------------------------------------------------------
RECURSIVE Offs(_, _)
Offs(lens, o) == IF lens = <<>> THEN <<>> ELSE <<o>> \o Offs(Tail(lens), o + Head(lens))
Max(a, b) == IF a > b THEN a ELSE b
Min(a, b) == IF a < b THEN a ELSE b

\* files: sequence of lengths; result: sequence of [f, off, len] (f = file number)
FileChunks(lens, o, l) ==
  LET offs == Offs(lens, 0)
      piece(k) == [f |-> k, off |-> Max(o, offs[k]) - offs[k],
                   len |-> Min(o + l, offs[k] + lens[k]) - Max(o, offs[k])]
      idx == SelectSeq([k \in 1..Len(lens) |-> k], LAMBDA k : Min(o + l, offs[k] + lens[k]) > Max(o, offs[k]))
  IN [j \in 1..Len(idx) |-> piece(idx[j])]

RECURSIVE SumLens(_)
SumLens(cs) == IF cs = <<>> THEN 0 ELSE Head(cs).len + SumLens(Tail(cs))
\* sanity of the operator itself: the chunks tile the range exactly once, in order
Tiles(lens, o, l) ==
  LET cs == FileChunks(lens, o, l) offs == Offs(lens, 0) IN
  /\ SumLens(cs) = l
  /\ \A j \in 1..Len(cs) : cs[j].len > 0 /\ cs[j].off >= 0 /\ cs[j].off + cs[j].len <= lens[cs[j].f]
  /\ Len(cs) > 0 => offs[cs[1].f] + cs[1].off = o
  /\ \A j \in 1..(Len(cs) - 1) : offs[cs[j].f] + cs[j].off + cs[j].len = offs[cs[j + 1].f] + cs[j + 1].off

\* ---- part 2 ------------------------------------------------------------
CONSTANTS BU,        \* units per block
          RLen,      \* length of the writer's range, in units (may end with a short last block)
          PieceBusy  \* whether the piece becomes busy/complete while the writer is alive
VARIABLES woff,      \* next unit of the range to be committed
          buf,       \* units buffered (not a whole block yet)
          recv,      \* units received from the stream so far
          stored,    \* set of range units committed to the store
          released,  \* units reported by TorData
          dropped,   \* units reported by TorDrop
          closed, busy
wvars == <<woff, buf, recv, stored, released, dropped, closed, busy>>
WInit == woff = 0 /\ buf = 0 /\ recv = 0 /\ stored = {} /\ released = 0 /\ dropped = 0 /\ closed = FALSE /\ busy = FALSE

\* k more units arrive (Write or one read of ReadFrom): whole blocks are committed
Arrive(k) ==
  /\ ~closed /\ k > 0 /\ recv < RLen + 2      \* (bound: a little more than the range may arrive)
  /\ LET room == RLen - woff - buf           \* clip to the range
         take == Min(k, Max(room, 0))
         have == buf + take
         \* whole blocks, or the final short block of the range
         whole == IF woff + have = RLen THEN have ELSE (have \div BU) * BU
         ok    == ~busy
     IN /\ recv' = recv + k
        /\ IF ok /\ whole > 0
             THEN /\ stored' = stored \cup (woff .. (woff + whole - 1))
                  /\ released' = released + whole /\ woff' = woff + whole /\ buf' = have - whole
             ELSE /\ buf' = have /\ UNCHANGED <<stored, released, woff>>
  /\ UNCHANGED <<dropped, closed, busy>>
BecomeBusy == PieceBusy /\ ~busy /\ busy' = TRUE /\ UNCHANGED <<woff, buf, recv, stored, released, dropped, closed>>
Close == /\ ~closed /\ closed' = TRUE /\ dropped' = RLen - woff
         /\ UNCHANGED <<woff, buf, recv, stored, released, busy>>
WNext == (\E k \in 1..(RLen + 2) : Arrive(k)) \/ BecomeBusy \/ Close
WSpec == WInit /\ [][WNext]_wvars

NeverBeyondRange == stored \subseteq 0 .. (RLen - 1)
WholeBlocksOnly == \A u \in stored : \A v \in 0 .. (RLen - 1) : (v \div BU = u \div BU) => v \in stored
InStreamOrder == stored = 0 .. (woff - 1)           \* unit u of the range holds stream unit u
ReleaseAll == closed => released + dropped = RLen
=============================================================================
