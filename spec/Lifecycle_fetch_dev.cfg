SPECIFICATION Spec
CONSTANTS
  Callers = {"a", "b", "k"}
  Shape <- Shape_send_kill
  QCap = 2
  Dev = {"fetch_ignores_cancel"}
INVARIANTS AfterDeleted KillIsComplete
PROPERTIES HelpersEnd
CHECK_DEADLOCK FALSE
