SPECIFICATION Spec
INVARIANTS PieceLength Slots Pieces Table Layout
POSTCONDITION AllRead
CHECK_DEADLOCK FALSE
