SPECIFICATION TraceSpec
CONSTANTS
  t1 = t1  t2 = t2  t3 = t3  t4 = t4  t5 = t5
  Threads = {t1, t2, t3, t4}
  NCh <- MCNCh2
  Avail <- MCAvail2
  Dev = {}
  Ops <- MCOpsFull
  InitConds <- MCInitAll
  InitNold <- MCNold0
  InitRanks <- MCRankId
CHECK_DEADLOCK FALSE
POSTCONDITION TraceAccepted
