SPECIFICATION Spec
CONSTANTS
  TrueSize = 32768
  ParseOK = TRUE
  Sizes <- MCSizes
  MaxVotes = 1
  Dev = {}
VIEW view
ACTION_CONSTRAINT Emit
CHECK_DEADLOCK FALSE
