------------------------------- MODULE MCSched -------------------------------
EXTENDS Sched, Json
CONSTANTS p1, p2
MCPieceOf == (0 :> 0) @@ (1 :> 0) @@ (2 :> 1)
\* pieces of three blocks (a piece length that is a multiple of the block size but not a power of two), then one short block
MCPieceOf3 == (0 :> 0) @@ (1 :> 0) @@ (2 :> 0) @@ (3 :> 1)

\* reduced alphabet for the two-peer configuration
Msgs2 == {[k |-> n] : n \in {"unchoke", "choke"}} \cup {[k |-> "bitfield", s |-> Piece]}
         \cup {[k |-> "piece", c |-> c, pl |-> "exact"] : c \in Chunk}

StateRec == [inFlight |-> inFlight, avail |-> avail, torQ |-> [p \in Peers |-> Len(torQ[p])], peerQ |-> [p \in Peers |-> Len(peerQ[p])],
             held |-> [p \in Peers |-> Held(p)], pb |-> pb]
view == <<inFlight, avail, torQ, peerQ, pb, pbnil, unch, fast, canFast, q, r, store, pcomplete, nmsg, nreq>>
bound == \A c \in Chunk : inFlight[c] <= 3
=============================================================================
