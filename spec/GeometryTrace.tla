---------------------------- MODULE GeometryTrace ----------------------------
(* Monitor pass for C13: the geometry of every torrent tor.ReadTorrent        *)
(* accepted is loaded and its self-consistency is evaluated by TLC.           *)
EXTENDS Integers, Sequences, TLC, Json, IOUtils

Trace == ndJsonDeserialize(IOEnv.TRACE)
VARIABLES l, g

CS == 16384
CeilDiv(a, b) == (a + b - 1) \div b
Empty == [length |-> 0, piecelen_u |-> 1, piecelen_r |-> 0, npieces |-> 0, slots |-> 0, nhashes |-> 0,
          offsets |-> <<>>, lengths |-> <<>>, padding |-> <<>>]
Init == l = 0 /\ g = Empty
Next == l < Len(Trace) /\ l' = l + 1 /\ g' = Trace[l + 1]
Spec == Init /\ [][Next]_<<l, g>>

PieceLength == g.piecelen_u > 0 /\ g.piecelen_r = 0
Slots       == g.slots = CeilDiv(g.length, CS)
Pieces      == g.piecelen_u > 0 => g.npieces = CeilDiv(g.slots, g.piecelen_u)
Table       == g.nhashes = g.npieces
Layout      == LET n == Len(g.offsets) IN
               n > 0 => /\ g.offsets[1] = 0
                        /\ \A k \in 1..n : g.lengths[k] >= 0
                        /\ \A k \in 1..(n - 1) : g.offsets[k + 1] = g.offsets[k] + g.lengths[k]
                        /\ g.offsets[n] + g.lengths[n] = g.length
AllRead == TLCGet("stats").diameter - 1 = Len(Trace)
=============================================================================
