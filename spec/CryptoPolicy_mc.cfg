SPECIFICATION Spec
CONSTANTS Dev = {}
INVARIANTS Honoured SelectOffered Emit
CHECK_DEADLOCK FALSE
