---------------------------- MODULE FramingTrace ----------------------------
(* Monitor pass for C04: what protocol.Read actually did on every case      *)
(* (outcome, bytes consumed, allocation class) is loaded as a terminal      *)
(* state of Framing and the invariants of Framing are evaluated on it.      *)
EXTENDS Framing, Json, IOUtils

Trace == ndJsonDeserialize(IOEnv.TRACE)
VARIABLE l

TInit == /\ l = 0
         /\ in = [lh |-> 0, ll |-> 0, id |-> 0, sub |-> 0, body |-> "filler", cut |-> "no"]
         /\ phase = "len" /\ consumed = 0 /\ alloc = "none" /\ out = "-"
TNext == /\ l < Len(Trace)
         /\ l' = l + 1
         /\ LET e == Trace[l + 1] IN
            /\ in' = e.in /\ phase' = "done" /\ consumed' = e.consumed /\ alloc' = e.alloc /\ out' = e.out
TSpec == TInit /\ [][TNext]_<<vars, l>>

NoPanic == out # "panic"
AllRead == TLCGet("stats").diameter - 1 = Len(Trace)
=============================================================================
