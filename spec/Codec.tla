-------------------------------- MODULE Codec --------------------------------
(***************************************************************************)
(* An independent description of the BitTorrent peer-wire encoding,        *)
(* written from BEP 3 (core), 5 (port), 6 (fast), 9 (ut_metadata),         *)
(* 10 (extension protocol), 11 (ut_pex), lt_donthave and upload_only --    *)
(* not from protocol/writer.go.  Encode(m) is a sequence of tokens that    *)
(* the harness expands mechanically into bytes:                            *)
(*   [t |-> "len"]            4-byte big-endian count of all that follows   *)
(*   [t |-> "u8", v], [t |-> "u16", v], [t |-> "u32", hi, lo]  big-endian   *)
(*   [t |-> "fill", n, tag]   n payload bytes PRF(tag)                      *)
(*   [t |-> "lit", s]         the ASCII characters of s                     *)
(*   [t |-> "dec", hi, lo]    decimal digits of hi*65536+lo                 *)
(*   [t |-> "bstr", p]        bencoded string whose content is tokens p     *)
(*   [t |-> "ip4", k, port], [t |-> "ip6", k, port]  compact peer k         *)
(* 32-bit values are (hi, lo) pairs of 16-bit halves (TLC integers are     *)
(* 32-bit signed).  Bencoded dictionaries have their keys in sorted order, *)
(* integers as i<decimal>e, byte strings as <len>:<bytes>.                 *)
(***************************************************************************)
EXTENDS Integers, Sequences, FiniteSets, TLC

U8(v)       == [t |-> "u8", v |-> v]
U16(v)      == [t |-> "u16", v |-> v]
U32(x)      == [t |-> "u32", hi |-> x[1], lo |-> x[2]]
Fill(n, g)  == [t |-> "fill", n |-> n, tag |-> g]
Lit(s)      == [t |-> "lit", s |-> s]
Dec(x)      == [t |-> "dec", hi |-> x[1], lo |-> x[2]]
BStr(p)     == [t |-> "bstr", p |-> p]
LenTok      == [t |-> "len"]

\* bencoding helpers
BInt(x)     == <<Lit("i"), Dec(x), Lit("e")>>
BKey(s)     == <<BStr(<<Lit(s)>>)>>
Flat(ss)    == IF ss = <<>> THEN <<>> ELSE
               LET F[k \in 0..Len(ss)] == IF k = 0 THEN <<>> ELSE F[k-1] \o ss[k] IN F[Len(ss)]
\* a dictionary from a sequence of <<key, value tokens>> pairs ALREADY in sorted key order
BDict(kvs)  == <<Lit("d")>> \o Flat([k \in 1..Len(kvs) |-> BKey(kvs[k][1]) \o kvs[k][2]]) \o <<Lit("e")>>

Small(v) == <<0, v>>

\* fixed-layout messages -----------------------------------------------------
Msg0(id)            == <<LenTok, U8(id)>>
Msg1(id, x)         == <<LenTok, U8(id), U32(x)>>
Msg3(id, x, y, z)   == <<LenTok, U8(id), U32(x), U32(y), U32(z)>>

\* compact peer lists (BEP 11): 6 bytes per IPv4 peer, 18 per IPv6 peer,
\* network byte order; one flag byte per peer in the parallel .f string
Compact(ps, fam) == [k \in 1..Len(ps) |-> [t |-> fam, k |-> ps[k].k, port |-> ps[k].port]]
Flags(ps)        == [k \in 1..Len(ps) |-> U8(ps[k].f)]
Sel(ps, six)     == SelectSeq(ps, LAMBDA p : p.six = six)

\* extension handshake dictionary (BEP 10 + BEP 9 metadata_size + lt/ut keys):
\* keys sorted bytewise: e ipv4 ipv6 m metadata_size p reqq upload_only v
\* m.m is a sequence of <<name, id>> in sorted name order
MDict(mm) == BDict([k \in 1..Len(mm) |-> <<mm[k][1], BInt(Small(mm[k][2]))>>])

Ext0Pairs(m) ==
  <<<<"e", BInt(Small(IF m.e THEN 1 ELSE 0))>>>> \o
  (IF m.ipv4 THEN <<<<"ipv4", <<BStr(<<[t |-> "rawip4", k |-> 1]>>)>>>>>> ELSE <<>>) \o
  (IF m.ipv6 THEN <<<<"ipv6", <<BStr(<<[t |-> "rawip6", k |-> 2]>>)>>>>>> ELSE <<>>) \o
  <<<<"m", MDict(m.m)>>,
    <<"metadata_size", BInt(m.msize)>>,
    <<"p", BInt(Small(m.port))>>,
    <<"reqq", BInt(m.reqq)>>,
    <<"upload_only", BInt(Small(IF m.uo THEN 1 ELSE 0))>>,
    <<"v", <<BStr(<<Lit(m.v)>>)>>>>>>

\* ut_metadata (BEP 9): d8:msg_typei<t>e5:piecei<p>e[10:total_sizei<s>e]e then, for data, the block
MetaPairs(m) ==
  <<<<"msg_type", BInt(Small(m.type))>>, <<"piece", BInt(m.piece)>>>> \o
  (IF m.type = 1 THEN <<<<"total_size", BInt(m.total)>>>> ELSE <<>>)

\* ut_pex (BEP 11): added added.f added6 added6.f dropped dropped6 (sorted)
PexPairs(m) ==
  <<<<"added",    <<BStr(Compact(Sel(m.added, FALSE), "ip4"))>>>>,
    <<"added.f",  <<BStr(Flags(Sel(m.added, FALSE)))>>>>,
    <<"added6",   <<BStr(Compact(Sel(m.added, TRUE), "ip6"))>>>>,
    <<"added6.f", <<BStr(Flags(Sel(m.added, TRUE)))>>>>,
    <<"dropped",  <<BStr(Compact(Sel(m.dropped, FALSE), "ip4"))>>>>,
    <<"dropped6", <<BStr(Compact(Sel(m.dropped, TRUE), "ip6"))>>>>>>

Encode(m) ==
  CASE m.k = "KeepAlive"     -> <<LenTok>>
    [] m.k = "Choke"         -> Msg0(0)
    [] m.k = "Unchoke"       -> Msg0(1)
    [] m.k = "Interested"    -> Msg0(2)
    [] m.k = "NotInterested" -> Msg0(3)
    [] m.k = "Have"          -> Msg1(4, m.index)
    [] m.k = "Bitfield"      -> <<LenTok, U8(5), Fill(m.n, "bitfield")>>
    [] m.k = "Request"       -> Msg3(6, m.index, m.begin, m.length)
    [] m.k = "Piece"         -> <<LenTok, U8(7), U32(m.index), U32(m.begin), Fill(m.n, "piece")>>
    [] m.k = "Cancel"        -> Msg3(8, m.index, m.begin, m.length)
    [] m.k = "Port"          -> <<LenTok, U8(9), U16(m.port)>>
    [] m.k = "SuggestPiece"  -> Msg1(13, m.index)
    [] m.k = "HaveAll"       -> Msg0(14)
    [] m.k = "HaveNone"      -> Msg0(15)
    [] m.k = "RejectRequest" -> Msg3(16, m.index, m.begin, m.length)
    [] m.k = "AllowedFast"   -> Msg1(17, m.index)
    [] m.k = "Extended0"     -> <<LenTok, U8(20), U8(0)>> \o BDict(Ext0Pairs(m))
    [] m.k = "ExtendedMetadata" -> <<LenTok, U8(20), U8(m.sub)>> \o BDict(MetaPairs(m)) \o
                                   (IF m.type = 1 THEN <<Fill(m.n, "metadata")>> ELSE <<>>)
    [] m.k = "ExtendedPex"   -> <<LenTok, U8(20), U8(m.sub)>> \o BDict(PexPairs(m))
    [] m.k = "ExtendedDontHave" -> <<LenTok, U8(20), U8(m.sub), U32(m.index)>>

\* sanity of the encoder itself, checked by TLC over the message set:
\* every encoding starts with the length token and (except keep-alive) an id
WellFormed(m) ==
  LET e == Encode(m) IN
  /\ e[1] = LenTok
  /\ m.k # "KeepAlive" => e[2].t = "u8"
  /\ \A k \in 2..Len(e) : e[k] # LenTok
=============================================================================
