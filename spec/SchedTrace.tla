------------------------------ MODULE SchedTrace ------------------------------
(* Monitor pass for C09: the bookkeeping of the real torrent and peers,       *)
(* observed at quiescent points, is loaded and Conservation / Availability    *)
(* are evaluated on it by TLC.                                                *)
EXTENDS Integers, Sequences, FiniteSets, TLC, Json, IOUtils
Trace == ndJsonDeserialize(IOEnv.TRACE)
VARIABLES l, o
Empty == [inFlight |-> <<>>, avail |-> <<>>, held |-> <<>>, adv |-> <<>>]
Init == l = 0 /\ o = Empty
Next == l < Len(Trace) /\ l' = l + 1 /\ o' = Trace[l + 1]
Spec == Init /\ [][Next]_<<l, o>>
\* o.held[k], o.adv[k]: sequences (one entry per connected peer) of the blocks it holds / pieces it advertises
Count(seqs, x) == Cardinality({k \in 1..Len(seqs) : \E j \in 1..Len(seqs[k]) : seqs[k][j] = x})
Conservation == \A c \in 1..Len(o.inFlight) : o.inFlight[c] = Count(o.held, c - 1)
Availability == \A i \in 1..Len(o.avail) : o.avail[i] = Count(o.adv, i - 1)
AllRead == TLCGet("stats").diameter - 1 = Len(Trace)
=============================================================================
