------------------------------ MODULE Handshake ------------------------------
(***************************************************************************)
(* C07: staged parsing of a handshake byte stream (crypto.readMore /       *)
(* synchronise, protocol.readMore) under arbitrary TCP segmentation.       *)
(* The stream is a sequence of fields; stage k needs Need[k] more bytes    *)
(* than are buffered and offers room for up to Room[k]; each Read returns  *)
(* any 1..min(room, available) bytes.  The reader's buffer is the stream   *)
(* interval [lo, hi).  Dev "untrimmed": as shipped, a stage that had to    *)
(* read returns its buffer grown to the full room, whatever was received.  *)
(***************************************************************************)
EXTENDS Integers, Sequences, TLC

CONSTANTS Fields,   \* field lengths, in stream order
          Room,     \* per stage: maximum the buffer may hold when the stage reads
          Total,    \* bytes the sender eventually writes (fields + early data)
          Dev

NStages == Len(Fields)
VARIABLES written, delivered, lo, hi, stage, reading, consumed
vars == <<written, delivered, lo, hi, stage, reading, consumed>>

Init == written = 0 /\ delivered = 0 /\ lo = 0 /\ hi = 0 /\ stage = 1 /\ reading = FALSE /\ consumed = <<>>

\* the sender writes some more of its stream
Send(k) == /\ written + k <= Total /\ k > 0 /\ written' = written + k
           /\ UNCHANGED <<delivered, lo, hi, stage, reading, consumed>>

Need == IF stage <= NStages THEN Fields[stage] ELSE 0

\* the stage has enough: it consumes its field
Consume ==
  /\ stage <= NStages /\ hi - lo >= Need
  /\ consumed' = Append(consumed, [from |-> lo, to |-> lo + Need])
  /\ lo' = lo + Need /\ stage' = stage + 1 /\ reading' = FALSE
  /\ UNCHANGED <<written, delivered, hi>>

\* ... or it reads: one Read call returns k bytes
Read(k) ==
  /\ stage <= NStages /\ hi - lo < Need
  /\ k >= 1 /\ k <= written - delivered /\ hi + k <= lo + Room[stage]
  /\ delivered' = delivered + k
  /\ reading' = TRUE
  /\ hi' = IF "untrimmed" \in Dev /\ hi + k - lo >= Need THEN lo + Room[stage] ELSE hi + k
  /\ UNCHANGED <<written, lo, stage, consumed>>

Next == (\E k \in 1..Total : Send(k) \/ Read(k)) \/ Consume
Spec == Init /\ [][Next]_vars

\* the buffer only ever holds bytes that were received
BufIsReceived == hi <= delivered
\* every stage consumed exactly its own field, whatever the segmentation
FieldStart(k) == IF k = 1 THEN 0 ELSE LET F[j \in 1..k] == IF j = 1 THEN 0 ELSE F[j - 1] + Fields[j - 1] IN F[k]
StageAligned == \A k \in 1..Len(consumed) : consumed[k].from = FieldStart(k) /\ consumed[k].to = FieldStart(k) + Fields[k]
\* at the end the surplus handed to the message layer is exactly what follows the last field
SurplusExact == stage > NStages => lo = FieldStart(NStages) + Fields[NStages] /\ hi <= delivered /\ hi >= lo
-----------------------------------------------------------------------------
\* Which torrent a handshake is for.  An encrypted exchange is keyed with the
\* info-hash of one torrent (SKEY); the BitTorrent handshake that follows names
\* a torrent as well.  A server serving the set `served` reports success only
\* if both name the same served torrent - otherwise a peer that knows torrent
\* A could get a connection attributed to torrent B.
ServerAccepts(skey, named, served) == named \in served /\ skey \in served /\ skey = named
\* the cases the binding runs (torrents A and B served, C not)
AgreeCases == {[skey |-> k, named |-> n] : k \in {"A", "B"}, n \in {"A", "B", "C"}}
AgreeSound == \A c \in AgreeCases : ServerAccepts(c.skey, c.named, {"A", "B"}) <=> (c.skey = c.named)
=============================================================================
