SPECIFICATION Spec
CONSTANTS
  Addrs = {"a", "b", "c"}
  Dev = {}
  Cap = 50
  MaxOps = 8
INVARIANTS NoBadDelta Settled
CHECK_DEADLOCK FALSE
