SPECIFICATION Spec
CONSTANTS
  Addrs = {"a", "b", "c"}
  Dev = {}
  MaxOps = 8
INVARIANTS NoBadDelta Settled
CHECK_DEADLOCK FALSE
