SPECIFICATION CrashSpec
CONSTANTS
  T = {t1, t2}
  Low = 14
  High = 16
  MaxB = 11
  Dev = {"DivZero"}
INVARIANTS DumpCrash
CONSTRAINT Short
CHECK_DEADLOCK FALSE
