---------------------------- MODULE MCUdpExchange ----------------------------
EXTENDS UdpExchange, Json
MCClasses == {"timeout", "short", "foreign", "error3", "wrong", "ok"}
Emit == (result # "-") => PrintT("CASE " \o ToJson([hist |-> hist, result |-> result, sent |-> sent]))
=============================================================================
