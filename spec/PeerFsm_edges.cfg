SPECIFICATION MCSpec
CONSTANTS MaxMsgs = 1000
VIEW view
ACTION_CONSTRAINT Emit
CHECK_DEADLOCK FALSE
