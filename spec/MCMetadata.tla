------------------------------ MODULE MCMetadata ------------------------------
EXTENDS Metadata, Json

\* sizes a peer may claim, relative to the true one
MCSizes == {0, TrueSize - 1, TrueSize, TrueSize + 1, TrueSize + BS, Cap + 1}

StateRec == [infoLen |-> infoLen, have |-> have, cont |-> cont, votes |-> votes, complete |-> complete, crashed |-> crashed]
Emit == PrintT("EDGE " \o ToJson([f |-> StateRec, a |-> last', t |-> StateRec']))
view == <<votes, infoLen, cont, have, complete, crashed>>
=============================================================================
