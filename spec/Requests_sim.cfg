SPECIFICATION SimSpec
CONSTANTS
  Pieces = {0, 1, 2}
  Consumers = {"k1", "k2", "k3"}
  Prios = {0, 1, 2, 9}
  MaxOps = 14
  Dev = {}
INVARIANTS Dump NoLostWakeup PrioConserved EntryIffWanted
CHECK_DEADLOCK FALSE
