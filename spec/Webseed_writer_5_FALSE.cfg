SPECIFICATION WSpecMC
CONSTANTS BU = 2  RLen = 5  PieceBusy = FALSE
INVARIANTS NeverBeyondRange WholeBlocksOnly InStreamOrder ReleaseAll
CHECK_DEADLOCK FALSE
