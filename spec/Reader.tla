------------------------------- MODULE Reader -------------------------------
(***************************************************************************)
(* tor.Reader (tor/reader.go): a seekable read-only view of the bytes      *)
(* [Offset, Offset+Length) of a torrent.  C02: bytes returned at position  *)
(* p are the true content at Offset+p, nothing outside the range is ever   *)
(* returned, end-of-file is reported exactly at Length; a blocked read     *)
(* returns once an honest seed has supplied the piece, even after          *)
(* evictions; it fails promptly on cancellation or deletion.               *)
(* Sizes are in bytes; PS = piece size.  One Read returns data of one      *)
(* piece only.                                                             *)
(***************************************************************************)
EXTENDS Integers, Sequences, FiniteSets, TLC

CONSTANTS PS, TLen, Offset, Length, Bufs, SeekTargets, MaxOps

NPieces == (TLen + PS - 1) \div PS
Pieces == 0 .. (NPieces - 1)
Min(a, b) == IF a < b THEN a ELSE b

VARIABLES pos, complete, dead, cancelled, closed, nops, last
vars == <<pos, complete, dead, cancelled, closed, nops, last>>

Init == pos = 0 /\ complete \in SUBSET Pieces /\ dead = FALSE /\ cancelled = FALSE /\ closed = FALSE /\ nops = 0
        /\ last = [a |-> "Init"]
Op == nops < MaxOps /\ nops' = nops + 1

\* io.Seeker semantics; a negative target is an error and leaves the position alone
Seek(whence, o) ==
  /\ Op /\ ~closed
  /\ LET t == CASE whence = 0 -> o [] whence = 1 -> pos + o [] whence = 2 -> Length + o IN
     /\ pos' = IF t < 0 THEN pos ELSE t
     /\ last' = [a |-> "Seek", whence |-> whence, off |-> o, res |-> IF t < 0 THEN -1 ELSE t]
  /\ UNCHANGED <<complete, dead, cancelled, closed>>

\* Read(buf of n bytes): the honest seed supplies the piece under the cursor if needed
Read(n) ==
  /\ Op /\ ~closed
  /\ IF pos >= Length THEN
        /\ last' = [a |-> "Read", n |-> n, got |-> 0, res |-> "eof"] /\ UNCHANGED <<pos, complete>>
     ELSE IF cancelled \/ dead THEN
        /\ last' = [a |-> "Read", n |-> n, got |-> 0, res |-> "error"] /\ UNCHANGED <<pos, complete>>
     ELSE
        LET abs  == Offset + pos
            i    == abs \div PS
            room == Min(Min(n, Length - pos), (i + 1) * PS - abs)   \* clipped to the range and to the piece
            k    == Min(room, TLen - abs)
        IN /\ pos' = pos + k
           /\ complete' = complete \cup {i}                          \* supplied by the seed if it was missing
           /\ last' = [a |-> "Read", n |-> n, got |-> k, res |-> IF pos + k = Length THEN "eof" ELSE "ok"]
  /\ UNCHANGED <<dead, cancelled, closed>>

Evict(S) ==
  /\ Op /\ S # {} /\ S \subseteq complete
  /\ complete' = complete \ S /\ last' = [a |-> "Evict", s |-> S]
  /\ UNCHANGED <<pos, dead, cancelled, closed>>
Cancel == /\ Op /\ ~cancelled /\ cancelled' = TRUE /\ last' = [a |-> "Cancel"]
          /\ UNCHANGED <<pos, complete, dead, closed>>
Kill == /\ Op /\ ~dead /\ dead' = TRUE /\ last' = [a |-> "Kill"] /\ complete' = {}
        /\ UNCHANGED <<pos, cancelled, closed>>

Next == \/ \E w \in 0..2, o \in SeekTargets : Seek(w, o)
        \/ \E n \in Bufs : Read(n)
        \/ \E S \in SUBSET Pieces : Evict(S)
        \/ Cancel \/ Kill
Spec == Init /\ [][Next]_vars

\* the reader never moves outside its range by reading
Window == [][last'.a = "Read" => (pos' >= pos /\ (pos < Length => pos' <= Length))]_vars
EofExactlyAtLength == last.a = "Read" /\ last.res = "eof" => pos >= Length
=============================================================================
