SPECIFICATION SimSpec
CONSTANTS
  Pieces = {0, 1}
  Consumers = {"k1", "k2"}
  Prios = {1, 9}
  MaxOps = 9
  Dev = {}
INVARIANTS Dump NoLostWakeup PrioConserved EntryIffWanted
CHECK_DEADLOCK FALSE
