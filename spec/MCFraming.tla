------------------------------ MODULE MCFraming ------------------------------
EXTENDS Framing, Json

In(lh, ll, id, sub, body, cut) == [lh |-> lh, ll |-> ll, id |-> id, sub |-> sub, body |-> body, cut |-> cut]

\* announced lengths: 0 1 2 3 4 5 6 9 10 12 13 14 16393 2^20 2^20+1 2^31 2^32-1
Lens == {<<0, 0>>, <<0, 1>>, <<0, 2>>, <<0, 3>>, <<0, 4>>, <<0, 5>>, <<0, 6>>, <<0, 9>>, <<0, 10>>, <<0, 12>>,
         <<0, 13>>, <<0, 14>>, <<0, 16393>>, <<16, 0>>, <<16, 1>>, <<32768, 0>>, <<65535, 65535>>}
Ids  == 0..21 \cup {255}
Subs == 0..5 \cup {255}
BencBodies == {"valid", "trailing", "dupkeys", "truncated", "nondict", "hugestr", "empty",
               "deep", "hugeint", "wrongtype", "unknownkeys", "negint", "pexshortflags", "pexoddlen"}

\* every id x every length, whole and cut one byte short
A == {In(l[1], l[2], id, 0, "filler", cut) : l \in Lens, id \in Ids \ {20}, cut \in {"no", "mid"}}
\* extended messages: every sub-id x every length, body = filler bytes (not bencoding)
B == {In(l[1], l[2], 20, sub, "filler", cut) : l \in Lens, sub \in Subs, cut \in {"no", "mid"}}
\* upload_only values
C == {In(0, 3, 20, 4, b, "no") : b \in {"v0", "v1", "v2"}}
\* bencoded bodies, length computed from the body
D == {In(-1, 0, 20, sub, b, cut) : sub \in {0, 1, 2}, b \in BencBodies, cut \in {"no", "mid"}}
\* ... and every known key with every unexpected value shape
D2 == UNION {{In(-1, 0, 20, sub, b, "no") : b \in KVBodies(sub)} : sub \in {0, 1, 2}}
\* streams that end inside the prefix or right after it / after the id
E == {In(l[1], l[2], id, 0, "filler", cut) : l \in {<<0, 1>>, <<0, 5>>, <<0, 13>>, <<16, 1>>},
                                              id \in {0, 4, 7, 14, 20}, cut \in {"inlen", "afterlen", "afterid"}}

\* a cut in the middle needs a frame with at least one byte
Sane(i) == i.cut = "mid" => (Auto(i) \/ (~TooBig(i) /\ FLen(i) >= 1))
MCInputs == {i \in A \cup B \cup C \cup D \cup D2 \cup E : Sane(i)}

\* print one case per terminal state
Emit == phase = "done" =>
          PrintT("CASE " \o ToJson([in |-> in, out |-> out, consumed |-> consumed, alloc |-> alloc]))
=============================================================================
