----------------------------- MODULE UdpExchange -----------------------------
(***************************************************************************)
(* One request/reply exchange of the UDP tracker protocol (BEP 15) with    *)
(* bounded retransmission: udpRequestReply in tracker/udp.go.  C15: every  *)
(* sequence of replies ends in a result or an error, never in a crash.     *)
(* Reply classes per attempt: "timeout", "short" (fewer bytes than the     *)
(* minimum), "foreign" (another transaction id), "error3" (action 3 with   *)
(* our id), "wrong" (our id, unexpected action), "ok".                     *)
(* Dev "foreign_eek": the shipped loop leaves err = nil after a foreign    *)
(* transaction id, and panics when the fourth attempt ends that way.       *)
(***************************************************************************)
EXTENDS Integers, Sequences, TLC

CONSTANTS Classes, Dev
VARIABLES attempt, sent, result, hist, lasterr

vars == <<attempt, sent, result, hist, lasterr>>
Init == attempt = 0 /\ sent = 0 /\ result = "-" /\ hist = <<>> /\ lasterr = FALSE

Attempt(c) ==
  /\ result = "-" /\ attempt < 4
  /\ attempt' = attempt + 1 /\ sent' = sent + 1 /\ hist' = Append(hist, c)
  /\ LET final == attempt + 1 = 4 IN
     CASE c = "ok"     -> result' = "ok" /\ lasterr' = FALSE
       [] c = "error3" -> result' = "error" /\ lasterr' = TRUE
       [] c = "wrong"  -> result' = "error" /\ lasterr' = TRUE
       [] c \in {"timeout", "short"} ->
            /\ lasterr' = TRUE
            /\ result' = IF final THEN "error" ELSE "-"
       [] c = "foreign" ->
            /\ lasterr' = ("foreign_eek" \notin Dev)
            /\ result' = IF ~final THEN "-" ELSE IF "foreign_eek" \in Dev THEN "panic" ELSE "error"

Next == \E c \in Classes : Attempt(c)
Spec == Init /\ [][Next]_vars
FairSpec == Spec /\ WF_vars(Next)

NoPanic    == result # "panic"
Bounded    == sent <= 4
Terminates == <>(result # "-")
\* the exchange stops at the first conclusive reply
StopsAtOnce == result \in {"ok", "error"} /\ attempt < 4 => hist[attempt] \in {"ok", "error3", "wrong"}
=============================================================================
