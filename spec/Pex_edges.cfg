SPECIFICATION Spec
CONSTANTS
  Addrs = {"a", "b"}
  Dev = {}
  MaxOps = 1000
VIEW view
ACTION_CONSTRAINT Emit
CHECK_DEADLOCK FALSE
