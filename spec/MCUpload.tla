------------------------------ MODULE MCUpload ------------------------------
EXTENDS Upload, Json
CONSTANTS p1, p2
VARIABLE hist
\* request classes: r0 = piece 0 first block; r1 = piece 1, unaligned offset, inside the piece;
\* rx = piece 0 range running past the end of the piece; rz = index beyond the torrent; rh = a huge length
MCReqs == {"r0", "r1", "rx", "rz"}
MCPieceOfReq == [rq \in MCReqs |-> CASE rq = "r0" -> 0 [] rq = "r1" -> 1 [] rq = "rx" -> 0 [] rq = "rz" -> 9]
MCServable == [rq \in MCReqs |-> rq \in {"r0", "r1"}]
\* simulation only: also rh = piece 0, offset 0, a length of 2^30 (never servable)
\* and rw = an index of 2^32 / piece size (its byte offset wraps to 0 in 32-bit arithmetic), rb = piece 1 with an offset of 2^32 - 1
\* and a length of 1 (wraps into piece 0): beyond the torrent, never servable
MCReqs5 == MCReqs \cup {"rh", "rw", "rb"}
MCPieceOfReq5 == [rq \in MCReqs5 |-> IF rq = "rh" THEN 0 ELSE IF rq \in {"rw", "rb"} THEN 9 ELSE MCPieceOfReq[rq]]
MCServable5 == [rq \in MCReqs5 |-> rq \in {"r0", "r1"}]
MCInit == Init /\ hist = <<>>
MCNext == Next /\ UNCHANGED hist
MCSpec == MCInit /\ [][MCNext]_<<vars, hist>>
\* the queue depth a peer advertises in its extended handshake (reqq; 0: none) is the peer's business: the bound on what
\* we queue for it is ours, so the specification does not depend on it - the binding sends it before the first step
AdvQs == {0, 2, 100000}
SimInit == Init /\ \E q \in [Peers -> AdvQs] : hist = <<[a |-> "Init", canFast |-> canFast, verified |-> verified, advQ |-> q]>>
SimNext == Next /\ hist' = Append(hist, last')
SimSpec == SimInit /\ [][SimNext]_<<vars, hist>>
Dump == (steps = MaxSteps) => PrintT("BEH " \o ToJson(hist))
view == <<interested, unchoking, queue, canFast, verified, num, steps>>
=============================================================================
