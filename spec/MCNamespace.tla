----------------------------- MODULE MCNamespace -----------------------------
EXTENDS Namespace, Json
CONSTANT Big
VARIABLE c
LayoutsQ == {
  <<<<"a">>, <<"b">>>>,
  <<<<"a", "b">>, <<"a", "c">>, <<"ab", "c">>>>,                        \* duplicate prefixes a / ab
  <<<<"a">>, <<"a b">>, <<"d", "a b", "x y">>>>,                         \* names needing escaping
  <<<<"d", "%41">>, <<"d", "A">>, <<"d", "a?b#c">>>>,                    \* a literal %XX, reserved characters
  <<<<"u", "e">>, <<"u", "f", "g">>, <<"u", "f", "h">>, <<"v">>>>,       \* nested directories
  <<<<"a", "b">>, <<"a">>>>,                                              \* a file and a directory with the same name
  <<<<"x">>, <<"x">>>>,                                                   \* duplicate paths
  <<<<"p", "q">>, <<".pad", "0">>, <<"p", "r">>>>,                        \* (the second file is a padding file)
  <<<<"a">>, <<"s", "_pad0">>, <<"s", "b">>, <<"s", "t", "c">>>>,        \* a padding file first in a directory of real files
  <<<<"..", "a">>, <<".", "a">>, <<"a">>>>,                               \* dot components inside the torrent
  <<<<"a", "x">>, <<"b", "y">>, <<"a", "z">>, <<"top">>>>,               \* the files of a directory are not adjacent in the table
  <<<<"a/b">>, <<"a", "b">>>>,                                            \* a component containing a slash
  <<<<"x y">>>>, <<<<"%41">>>>, <<<<"a?b#c">>>>                           \* also run as single-file torrents of that name
}
\* further layouts for the thorough tier
LayoutsT == LayoutsQ \cup {
  <<<<"a">>, <<"a.">>, <<"a ", "a">>, <<"A">>>>,                          \* near-identical names
  <<<<"d", "e", "f", "g">>, <<"d", "e", "f">>, <<"d", "e">>, <<"d">>>>,   \* every prefix of a file is itself a file
  <<<<"x", "1">>, <<"x", "2">>, <<"y", "1">>, <<"y", "2">>, <<"1">>>>,   \* the same leaf names in several directories
  <<<<"%2F">>, <<"%2f", "a">>, <<"+">>, <<" ">>>>,                        \* encoded slash, plus, blank
  <<<<"_pad0">>, <<"s", "_pad1">>, <<"s", "_pad2">>, <<"t">>>>,          \* a directory holding only padding files
  <<<<"x y">>, <<"x y">>, <<"x y", "z">>>>                                \* duplicates and a clash together
}
Layouts == IF Big THEN LayoutsT ELSE LayoutsQ
Comps(files) == UNION {{files[k][i] : i \in 1..Len(files[k])} : k \in 1..Len(files)} \cup {"zz", "", ".."}
Paths(files) == {<<>>} \cup {<<x>> : x \in Comps(files)} \cup {<<x, y>> : x \in Comps(files), y \in Comps(files)}
                \cup {<<x, y, z>> : x \in Comps(files), y \in Comps(files), z \in (IF Big THEN Comps(files) ELSE {"g", "x y", "zz", "", "c"} \cap Comps(files))}
Init == c \in {[files |-> fs, p |-> p, single |-> sg] : fs \in Layouts, p \in UNION {Paths(f) : f \in Layouts}, sg \in BOOLEAN}
        /\ c.p \in Paths(c.files) /\ (c.single => Len(c.files) = 1 /\ Len(c.files[1]) = 1)
Next == UNCHANGED c
Spec == Init /\ [][Next]_c
Good == Sane(c.files)
Emit == PrintT("CASE " \o ToJson([files |-> c.files, p |-> c.p, single |-> c.single, admissible |-> Admissible(c.files), shadowed |-> Shadowed(c.files, c.p), file |-> Resolve(c.files, c.p), isdir |-> IsDir(c.files, c.p),
                                  entries |-> Entries(c.files, c.p), listed |-> Listed(c.files, c.p)]))
=============================================================================
