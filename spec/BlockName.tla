------------------------------ MODULE BlockName ------------------------------
(***************************************************************************)
(* C11: how a block is named on the wire.  The scheduler speaks of blocks  *)
(* by their number in the torrent (peer.PeerRequest); a Request names a    *)
(* piece, an offset within it and a length.  For a torrent whose pieces    *)
(* hold Cpp blocks of 16 KiB, block c is piece c \div Cpp, offset          *)
(* (c % Cpp) * 16384 - in mathematical integers: the product c * 16384     *)
(* exceeds 32 bits from 4 GiB on, and Cpp need not be a power of two (the  *)
(* piece length is any multiple of 16 KiB).  The last block is short.      *)
(* One case per (Cpp, block); the torrent has NBlocks whole blocks and one *)
(* of TailLen bytes (5 GiB + 100 bytes).                                      *)
(***************************************************************************)
EXTENDS Integers, Sequences, TLC, Json

CS == 16384
NBlocks == 327680
TailLen == 100
Cpps == {1, 2, 3, 4, 5, 64, 192, 255, 256}
Blocks(k) == {0, 1, k - 1, k, k + 1, 262143, 262144, 262145, 262144 + k, 262144 + k + 1, 300000, NBlocks - 1, NBlocks} \cap (0 .. NBlocks)

VARIABLE c
Cases == UNION {{[cpp |-> k, block |-> b] : b \in Blocks(k)} : k \in Cpps}
\* TLC's integers have 32 bits, so offsets are counted in blocks here; the binding multiplies by 16384 in 64 bits
Expected(m) == [index |-> m.block \div m.cpp, beginBlocks |-> m.block % m.cpp, length |-> IF m.block = NBlocks THEN TailLen ELSE CS]

Init == c \in Cases
Next == UNCHANGED c
Spec == Init /\ [][Next]_c
\* the name is a name of that block: same byte position, inside the piece, inside the torrent
Good == LET e == Expected(c) IN
          /\ e.index * c.cpp + e.beginBlocks = c.block
          /\ e.beginBlocks < c.cpp /\ e.length <= CS
          /\ c.block <= NBlocks /\ (c.block = NBlocks => e.length = TailLen)
Emit == PrintT("CASE " \o ToJson([c |-> c, exp |-> Expected(c), nblocks |-> NBlocks, tail |-> TailLen]))
=============================================================================
