SPECIFICATION MonSpec
CONSTANTS
  PxOk = TRUE
INVARIANTS PrivacyInv
CHECK_DEADLOCK FALSE
POSTCONDITION AllRead
