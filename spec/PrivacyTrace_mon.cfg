SPECIFICATION MonSpec
INVARIANTS PrivacyInv
CHECK_DEADLOCK FALSE
POSTCONDITION AllRead
