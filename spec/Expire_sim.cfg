SPECIFICATION SimSpec2
CONSTANTS
  T = {t1, t2}
  Low = 14
  High = 16
  MaxB = 18
  Dev = {}
INVARIANTS Dump
CHECK_DEADLOCK FALSE
