SPECIFICATION WSpecMC
CONSTANTS BU = 2  RLen = 5  PieceBusy = TRUE
INVARIANTS NeverBeyondRange WholeBlocksOnly InStreamOrder ReleaseAll
CHECK_DEADLOCK FALSE
