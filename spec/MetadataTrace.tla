---------------------------- MODULE MetadataTrace ----------------------------
(* Validation of logs of the real metadata assembly (harness binding         *)
(* "metadata") against Metadata.tla.  Strict pass: each step must be the      *)
(* named action and lead to the observed buffer; monitor pass: the observed   *)
(* state is loaded and Authentic / InBounds are evaluated on it.              *)
EXTENDS MCMetadata, IOUtils

Trace == ndJsonDeserialize(IOEnv.TRACE)
VARIABLE l

ToSet(s) == {s[k] : k \in DOMAIN s}
ObsVotes(S) == [sz \in Sizes |-> IF ToString(sz) \in DOMAIN S.votes THEN S.votes[ToString(sz)] ELSE 0]
ObsCont(S)  == [b \in Blocks(S.infoLen) |-> S.cont[ToString(b)]]

Load(S) ==
  /\ infoLen' = S.infoLen /\ have' = ToSet(S.have) /\ cont' = ObsCont(S) /\ votes' = ObsVotes(S)
  /\ complete' = S.complete /\ crashed' = S.crashed /\ lastRes' = "-" /\ last' = [a |-> "Load"]

Match(S) ==
  /\ complete' = S.complete /\ crashed' = S.crashed
  /\ S.complete \/ S.crashed \/
       (infoLen' = S.infoLen /\ have' = ToSet(S.have) /\ cont' = ObsCont(S) /\ votes' = ObsVotes(S))

Act(e) ==
  CASE e.l.a = "reset" -> Load(e.s)
    [] e.l.a = "Vote"  -> Vote(e.l.size)
    [] e.l.a = "Tick"  -> Tick
    [] e.l.a = "Block" -> Block(e.l.idx, e.l.sz, e.l.n, e.l.q)
    [] OTHER -> FALSE

Explained == LET e == Trace[l] IN Act(e) /\ (e.l.a = "reset" \/ Match(e.s))

TInit == /\ l = 1 /\ votes = [s \in Sizes |-> 0] /\ infoLen = 0 /\ cont = NoCont(0) /\ have = {}
         /\ complete = FALSE /\ crashed = FALSE /\ lastRes = "-" /\ last = [a |-> "Init"]

TraceNext ==
  /\ l <= Len(Trace)
  /\ l' = l + 1
  /\ \/ Explained
     \/ /\ ~ENABLED Explained
        /\ PrintT("BADLINE " \o ToString(l) \o " " \o Trace[l].l.a)
        /\ UNCHANGED vars
TraceSpec == TInit /\ [][TraceNext]_<<vars, l>>

MonNext == /\ l <= Len(Trace) /\ l' = l + 1 /\ Load(Trace[l].s)
MonSpec == TInit /\ [][MonNext]_<<vars, l>>

AllRead == TLCGet("stats").diameter - 1 = Len(Trace)
=============================================================================
