---------------------------- MODULE MCFuseHandle ----------------------------
(* Case table for the binding: read A covers a piece m that has not arrived (it blocks    *)
(* there, holding the semaphore), read B on the same handle covers arrived pieces only.   *)
EXTENDS FuseHandle, Json, TLC
VARIABLE c
Covers(r, p) == p >= r.off /\ p < r.off + r.n
Cases == {[a |-> ra, b |-> rb, m |-> m] : ra \in {r \in Reads : InFile(r)}, rb \in {r \in Reads : InFile(r)}, m \in 0..(NPieces - 1)}
CInit == /\ c \in {x \in Cases : Covers(x.a, x.m) /\ ~Covers(x.b, x.m)}
         /\ req = [cl \in Clients |-> [off |-> 0, n |-> 1]] /\ pc = [cl \in Clients |-> "start"]
         /\ got = [cl \in Clients |-> <<>>] /\ pos = 0 /\ holder = "-" /\ missing = {}
CNext == UNCHANGED <<c, vars>>
CSpec == CInit /\ [][CNext]_<<c, vars>>
Emit == PrintT("CASE " \o ToJson(c))
=============================================================================
