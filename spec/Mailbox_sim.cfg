SPECIFICATION MCSpec
CONSTANTS
  Cap = 2
  N = 4
  MaxOther = 4
  Dev = {}
INVARIANTS Dump Ordered
CHECK_DEADLOCK FALSE
