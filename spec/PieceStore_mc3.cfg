\* 3 threads, 2 pieces, full alphabet, every initial condition
SPECIFICATION Spec
CONSTANTS
  t1 = t1  t2 = t2  t3 = t3  t4 = t4  t5 = t5
  Threads = {t1, t2, t3}
  NCh <- MCNCh2
  Avail <- MCAvail2
  Dev = {}
  Ops <- MCOpsFull
  InitConds <- MCInitAll
  InitNold <- MCNold0
  InitRanks <- MCRankId
SYMMETRY Symm
VIEW view
CHECK_DEADLOCK FALSE
INVARIANTS TypeOK CompleteIsHashed OnlyVerified BusyHasBuf NoUseAfterFree Accounting NoCrash BufferIffData DelReleasesAll ExpirePost
PROPERTIES NeverOverwritten DeletedLatched
