SPECIFICATION Spec
CONSTANTS
  Cap = 2
  N = 4
  MaxOther = 4
  Dev = {}
INVARIANTS TypeOK Ordered NoIdleBacklog
PROPERTIES AllArrive
CHECK_DEADLOCK FALSE
