SPECIFICATION Spec
CONSTANTS
  Replies <- MCReplies
  Elapsed <- MCElapsed
  MaxContacts = 2
VIEW view
ACTION_CONSTRAINT Emit
CHECK_DEADLOCK FALSE
