------------------------------ MODULE MCReader ------------------------------
EXTENDS Reader, Json
VARIABLE hist
MCSeeks == {-70000, -1, 0, 1, 5000, 32768, 60000, 200000}
MCSeeksSmall == {-1, 0, 5000, 60000, 200000}
MCInit == Init /\ hist = <<>>
MCNext == Next /\ UNCHANGED hist
MCSpec == MCInit /\ [][MCNext]_<<vars, hist>>
SimInit == Init /\ hist = <<[a |-> "Init", complete |-> complete]>>
SimNext == Next /\ hist' = Append(hist, last')
SimSpec == SimInit /\ [][SimNext]_<<vars, hist>>
Dump == (nops = MaxOps) => PrintT("BEH " \o ToJson(hist))
view == <<pos, complete, dead, cancelled, closed, nops>>
=============================================================================
