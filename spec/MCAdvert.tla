------------------------------ MODULE MCAdvert ------------------------------
EXTENDS Advert, Json
VARIABLE c
Ns == 1..17 \cup {24, 71, 72, 73, 144, 145, 160}
Init == c \in {[n |-> n, h |-> h, fast |-> f] : n \in Ns, h \in 1..7, f \in BOOLEAN}
HeldOf(x) == LET n == x.n IN
  CASE x.h = 1 -> {} [] x.h = 2 -> 0..(n - 1) [] x.h = 3 -> {0} [] x.h = 4 -> {n - 1}
    [] x.h = 5 -> (0..(n - 1)) \ {0} [] x.h = 6 -> {i \in 0..(n - 1) : i % 2 = 0} [] x.h = 7 -> {i \in 0..(n - 1) : i % 7 = 3}
Next == UNCHANGED c
Spec == Init /\ [][Next]_c
Good == Conformant(c.n, HeldOf(c), c.fast)
Emit == PrintT("CASE " \o ToJson([n |-> c.n, held |-> SeqOfSet(HeldOf(c)), fast |-> c.fast, adv |-> Advert(c.n, HeldOf(c), c.fast)]))
=============================================================================
