------------------------------- MODULE Mailbox -------------------------------
(***************************************************************************)
(* How a peer's events reach its torrent (peer/peer.go: writeEvent, the    *)
(* flush case of Run's select, the flush loop of Run's exit path).         *)
(*                                                                         *)
(* The torrent's mailbox is a bounded queue shared by all peers and the    *)
(* API.  A peer never blocks on it while it handles a message: when there  *)
(* is no room the event goes to the peer's private backlog, which the      *)
(* peer's loop pushes into the mailbox as soon as it is idle and there is  *)
(* room.  C09 depends on the torrent seeing one peer's events in the order *)
(* the peer produced them: a retraction (don't-have, changed bitfield, the *)
(* final retraction on exit) handled before the advertisement it retracts  *)
(* is dropped by the underflow guard, the advertisement then counts for    *)
(* ever, and the availability of the piece stays above zero with nobody    *)
(* connected.                                                              *)
(*                                                                         *)
(* Grain: BeginEmit is the peer's loop taking a message (it is then inside *)
(* a handler and does not flush); DoEmit is writeEvent.  When the peer is  *)
(* idle it is blocked in a select whose send case is ready whenever the    *)
(* backlog is not empty: room in the mailbox is taken at once (Settle) -   *)
(* the Go runtime hands a freed slot to a blocked sender inside the        *)
(* receive.  Other senders (other peers, the API) are OtherSend.           *)
(*                                                                         *)
(* Dev "mailbox_first": writeEvent tries the mailbox before looking at the *)
(* backlog, so a new event overtakes the events that wait there.           *)
(***************************************************************************)
EXTENDS Integers, Sequences, TLC

CONSTANTS Cap,      \* capacity of the mailbox
          N,        \* events the peer produces before it leaves (1..N); N+1, N+2 are the two events of its exit path
          MaxOther, \* fillers sent by others
          Dev

VARIABLES box, backlog, emitted, busy, closed, recv, others, last
vars == <<box, backlog, emitted, busy, closed, recv, others, last>>

Init == /\ box = <<>> /\ backlog = <<>> /\ emitted = 0 /\ busy = FALSE /\ closed = FALSE
        /\ recv = <<>> /\ others = 0 /\ last = [a |-> "Init"]

\* the idle peer pushes its backlog while there is room
RECURSIVE Settle(_, _)
Settle(b, bl) == IF bl # <<>> /\ Len(b) < Cap THEN Settle(Append(b, Head(bl)), Tail(bl)) ELSE <<b, bl>>

\* writeEvent
Write(b, bl, e) == IF (bl = <<>> \/ "mailbox_first" \in Dev) /\ Len(b) < Cap THEN <<Append(b, e), bl>> ELSE <<b, Append(bl, e)>>

Lab(a) == last' = [a |-> a, nbox |-> Len(box'), nbl |-> Len(backlog')]

BeginEmit == /\ ~busy /\ ~closed /\ emitted < N
             /\ busy' = TRUE
             /\ UNCHANGED <<box, backlog, emitted, closed, recv, others>> /\ Lab("BeginEmit")

DoEmit == /\ busy
          /\ LET w == Write(box, backlog, emitted + 1)
                 s == Settle(w[1], w[2])
             IN box' = s[1] /\ backlog' = s[2]
          /\ emitted' = emitted + 1 /\ busy' = FALSE
          /\ UNCHANGED <<closed, recv, others>> /\ Lab("DoEmit")

OtherSend == /\ others < MaxOther /\ Len(box) < Cap
             /\ box' = Append(box, 0) /\ others' = others + 1
             /\ UNCHANGED <<backlog, emitted, busy, closed, recv>> /\ Lab("OtherSend")

\* the torrent's loop takes the next event
Take == /\ box # <<>>
        /\ recv' = IF Head(box) = 0 THEN recv ELSE Append(recv, Head(box))
        /\ LET s == IF busy THEN <<Tail(box), backlog>> ELSE Settle(Tail(box), backlog)
           IN box' = s[1] /\ backlog' = s[2]
        /\ UNCHANGED <<emitted, busy, closed, others>> /\ Lab("Take")

\* the connection ends: the exit path writes its two events (the final retraction, then the farewell) and flushes
Close == /\ ~busy /\ ~closed /\ emitted = N
         /\ LET w1 == Write(box, backlog, N + 1)
                w2 == Write(w1[1], w1[2], N + 2)
                s  == Settle(w2[1], w2[2])
            IN box' = s[1] /\ backlog' = s[2]
         /\ closed' = TRUE
         /\ UNCHANGED <<emitted, busy, recv, others>> /\ Lab("Close")

Next == BeginEmit \/ DoEmit \/ OtherSend \/ Take \/ Close
Spec == Init /\ [][Next]_vars /\ WF_vars(Take) /\ WF_vars(DoEmit) /\ WF_vars(BeginEmit) /\ WF_vars(Close)

-----------------------------------------------------------------------------
TypeOK == Len(box) <= Cap /\ emitted \in 0..N
\* the torrent sees the peer's events in the order produced
Ordered == \A i, j \in 1..Len(recv) : i < j => recv[i] < recv[j]
\* nothing waits in the backlog while the idle peer could push it
NoIdleBacklog == (~busy /\ backlog # <<>>) => Len(box) = Cap
\* every event arrives, the farewell last
AllArrive == <>(Len(recv) = N + 2)
=============================================================================
