---------------------------- MODULE MCPieceStore ----------------------------
EXTENDS PieceStore

CONSTANTS t1, t2, t3, t4, t5

\* geometry: piece 0 has two chunks, piece 1 (the last one) a single short chunk
MCNCh2   == (0 :> 2) @@ (1 :> 1)
MCNCh3   == (0 :> 2) @@ (1 :> 2) @@ (2 :> 1)
MCAvail2 == (0 :> 1) @@ (1 :> 0)
MCAvail3 == (0 :> 0) @@ (1 :> 1) @@ (2 :> 0)

Op(k, i, c, n, q, sh) == [k |-> k, i |-> i, c |-> c, n |-> n, q |-> q, sh |-> sh]

AddOps  == {Op("add", i, c, n, q, "ok") : i \in Piece, c \in 0..1, n \in 1..2, q \in {"good", "bad"}}
AddOdd  == {Op("add", i, 0, 1, "good", sh) : i \in Piece, sh \in {"odd", "beyond", "short"}}
FinOps  == {Op("fin", i, 0, 0, q, "-") : i \in Piece, q \in {"right", "wrong"}}
ExpOps  == {Op("exp", 0, 0, n, "-", "-") : n \in 0..(NP-1)}
AgeOps  == {Op("age", 0, 0, 0, "-", "-")}
DelOps  == {Op("del", 0, 0, 0, "-", "-")}
ReadOps == {Op("read", i, c, 0, "-", "-") : i \in 0..NP, c \in 0..1}
TouchOps == {Op("touch", i, 0, 0, "-", "-") : i \in Piece}

\* the kernel refuses the buffer (mmap fails): only for pieces of 128 KiB or more, which are mapped
AddNoMem == {Op("add", 0, c, 1, "good", "nomem") : c \in 0..1}
\* the legal first chunk of a block is inside the piece
LegalAdd == {o \in AddOps : o.c \in Chunks(o.i)}
LegalRead == {o \in ReadOps : o.i = NP \/ o.c \in Chunks(o.i)}

MCOpsFull  == LegalAdd \cup AddOdd \cup FinOps \cup ExpOps \cup DelOps \cup LegalRead \cup TouchOps \cup AgeOps
\* reduced alphabet for the larger thread counts
MCOpsCore  == {o \in LegalAdd : o.n = 1 \/ o.c = 0} \cup {o \in FinOps : o.q = "right"}
              \cup {o \in ExpOps : o.n = 0} \cup DelOps \cup {o \in LegalRead : o.c = 0 /\ o.i # NP}

\* access-time alphabet: ageing, touching, evicting, reading
MCOpsLRU   == AgeOps \cup TouchOps \cup ExpOps \cup {o \in LegalRead : o.c = 0 /\ o.i # NP}

\* deletion racing with arrivals: one thread verifies piece 1 (full at the start), one deletes the torrent, one stores both
\* blocks of piece 0 and one verifies piece 0 - the deletion sweeps piece 0, waits for piece 1 to be hashed, and piece 0
\* arrives again meanwhile
RaceOp(t) == CASE t = t1 -> Op("fin", 1, 0, 0, "right", "-")
               [] t = t2 -> Op("del", 0, 0, 0, "-", "-")
               [] t = t3 -> Op("add", 0, 0, 2, "good", "ok")
               [] OTHER  -> Op("fin", 0, 0, 0, "right", "-")
MCOpsDelRace == {RaceOp(t) : t \in {t1, t2, t3, t4}}
RaceAssigned == \A t \in Threads : pc[t] # "idle" => op[t] = RaceOp(t)
MCInitRace == {"empty", "fullgood"}
MCOpsNoMem == {o \in AddNoMem : o.c \in Chunks(o.i)} \cup {o \in LegalAdd : o.n = 1 /\ o.q = "good"} \cup {o \in FinOps : o.q = "right"}
              \cup {o \in ExpOps : o.n = 0} \cup DelOps
MCInitAll  == {"empty", "partial", "fullgood", "fullbad", "complete"}
IdRank == [k \in 1..NP |-> k - 1]
MCRankId == {IdRank}
MCRankAll == {r \in [1..NP -> Piece] : \A a, b \in 1..NP : a # b => r[a] # r[b]}
MCNold0 == {0}
MCNoldAll == 0..NP
MCInitEmpty == {"empty"}
MCInitLRU  == {"partial", "complete"}
MCInitComplete == {"complete"}

Symm == Permutations({t1, t2, t3, t4, t5})

Fairness == \A t \in Threads : WF_vars(Step(t))
LiveSpec == Spec /\ Fairness
\* every started operation returns (Del's wait for the hasher ends)
Returns == \A t \in Threads : (pc[t] # "idle") ~> (pc[t] = "done")
=============================================================================
