SPECIFICATION Spec
CONSTANTS
  WCap = 4
  MaxQ = 3
  Dev = {}
INVARIANTS ChokedHasNoQueue CounterMatches NoStaleService
CHECK_DEADLOCK FALSE
