-------------------------------- MODULE Sched --------------------------------
(***************************************************************************)
(* Scheduler bookkeeping (tor/tor.go handleEvent + request, peer/peer.go   *)
(* handleEvent/handleMessage/expireRequests).  C09: once events in transit *)
(* have been processed, inFlight[c] = number of peers (and web seeds)      *)
(* still holding a request for block c, and available[i] = number of       *)
(* connected peers advertising piece i.                                    *)
(*                                                                         *)
(* Each mailbox is explicit: peerQ[p] (torrent -> peer commands) and       *)
(* torQ[p] (peer -> torrent events); a handler invocation consumes one     *)
(* entry.  Geometry: Chunks 0..NC-1, PieceOf[c]; the last chunk is shorter *)
(* than 16 KiB.                                                            *)
(*                                                                         *)
(* maybeRequest's pipelining decision depends on rate estimates: it is     *)
(* nondeterministic here (any prefix of the queue may be sent).            *)
(*                                                                         *)
(* Dev (as-shipped deviations):                                            *)
(*   "floor"  TorData/TorDrop release Length div 16384 blocks (a short     *)
(*            last block releases none)                                    *)
(*   "empty"  an empty Piece removes the request and reports TorData{0}    *)
(*   "overlong" a Piece longer than the requested block is stored and      *)
(*            releases the neighbouring block as well                      *)
(***************************************************************************)
EXTENDS Integers, Sequences, FiniteSets, TLC

CONSTANTS Peers, NC, PieceOf, Dev, MaxMsgs, MaxReqs

Chunk == 0 .. (NC - 1)
Piece == {PieceOf[c] : c \in Chunk}
LastChunk == NC - 1
ChunksOf(i) == {c \in Chunk : PieceOf[c] = i}

VARIABLES inFlight, avail, torQ, peerQ,
          pb, pbnil, unch, fast, canFast, q, r,      \* per peer
          store, pcomplete,
          nmsg, nreq, last

vars == <<inFlight, avail, torQ, peerQ, pb, pbnil, unch, fast, canFast, q, r, store, pcomplete, nmsg, nreq, last>>

Init ==
  /\ inFlight = [c \in Chunk |-> 0] /\ avail = [i \in Piece |-> 0]
  /\ torQ = [p \in Peers |-> <<>>] /\ peerQ = [p \in Peers |-> <<>>]
  /\ pb = [p \in Peers |-> {}] /\ pbnil = [p \in Peers |-> TRUE]
  /\ unch = [p \in Peers |-> FALSE] /\ fast = [p \in Peers |-> {}]
  /\ canFast \in [Peers -> BOOLEAN]
  /\ q = [p \in Peers |-> <<>>] /\ r = [p \in Peers |-> {}]
  /\ store = {} /\ pcomplete = {}
  /\ nmsg = 0 /\ nreq = 0 /\ last = [a |-> "Init"]

Held(p) == {q[p][k] : k \in 1..Len(q[p])} \cup {x.c : x \in r[p]}
SeqOf(S) == CHOOSE s \in [1..Cardinality(S) -> S] : \A a, b \in 1..Cardinality(S) : a # b => s[a] # s[b]
ToTor(p, evs) == torQ' = [torQ EXCEPT ![p] = @ \o evs]
Drops(cs) == [k \in 1..Len(cs) |-> [k |-> "drop", c |-> cs[k]]]

-----------------------------------------------------------------------------
(* torrent side *)

\* request(t, p, S): maybeWritePeer(PeerRequest); on success every chunk is counted
TorRequest(p, S) ==
  /\ nreq < MaxReqs /\ S # {}
  /\ \A c \in S : inFlight[c] < 3
  /\ peerQ' = [peerQ EXCEPT ![p] = Append(@, [k |-> "request", cs |-> SeqOf(S)])]
  /\ inFlight' = [c \in Chunk |-> IF c \in S THEN inFlight[c] + 1 ELSE inFlight[c]]
  /\ nreq' = nreq + 1
  /\ last' = [a |-> "TorRequest", p |-> p, cs |-> SeqOf(S)]
  /\ UNCHANGED <<avail, torQ, pb, pbnil, unch, fast, canFast, q, r, store, pcomplete, nmsg>>

Dec(f, S) == [c \in Chunk |-> IF c \in S /\ f[c] > 0 THEN f[c] - 1 ELSE f[c]]

\* handleEvent for the head of torQ[p]
TorHandle(p) ==
  /\ torQ[p] # <<>>
  /\ LET e == Head(torQ[p]) IN
     /\ torQ' = [torQ EXCEPT ![p] = Tail(@)]
     /\ last' = [a |-> "TorHandle", p |-> p, e |-> e.k]
     /\ CASE e.k = "data" ->
               \* blocks covered by the data: e.c .. e.c+e.n-1 (e.n = 0 for an empty
               \* block, or, with "floor", for a short last block)
               LET n == IF "floor" \in Dev /\ e.short THEN e.n - 1 ELSE e.n
                   S == {c \in Chunk : c >= e.c /\ c < e.c + n}
                   nf == Dec(inFlight, S)
                   \* a block still in flight elsewhere is cancelled at the other peers
                   others == [o \in Peers |-> IF o = p THEN <<>>
                                 ELSE [k \in 1..Cardinality({c \in S : nf[c] > 0}) |->
                                        [k |-> "cancel", c |-> SeqOf({c \in S : nf[c] > 0})[k]]]]
                   \* a completed piece is hashed and announced to every peer
                   done == IF e.complete THEN {PieceOf[e.c]} ELSE {}
               IN /\ inFlight' = nf
                  /\ pcomplete' = pcomplete \cup done
                  /\ peerQ' = [o \in Peers |-> peerQ[o] \o others[o] \o
                                 (IF e.complete THEN <<[k |-> "have", i |-> PieceOf[e.c]]>> ELSE <<>>)]
                  /\ UNCHANGED avail
          [] e.k = "drop" ->
               /\ inFlight' = Dec(inFlight, {e.c})
               /\ UNCHANGED <<avail, peerQ, pcomplete>>
          [] e.k = "bitmap" ->
               /\ avail' = [i \in Piece |-> IF i \in e.s
                                THEN (IF e.add THEN avail[i] + 1 ELSE IF avail[i] > 0 THEN avail[i] - 1 ELSE 0)
                                ELSE avail[i]]
               /\ UNCHANGED <<inFlight, peerQ, pcomplete>>
          [] e.k = "have" ->
               /\ avail' = [avail EXCEPT ![e.i] = IF e.add THEN @ + 1 ELSE IF @ > 0 THEN @ - 1 ELSE 0]
               /\ UNCHANGED <<inFlight, peerQ, pcomplete>>
          [] OTHER -> UNCHANGED <<inFlight, avail, peerQ, pcomplete>>
  /\ UNCHANGED <<pb, pbnil, unch, fast, canFast, q, r, store, nmsg, nreq>>

-----------------------------------------------------------------------------
(* peer side *)

\* maybeRequest: some prefix of the queue is sent (if unchoked or the piece is
\* allowed-fast and advertised, else the entry is dropped)
Sendable(p, c) == (unch[p] \/ PieceOf[c] \in fast[p]) /\ PieceOf[c] \in pb[p]
MayRequest(p, nq, nr, k) ==   \* result of processing the first k entries of nq
  LET pre  == SubSeq(nq, 1, k)
      sent == {pre[j] : j \in {j \in 1..k : Sendable(p, pre[j])}}
      drp  == SelectSeq(pre, LAMBDA c : ~Sendable(p, c))
  IN [q |-> SubSeq(nq, k + 1, Len(nq)), r |-> nr \cup {[c |-> c, canc |-> FALSE] : c \in sent}, drops |-> Drops(drp)]
CanMaybe(p) == unch[p] \/ fast[p] # {}

\* handleEvent for the head of peerQ[p]
PeerEvent(p) ==
  /\ peerQ[p] # <<>>
  /\ LET e == Head(peerQ[p]) IN
     /\ peerQ' = [peerQ EXCEPT ![p] = Tail(@)]
     /\ last' = [a |-> "PeerEvent", p |-> p, e |-> e.k]
     /\ CASE e.k = "request" ->
               \* enqueue what is advertised and not a duplicate, drop the rest; then maybeRequest
               LET ok(c)  == PieceOf[c] \in pb[p]
                   F[k \in 0..Len(e.cs)] ==
                     IF k = 0 THEN [q |-> q[p], d |-> <<>>]
                     ELSE LET c == e.cs[k] prev == F[k - 1]
                              dup == c \in {prev.q[j] : j \in 1..Len(prev.q)} \cup {x.c : x \in r[p]}
                          IN IF ok(c) /\ ~dup THEN [q |-> Append(prev.q, c), d |-> prev.d]
                             ELSE [q |-> prev.q, d |-> Append(prev.d, c)]
                   res == F[Len(e.cs)]
               IN IF CanMaybe(p)
                    THEN \E k \in 0..Len(res.q) :
                           LET m == MayRequest(p, res.q, r[p], k) IN
                           /\ q' = [q EXCEPT ![p] = m.q] /\ r' = [r EXCEPT ![p] = m.r]
                           /\ ToTor(p, Drops(res.d) \o m.drops)
                    ELSE /\ q' = [q EXCEPT ![p] = res.q] /\ UNCHANGED r
                         /\ ToTor(p, Drops(res.d))
          [] e.k = "cancel" ->
               \* sent and not yet cancelled: mark (and send Cancel); queued: remove and drop
               IF \E x \in r[p] : x.c = e.c THEN
                    /\ r' = [r EXCEPT ![p] = {IF x.c = e.c THEN [x EXCEPT !.canc = TRUE] ELSE x : x \in @}]
                    /\ UNCHANGED <<q, torQ>>
               ELSE IF e.c \in {q[p][j] : j \in 1..Len(q[p])} THEN
                    /\ q' = [q EXCEPT ![p] = SelectSeq(@, LAMBDA c : c # e.c)]
                    /\ ToTor(p, Drops(<<e.c>>)) /\ UNCHANGED r
               ELSE UNCHANGED <<q, r, torQ>>
          [] OTHER -> UNCHANGED <<q, r, torQ>>      \* "have": only a Have on the wire
  /\ UNCHANGED <<inFlight, avail, pb, pbnil, unch, fast, canFast, store, pcomplete, nmsg, nreq>>

\* a message from the remote peer
Msg(p, m) ==
  /\ nmsg < MaxMsgs
  /\ nmsg' = nmsg + 1
  /\ last' = [a |-> "Msg", p |-> p, m |-> m]
  /\ UNCHANGED <<inFlight, avail, peerQ, canFast, pcomplete, nreq>>
  /\ CASE m.k = "unchoke" ->
            /\ unch' = [unch EXCEPT ![p] = TRUE]
            /\ UNCHANGED <<pb, pbnil, fast, q, r, store, torQ>>
       [] m.k = "choke" ->
            \* Clear(!canFast): queued requests are dropped, sent ones too unless the
            \* peer has the fast extension (it will reject them explicitly)
            /\ unch' = [unch EXCEPT ![p] = FALSE]
            \* Dev "choke_forgets_fast": a peer that has the fast extension but has allowed nothing fast is treated like one
            \* without it - the sent requests are forgotten (and released), although the remote still holds them
            /\ LET keeps == canFast[p] /\ ~("choke_forgets_fast" \in Dev /\ fast[p] = {})
                   keep == IF keeps THEN r[p] ELSE {}
                   gone == IF keeps THEN <<>> ELSE SeqOf({x.c : x \in r[p]})
               IN /\ r' = [r EXCEPT ![p] = keep] /\ q' = [q EXCEPT ![p] = <<>>]
                  /\ ToTor(p, Drops(gone \o q[p]))
            /\ UNCHANGED <<pb, pbnil, fast, store>>
       [] m.k = "have" ->
            /\ IF m.i \in pb[p] THEN UNCHANGED <<pb, pbnil, torQ>>
               ELSE /\ pb' = [pb EXCEPT ![p] = @ \cup {m.i}] /\ pbnil' = [pbnil EXCEPT ![p] = FALSE]
                    /\ ToTor(p, <<[k |-> "have", i |-> m.i, add |-> TRUE]>>)
            /\ UNCHANGED <<unch, fast, q, r, store>>
       [] m.k = "donthave" ->
            /\ IF m.i \notin pb[p] THEN UNCHANGED <<pb, torQ>>
               ELSE /\ pb' = [pb EXCEPT ![p] = @ \ {m.i}]
                    /\ ToTor(p, <<[k |-> "have", i |-> m.i, add |-> FALSE]>>)
            /\ UNCHANGED <<pbnil, unch, fast, q, r, store>>
       [] m.k \in {"bitfield", "haveall"} ->
            /\ m.k = "haveall" => canFast[p]
            /\ LET s == IF m.k = "haveall" THEN Piece ELSE m.s IN
               /\ pb' = [pb EXCEPT ![p] = s] /\ pbnil' = [pbnil EXCEPT ![p] = FALSE]
               /\ ToTor(p, (IF pbnil[p] THEN <<>> ELSE <<[k |-> "bitmap", s |-> pb[p], add |-> FALSE]>>)
                           \o <<[k |-> "bitmap", s |-> s, add |-> TRUE]>>)
            /\ UNCHANGED <<unch, fast, q, r, store>>
       [] m.k = "havenone" ->
            /\ canFast[p]
            /\ pb' = [pb EXCEPT ![p] = {}] /\ pbnil' = [pbnil EXCEPT ![p] = TRUE]
            /\ ToTor(p, IF pbnil[p] THEN <<>> ELSE <<[k |-> "bitmap", s |-> pb[p], add |-> FALSE]>>)
            /\ UNCHANGED <<unch, fast, q, r, store>>
       [] m.k = "allowedfast" ->
            /\ canFast[p]
            /\ fast' = [fast EXCEPT ![p] = @ \cup {m.i}]
            /\ UNCHANGED <<pb, pbnil, unch, q, r, store, torQ>>
       [] m.k = "reject" ->
            /\ canFast[p]
            /\ IF \E x \in r[p] : x.c = m.c
                 THEN /\ r' = [r EXCEPT ![p] = {x \in @ : x.c # m.c}] /\ ToTor(p, Drops(<<m.c>>))
                 ELSE UNCHANGED <<r, torQ>>
            /\ UNCHANGED <<pb, pbnil, unch, fast, q, store>>
       [] m.k = "wild" ->
            \* a block whose piece index is far out of range (2^32-1): refused, nothing changes
            UNCHANGED <<pb, pbnil, unch, fast, q, r, store, torQ>>
       [] m.k = "piece" ->
            \* m.c: block addressed; m.pl: payload class
            /\ IF m.c \notin Held(p) THEN UNCHANGED <<q, r, store, torQ>>     \* unsolicited: ignored
               ELSE
                 /\ q' = [q EXCEPT ![p] = SelectSeq(@, LAMBDA c : c # m.c)]
                 /\ r' = [r EXCEPT ![p] = {x \in @ : x.c # m.c}]
                 /\ LET i == PieceOf[m.c]
                        stored(n) == {c \in ChunksOf(i) : c >= m.c /\ c < m.c + n}
                        fits == i \notin pcomplete
                    IN
                    CASE m.pl = "exact" /\ fits ->
                           LET ns == store \cup stored(1) IN
                           /\ store' = ns
                           /\ ToTor(p, <<[k |-> "data", c |-> m.c, n |-> 1, short |-> (m.c = LastChunk),
                                          complete |-> (ChunksOf(i) \subseteq ns)]>>)
                      [] m.pl = "overlong" /\ "overlong" \in Dev /\ fits /\ m.c + 1 \in ChunksOf(i) ->
                           \* two blocks' worth of data inside the piece: both are stored and released
                           LET ns == store \cup stored(2) IN
                           /\ store' = ns
                           /\ ToTor(p, <<[k |-> "data", c |-> m.c, n |-> 2, short |-> (m.c + 1 = LastChunk),
                                          complete |-> (ChunksOf(i) \subseteq ns)]>>)
                      [] m.pl = "empty" /\ "empty" \in Dev ->
                           /\ ToTor(p, <<[k |-> "data", c |-> m.c, n |-> 0, short |-> FALSE, complete |-> FALSE]>>)
                           /\ UNCHANGED store
                      [] OTHER ->     \* short, empty, misaligned, for a complete piece, spilling over the piece end
                           \* Dev "late_dup_silent": a good block for a piece that is complete by now is released by nobody
                           IF "late_dup_silent" \in Dev /\ m.pl = "exact" /\ ~fits
                             THEN UNCHANGED <<store, torQ>>
                             ELSE ToTor(p, Drops(<<m.c>>)) /\ UNCHANGED store
            /\ UNCHANGED <<pb, pbnil, unch, fast>>

\* expireRequests after more than 30 s: sent requests are cancelled (Cancel on the
\* wire), cancelled ones are dropped after their time-out
Tick(p) ==
  /\ r[p] # {}
  /\ LET gone == {x \in r[p] : x.canc} IN
     /\ r' = [r EXCEPT ![p] = {[x EXCEPT !.canc = TRUE] : x \in (@ \ gone)}]
     /\ ToTor(p, Drops(SeqOf({x.c : x \in gone})))
  /\ last' = [a |-> "Tick", p |-> p]
  /\ UNCHANGED <<inFlight, avail, peerQ, pb, pbnil, unch, fast, canFast, q, store, pcomplete, nmsg, nreq>>

\* maybeRequest on its own (after a Piece, a Reject, a tick)
Pump(p) ==
  /\ CanMaybe(p) /\ q[p] # <<>>
  /\ \E k \in 1..Len(q[p]) :
       LET m == MayRequest(p, q[p], r[p], k) IN
       /\ q' = [q EXCEPT ![p] = m.q] /\ r' = [r EXCEPT ![p] = m.r] /\ ToTor(p, m.drops)
  /\ last' = [a |-> "Pump", p |-> p]
  /\ UNCHANGED <<inFlight, avail, peerQ, pb, pbnil, unch, fast, canFast, store, pcomplete, nmsg, nreq>>

Msgs == {[k |-> n] : n \in {"unchoke", "choke", "haveall", "havenone", "wild"}}
        \cup {[k |-> n, i |-> i] : n \in {"have", "donthave", "allowedfast"}, i \in Piece}
        \cup {[k |-> "bitfield", s |-> s] : s \in SUBSET Piece}
        \cup {[k |-> "reject", c |-> c] : c \in Chunk}
        \cup {[k |-> "piece", c |-> c, pl |-> pl] : c \in Chunk, pl \in {"exact", "short", "empty", "overlong", "misaligned"}}

Next == \E p \in Peers :
          \/ \E S \in SUBSET Chunk : TorRequest(p, S)
          \/ TorHandle(p) \/ PeerEvent(p) \/ Tick(p) \/ Pump(p)
          \/ \E m \in Msgs : Msg(p, m)

Spec == Init /\ [][Next]_vars

-----------------------------------------------------------------------------
Quiescent == \A p \in Peers : torQ[p] = <<>> /\ peerQ[p] = <<>>
Conservation == Quiescent => \A c \in Chunk : inFlight[c] = Cardinality({p \in Peers : c \in Held(p)})
Availability == Quiescent => \A i \in Piece : avail[i] = Cardinality({p \in Peers : i \in pb[p]})
=============================================================================
