------------------------------ MODULE MCWebseed ------------------------------
EXTENDS Webseed, Json
\* part 1 cases: file lengths in units of 8 KiB; a block is 2 units, a piece 4 units
VARIABLE cs
LensSet == {<<a>> : a \in {1, 3, 5, 9}} \cup {<<a, b>> : a \in {0, 1, 2, 3, 5}, b \in {0, 1, 3, 5}}
           \cup {<<a, b, c>> : a \in {1, 2, 5}, b \in {0, 1, 3}, c \in {1, 2, 5}}
           \cup {<<2, 1, 0, 3>>, <<1, 1, 1, 1>>, <<5, 0, 0, 1>>, <<3, 3, 2, 4>>}
Total(lens) == LET F[k \in 0..Len(lens)] == IF k = 0 THEN 0 ELSE F[k - 1] + lens[k] IN F[Len(lens)]
\* ranges: start on a block boundary inside a piece, whole blocks (or up to the end of the torrent)
Ranges(lens) == {<<o, l>> \in (0..Total(lens)) \X (1..4) :
                   /\ o % 2 = 0 /\ o < Total(lens)
                   /\ (l % 2 = 0 \/ o + l = Total(lens)) /\ o + l <= Total(lens)
                   /\ (o \div 4) = ((o + l - 1) \div 4)}
FInit == cs \in {[lens |-> ls, o |-> r[1], l |-> r[2]] : ls \in LensSet, r \in (0..20) \X (1..4)} /\ <<cs.o, cs.l>> \in Ranges(cs.lens)
FNext == UNCHANGED cs
FSpec == FInit /\ WInit /\ [][FNext /\ UNCHANGED wvars]_<<cs, wvars>>
WSpecMC == WInit /\ cs = [lens |-> <<1>>, o |-> 0, l |-> 1] /\ [][WNext /\ UNCHANGED cs]_<<wvars, cs>>
Good == Tiles(cs.lens, cs.o, cs.l)
Emit == PrintT("CASE " \o ToJson([lens |-> cs.lens, o |-> cs.o, l |-> cs.l, chunks |-> FileChunks(cs.lens, cs.o, cs.l)]))
=============================================================================
