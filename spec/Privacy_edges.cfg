SPECIFICATION Spec
CONSTANTS
  PxOk = TRUE
INVARIANTS TypeOK PrivacyInv WantedOnlyWhenOff
VIEW view
ACTION_CONSTRAINT Emit
CHECK_DEADLOCK FALSE
