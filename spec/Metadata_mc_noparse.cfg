SPECIFICATION Spec
CONSTANTS
  TrueSize = 5000
  ParseOK = FALSE
  Sizes <- MCSizes
  MaxVotes = 2
  Dev = {}
VIEW view
INVARIANTS Authentic InBounds CleanFullIsComplete
PROPERTIES HonestAccepted
CHECK_DEADLOCK FALSE
