-------------------------------- MODULE MCPex --------------------------------
EXTENDS Pex, Json
StateRec == [pending |-> pending, pendingDel |-> pendingDel, sent |-> sent, told |-> told, present |-> present]
Emit == PrintT("EDGE " \o ToJson([f |-> StateRec, a |-> last', t |-> StateRec']))
view == <<pending, pendingDel, sent, told, present, bad>>
=============================================================================
