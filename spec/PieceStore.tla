---------------------------- MODULE PieceStore ----------------------------
(***************************************************************************)
(* The in-RAM piece store of storrent (tor/piece/piece.go).                *)
(*                                                                         *)
(* One action per critical section of the Go code; every place where the  *)
(* code releases ps.mu (or has not taken it yet) is a separate step, and   *)
(* corresponds one-to-one to a verifYield() point in piece.go:             *)
(*                                                                         *)
(*   AddData.lock    between the unlocked pre-check and Lock()  -> AddCrit *)
(*   Finalise.lock   idem for Finalise                          -> FinLock *)
(*   Finalise.hash   busy, lock released, before SHA-1          -> FinHash *)
(*   Finalise.relock SHA-1 computed, before Lock()              -> FinCommit*)
(*   Expire.bytes    snapshot+sort done, before Bytes()         -> ExpBytes*)
(*   Expire.piece    before Lock() for each candidate           -> ExpOne  *)
(*   del.wait        forced del met a busy piece, lock released -> DelWake *)
(*   del.relock      saw the piece not busy, before Lock()      -> DelRelock*)
(*                                                                         *)
(* Content is abstract: each 16 KiB slot of a buffer holds "none" (never   *)
(* written since allocation), "good" (true torrent content at that offset) *)
(* or "bad".  SHA-1 is trusted: the digest equals the metainfo hash iff    *)
(* every chunk is "good" and the caller passed the right hash.             *)
(*                                                                         *)
(* The specification describes the REPAIRED code.  The behaviour of the    *)
(* tree as shipped is obtained by putting deviation names into Dev:        *)
(*   "del_norecheck"  del() does not re-check data==nil after its wait     *)
(*   "deleted_last"   Del() latches `deleted` after the sweep, not before  *)
(***************************************************************************)
EXTENDS Integers, Sequences, FiniteSets, TLC

CONSTANTS Threads,    \* set of thread identifiers
          NCh,        \* [Piece -> number of chunks]; Piece = 0..NP-1
          Avail,      \* [Piece -> 0..1] availability passed to Expire
          Dev,        \* enabled as-shipped deviations
          Ops,        \* set of operation records threads may perform
          InitConds,  \* allowed initial condition of a piece
          InitNold,   \* allowed initial numbers of pieces idle for >= 2 h
          InitRanks   \* allowed initial access orders (sequences of pieces)

Piece     == DOMAIN NCh
NP        == Cardinality(Piece)
Chunks(i) == 0 .. (NCh[i] - 1)

VARIABLES pstate,   \* [Piece -> {"none","busy","complete"}]
          hasbuf,   \* [Piece -> BOOLEAN]            data # nil
          cont,     \* [Piece -> [Chunks -> {"none","good","bad"}]]  bitmap+content
          deleted,  \* BOOLEAN
          count,    \* Int  ps.count
          rank,     \* Seq(Piece) oldest access time first
          nold,     \* the first nold pieces of rank were last accessed >= 2 h ago
          pc, op, loc, ret,   \* per thread
          uaf,      \* a hasher or reader touched a freed buffer
          crashed,  \* panic("Negative pieces count")
          last      \* label of the last step (not part of the VIEW)

vars  == <<pstate, hasbuf, cont, deleted, count, rank, nold, pc, op, loc, ret, uaf, crashed, last>>
view  == <<pstate, hasbuf, cont, deleted, count, rank, nold, pc, op, loc, ret, uaf, crashed>>

NoOp  == [k |-> "-", i |-> 0, c |-> 0, n |-> 0, q |-> "-", sh |-> "-"]
NoLoc == [i |-> 0, order |-> <<>>, pos |-> 0, todo |-> 0, ok |-> FALSE, ev |-> <<>>, cb |-> <<>>]
NoRet == [n |-> 0, b |-> FALSE, err |-> "-", qs |-> {}, ev |-> <<>>, cb |-> <<>>]

Min(S) == CHOOSE x \in S : \A y \in S : x <= y
Full(i)    == \A c \in Chunks(i) : cont[i][c] # "none"
AllGood(i) == \A c \in Chunks(i) : cont[i][c] = "good"
Empty(i)   == [c \in Chunks(i) |-> "none"]

CondState(cnd) == IF cnd = "complete" THEN "complete" ELSE "none"
CondBuf(cnd)   == cnd # "empty"
CondCont(i, cnd) ==
  [c \in Chunks(i) |->
     CASE cnd = "empty"    -> "none"
       [] cnd = "partial"  -> IF c = 0 /\ NCh[i] > 1 THEN "good" ELSE "none"
       [] cnd = "fullgood" -> "good"
       [] cnd = "fullbad"  -> IF c = 0 THEN "bad" ELSE "good"
       [] cnd = "complete" -> "good"]

Init ==
  \E cnd \in [Piece -> InitConds], no \in InitNold, rk \in InitRanks :
    /\ pstate  = [i \in Piece |-> CondState(cnd[i])]
    /\ hasbuf  = [i \in Piece |-> CondBuf(cnd[i])]
    /\ cont    = [i \in Piece |-> CondCont(i, cnd[i])]
    /\ deleted = FALSE
    /\ count   = Cardinality({i \in Piece : CondBuf(cnd[i])})
    /\ rank    = rk
    /\ nold    = no
    /\ pc      = [t \in Threads |-> "idle"]
    /\ op      = [t \in Threads |-> NoOp]
    /\ loc     = [t \in Threads |-> NoLoc]
    /\ ret     = [t \in Threads |-> NoRet]
    /\ uaf     = FALSE
    /\ crashed = FALSE
    /\ last    = [t |-> "-", a |-> "Init"]

-----------------------------------------------------------------------------
(* helpers *)

Lab(t, a) == last' = [t |-> t, a |-> a]

Finish(t, r) ==
  /\ pc'  = [pc EXCEPT ![t] = "done"]
  /\ ret' = [ret EXCEPT ![t] = r]

Goto(t, l) ==
  /\ pc'  = [pc EXCEPT ![t] = l]
  /\ UNCHANGED ret

\* effect of freeing the buffers of the (non-busy) pieces in S, with
\* `extra' spurious decrements of ps.count
FreeSet(S, extra) ==
  /\ hasbuf' = [j \in Piece |-> IF j \in S THEN FALSE ELSE hasbuf[j]]
  /\ cont'   = [j \in Piece |-> IF j \in S THEN Empty(j) ELSE cont[j]]
  /\ pstate' = [j \in Piece |-> IF j \in S THEN "none" ELSE pstate[j]]
  /\ count'  = count - Cardinality(S) - extra
  /\ crashed' = (crashed \/ count - Cardinality(S) - extra < 0)

NoFree == UNCHANGED <<hasbuf, cont, pstate, count, crashed>>

-----------------------------------------------------------------------------
(* AddData(index, begin, data) *)

AddBegin(t, o) ==
  /\ o.k = "add" /\ pc[t] = "idle"
  /\ op' = [op EXCEPT ![t] = o]
  /\ IF pstate[o.i] # "none"
       THEN Finish(t, NoRet)                 \* unlocked pre-check
       ELSE Goto(t, "AddCrit")
  /\ UNCHANGED <<pstate, hasbuf, cont, deleted, count, rank, nold, loc, uaf, crashed>>
  /\ Lab(t, "AddBegin")

\* chunks that a block starting at chunk c0 and spanning n chunk lengths covers
Covered(i, c0, n) == {c \in Chunks(i) : c >= c0 /\ c < c0 + n}

AddCrit(t) ==
  /\ pc[t] = "AddCrit"
  /\ LET o == op[t] i == o.i IN
     IF pstate[i] # "none" THEN               \* re-check under the lock
        /\ Finish(t, NoRet)
        /\ UNCHANGED <<hasbuf, cont, count>>
     ELSE IF deleted THEN
        /\ Finish(t, [NoRet EXCEPT !.err = "deleted"])
        /\ UNCHANGED <<hasbuf, cont, count>>
     ELSE IF o.sh = "odd" THEN
        /\ Finish(t, [NoRet EXCEPT !.err = "odd"])
        /\ UNCHANGED <<hasbuf, cont, count>>
     ELSE IF o.sh = "beyond" THEN
        /\ Finish(t, [NoRet EXCEPT !.err = "beyond"])
        /\ UNCHANGED <<hasbuf, cont, count>>
     ELSE IF o.sh = "nomem" /\ ~hasbuf[i] THEN    \* the piece needs a buffer and the allocation is refused: nothing changes
        /\ Finish(t, [NoRet EXCEPT !.err = "nomem"])
        /\ UNCHANGED <<hasbuf, cont, count>>
     ELSE
        LET cov   == IF o.sh = "short" THEN {} ELSE Covered(i, o.c, o.n)
            ncont == [c \in Chunks(i) |->
                        IF c \in cov /\ cont[i][c] = "none" THEN o.q ELSE cont[i][c]]
        IN
        /\ hasbuf' = [hasbuf EXCEPT ![i] = TRUE]
        /\ count'  = IF hasbuf[i] THEN count ELSE count + 1
        /\ cont'   = [cont EXCEPT ![i] = ncont]
        /\ Finish(t, [NoRet EXCEPT !.n = Cardinality(cov),
                                   !.b = \A c \in Chunks(i) : ncont[c] # "none"])
  /\ UNCHANGED <<pstate, deleted, rank, nold, op, loc, uaf, crashed>>
  /\ Lab(t, "AddCrit")

-----------------------------------------------------------------------------
(* Finalise(index, hash) *)

FinBegin(t, o) ==
  /\ o.k = "fin" /\ pc[t] = "idle"
  /\ op' = [op EXCEPT ![t] = o]
  /\ IF pstate[o.i] # "none"
       THEN Finish(t, NoRet)
       ELSE Goto(t, "FinLock")
  /\ UNCHANGED <<pstate, hasbuf, cont, deleted, count, rank, nold, loc, uaf, crashed>>
  /\ Lab(t, "FinBegin")

FinLock(t) ==
  /\ pc[t] = "FinLock"
  /\ LET i == op[t].i IN
     IF pstate[i] # "none" THEN
        /\ Finish(t, NoRet) /\ UNCHANGED pstate
     ELSE IF deleted THEN
        /\ Finish(t, [NoRet EXCEPT !.err = "deleted"]) /\ UNCHANGED pstate
     ELSE IF ~Full(i) THEN
        /\ Finish(t, NoRet) /\ UNCHANGED pstate
     ELSE
        /\ pstate' = [pstate EXCEPT ![i] = "busy"]
        /\ Goto(t, "FinHash")
  /\ UNCHANGED <<hasbuf, cont, deleted, count, rank, nold, op, loc, uaf, crashed>>
  /\ Lab(t, "FinLock")

FinHash(t) ==               \* SHA-1 over the captured buffer, no lock held
  /\ pc[t] = "FinHash"
  /\ LET i == op[t].i IN
     /\ loc' = [loc EXCEPT ![t] = [NoLoc EXCEPT !.ok = (AllGood(i) /\ op[t].q = "right")]]
     /\ uaf' = (uaf \/ ~hasbuf[i])
  /\ Goto(t, "FinCommit")
  /\ UNCHANGED <<pstate, hasbuf, cont, deleted, count, rank, nold, op, crashed>>
  /\ Lab(t, "FinHash")

FinCommit(t) ==
  /\ pc[t] = "FinCommit"
  /\ LET i == op[t].i IN
     IF loc[t].ok THEN
        /\ pstate' = [pstate EXCEPT ![i] = "complete"]
        /\ UNCHANGED <<hasbuf, cont, count, crashed>>
        /\ Finish(t, [NoRet EXCEPT !.b = TRUE])
     ELSE   \* busy -> 0, then del(index, true): not busy any more, frees at once
        /\ IF hasbuf[i] THEN FreeSet({i}, 0)
           ELSE /\ pstate' = [pstate EXCEPT ![i] = "none"]
                /\ UNCHANGED <<hasbuf, cont, count, crashed>>
        /\ Finish(t, [NoRet EXCEPT !.err = "mismatch"])
  /\ UNCHANGED <<deleted, rank, nold, op, loc, uaf>>
  /\ Lab(t, "FinCommit")

-----------------------------------------------------------------------------
(* Expire(bytes, available, f):  o.n = target in pieces.  Pieces whose age *)
(* is >= 2 h come first, commonest first; then least recently used first.  *)

OldPart(k)   == SubSeq(rank, 1, k)
YoungPart(k) == SubSeq(rank, k + 1, NP)
Order(k) == SelectSeq(OldPart(k), LAMBDA i : Avail[i] = 1) \o
            SelectSeq(OldPart(k), LAMBDA i : Avail[i] = 0) \o YoungPart(k)

ExpBegin(t, o) ==           \* snapshot of the access times, sort
  /\ o.k = "exp" /\ pc[t] = "idle"
  /\ op'  = [op EXCEPT ![t] = o]
  /\ loc' = [loc EXCEPT ![t] = [NoLoc EXCEPT !.order = Order(nold)]]
  /\ Goto(t, "ExpBytes")
  /\ UNCHANGED <<pstate, hasbuf, cont, deleted, count, rank, nold, uaf, crashed>>
  /\ Lab(t, "ExpBegin")

ExpBytes(t) ==              \* todo := ps.Bytes() - bytes
  /\ pc[t] = "ExpBytes"
  /\ LET todo == count - op[t].n IN
     /\ loc' = [loc EXCEPT ![t].todo = todo, ![t].pos = 1]
     /\ IF todo <= 0 THEN Finish(t, NoRet) ELSE Goto(t, "ExpOne")
  /\ UNCHANGED <<pstate, hasbuf, cont, deleted, count, rank, nold, op, uaf, crashed>>
  /\ Lab(t, "ExpBytes")

ExpOne(t) ==                \* Lock; del(index, false); Unlock; callback
  /\ pc[t] = "ExpOne"
  /\ LET l    == loc[t]
         i    == l.order[l.pos]
         can  == hasbuf[i] /\ pstate[i] # "busy"
         cmpl == pstate[i] = "complete"
         nev  == IF can THEN Append(l.ev, i) ELSE l.ev
         ncb  == IF can /\ cmpl THEN Append(l.cb, i) ELSE l.cb
         ntd  == IF can THEN l.todo - 1 ELSE l.todo
         fin  == l.pos = NP \/ ntd <= 0
     IN
     /\ IF can THEN FreeSet({i}, 0) ELSE NoFree
     /\ loc' = [loc EXCEPT ![t].ev = nev, ![t].cb = ncb, ![t].todo = ntd, ![t].pos = l.pos + 1]
     /\ IF fin THEN Finish(t, [NoRet EXCEPT !.n = Len(nev), !.ev = nev, !.cb = ncb])
               ELSE Goto(t, "ExpOne")
  /\ UNCHANGED <<deleted, rank, nold, op, uaf>>
  /\ Lab(t, "ExpOne")

-----------------------------------------------------------------------------
(* Del(): keeps the lock over the whole sweep, except while waiting for a  *)
(* busy piece.                                                             *)

Sweep(t, from, extra) ==
  LET busyIdx == {j \in Piece : j >= from /\ hasbuf[j] /\ pstate[j] = "busy"}
      stop    == IF busyIdx = {} THEN NP ELSE Min(busyIdx)
      S       == {j \in Piece : j >= from /\ j < stop /\ hasbuf[j]}
  IN
  /\ FreeSet(S, extra)
  /\ IF stop = NP
       THEN /\ Finish(t, NoRet)
            /\ deleted' = TRUE
            /\ UNCHANGED loc
       ELSE /\ Goto(t, "DelWait")
            /\ deleted' = IF "deleted_last" \in Dev THEN deleted ELSE TRUE
            /\ loc' = [loc EXCEPT ![t].i = stop]

DelBegin(t, o) ==
  /\ o.k = "del" /\ pc[t] = "idle"
  /\ op' = [op EXCEPT ![t] = o]
  /\ Sweep(t, 0, 0)
  /\ UNCHANGED <<rank, nold, uaf>>
  /\ Lab(t, "DelBegin")

DelWake(t) ==               \* the spin loop saw the piece not busy
  /\ pc[t] = "DelWait"
  /\ pstate[loc[t].i] # "busy"
  /\ Goto(t, "DelRelock")
  /\ UNCHANGED <<pstate, hasbuf, cont, deleted, count, rank, nold, op, loc, uaf, crashed>>
  /\ Lab(t, "DelWake")

DelRelock(t) ==
  /\ pc[t] = "DelRelock"
  /\ LET i == loc[t].i IN
     IF pstate[i] = "busy" THEN     \* busy again: release the lock and wait
        /\ Goto(t, "DelWait")
        /\ UNCHANGED <<pstate, hasbuf, cont, deleted, count, loc, crashed>>
     ELSE
        \* repaired code: del() re-checks data == nil and returns;
        \* shipped code: Free(nil) and a second decrement of count
        Sweep(t, i, IF ~hasbuf[i] /\ "del_norecheck" \in Dev THEN 1 ELSE 0)
  /\ UNCHANGED <<rank, nold, op, uaf>>
  /\ Lab(t, "DelRelock")

-----------------------------------------------------------------------------
(* ReadAt(p, off): o.i = piece (NP = beyond the end), o.c = first chunk;   *)
(* the destination is large enough for the rest of the piece.              *)

Read(t, o) ==
  /\ o.k = "read" /\ pc[t] = "idle"
  /\ op' = [op EXCEPT ![t] = o]
  /\ IF o.i = NP THEN Finish(t, [NoRet EXCEPT !.err = "eof"])
     ELSE IF pstate[o.i] = "complete" /\ hasbuf[o.i] /\ o.c \in Chunks(o.i)
       THEN Finish(t, [NoRet EXCEPT !.n = NCh[o.i] - o.c,
                                    !.qs = {cont[o.i][c] : c \in {d \in Chunks(o.i) : d >= o.c}}])
       ELSE Finish(t, NoRet)
  /\ uaf' = (uaf \/ (o.i # NP /\ pstate[o.i] = "complete" /\ ~hasbuf[o.i]))
  /\ UNCHANGED <<pstate, hasbuf, cont, deleted, count, rank, nold, loc, crashed>>
  /\ Lab(t, "Read")

(* UpdateTime(index) *)
Touch(t, o) ==
  /\ o.k = "touch" /\ pc[t] = "idle"
  /\ op' = [op EXCEPT ![t] = o]
  /\ rank' = SelectSeq(rank, LAMBDA j : j # o.i) \o <<o.i>>
  /\ nold' = IF \E k \in 1..nold : rank[k] = o.i THEN nold - 1 ELSE nold
  /\ Finish(t, [NoRet EXCEPT !.b = (pstate[o.i] = "complete")])
  /\ UNCHANGED <<pstate, hasbuf, cont, deleted, count, loc, uaf, crashed>>
  /\ Lab(t, "Touch")

(* more than two hours pass *)
Age(t, o) ==
  /\ o.k = "age" /\ pc[t] = "idle"
  /\ op' = [op EXCEPT ![t] = o]
  /\ nold' = NP
  /\ Finish(t, NoRet)
  /\ UNCHANGED <<pstate, hasbuf, cont, deleted, count, rank, loc, uaf, crashed>>
  /\ Lab(t, "Age")

-----------------------------------------------------------------------------
Begin(t, o) == AddBegin(t, o) \/ FinBegin(t, o) \/ ExpBegin(t, o) \/ DelBegin(t, o)
               \/ Read(t, o) \/ Touch(t, o) \/ Age(t, o)

Step(t) == AddCrit(t) \/ FinLock(t) \/ FinHash(t) \/ FinCommit(t)
           \/ ExpBytes(t) \/ ExpOne(t) \/ DelWake(t) \/ DelRelock(t)

Next == ~crashed /\ \E t \in Threads : Step(t) \/ \E o \in Ops : Begin(t, o)

Spec == Init /\ [][Next]_vars

-----------------------------------------------------------------------------
(* Properties *)

DelReturned == \E t \in Threads : op[t].k = "del" /\ pc[t] = "done"

TypeOK ==
  /\ pstate \in [Piece -> {"none", "busy", "complete"}]
  /\ hasbuf \in [Piece -> BOOLEAN]
  /\ \A i \in Piece : cont[i] \in [Chunks(i) -> {"none", "good", "bad"}]
  /\ deleted \in BOOLEAN
  /\ count \in Int

\* C01: what a complete piece holds has been hashed against the metainfo
CompleteIsHashed ==
  \A i \in Piece : pstate[i] = "complete" => hasbuf[i] /\ Full(i) /\ AllGood(i)

\* C01: every byte a read returned was verified content
OnlyVerified ==
  \A t \in Threads : op[t].k = "read" /\ pc[t] = "done" /\ ret[t].n > 0 => ret[t].qs = {"good"}

\* C01/C03: a buffer is never freed under the hasher or a reader
BusyHasBuf == \A i \in Piece : pstate[i] = "busy" => hasbuf[i] /\ Full(i)
NoUseAfterFree == ~uaf

\* C01: a block that is present is never overwritten while its buffer lives
NeverOverwritten ==
  [][\A i \in Piece : \A c \in Chunks(i) :
        (hasbuf[i] /\ hasbuf'[i] /\ cont[i][c] # "none") => cont'[i][c] = cont[i][c]]_vars

\* C03: the count of non-empty pieces (hence Bytes()) matches the buffers
Accounting == count = Cardinality({i \in Piece : hasbuf[i]})
NoCrash    == ~crashed
BufferIffData == \A i \in Piece : ~hasbuf[i] => cont[i] = Empty(i) /\ pstate[i] = "none"

\* C03: after Del() has returned nothing is held, and nothing ever will be
DelReleasesAll == DelReturned => \A i \in Piece : ~hasbuf[i]
DeletedLatched == [][deleted => deleted']_vars

\* C03: an eviction pass that ran to its end met its target or ran out of
\* candidates; it evicted in snapshot order and reported the complete ones
ExpirePost ==
  \A t \in Threads : op[t].k = "exp" /\ pc[t] = "done" =>
     /\ loc[t].todo <= 0 \/ loc[t].pos = 0 \/ loc[t].pos > NP
     /\ \A k \in 1..Len(ret[t].cb) : \E m \in 1..Len(ret[t].ev) : ret[t].ev[m] = ret[t].cb[k]

AllDone == \A t \in Threads : pc[t] = "done"
=============================================================================
