SPECIFICATION Spec
CONSTANTS
  WCap = 4
  MaxQ = 3
  Dev = {"stale_after_congested_choke"}
INVARIANTS ChokedHasNoQueue CounterMatches NoStaleService
CHECK_DEADLOCK FALSE
