------------------------------- MODULE Requests -------------------------------
(***************************************************************************)
(* Piece requests of consumers (tor/requests.go, requestPiece and          *)
(* Torrent.Request in tor/tor.go).  C10: a consumer waiting for a piece is *)
(* woken when and only when the piece has been verified (or it abandons);  *)
(* notifications are delivered once; priorities are withdrawn exactly once.*)
(*                                                                         *)
(* The event loop consumes torQ in FIFO order; Torrent.Request looks at    *)
(* the store OUTSIDE the loop before queueing (the race with completion).  *)
(* A piece becomes complete in the store (Flip) before its TorHave(true)   *)
(* is queued (FlipQueue).                                                  *)
(*                                                                         *)
(* Dev "no_recheck": requestPiece does not look at the store again.        *)
(***************************************************************************)
EXTENDS Integers, Sequences, FiniteSets, Bags, TLC

CONSTANTS Pieces, Consumers, Prios, MaxOps, Dev
\* IdleP stands for tor.IdlePriority: a request made with it registers no priority (the entry it creates is "idle"),
\* but may still ask for a notification.  Idle entries are pruned by DelIdle - on every configuration change and
\* whenever periodicRequest runs for a higher priority - and pruning wakes their waiters (the channel is closed).
\* Dev "prune_no_close": the entry is deleted with its channel left open.
IdleP == 9

VARIABLES complete,   \* set of pieces complete in the store
          prio,       \* [Pieces -> bag of priorities]: the requested table
          entry,      \* set of pieces with an entry in the table
          chan,       \* [Pieces -> 0 (no channel) or a channel id]
          closed,     \* set of closed channel ids
          nextch,
          torQ,       \* FIFO of events
          held,       \* [Consumers -> bag of <<piece, prio>> registered]
          wait,       \* [Consumers -> 0 or the channel id it waits on]
          waitp,      \* [Consumers -> piece it waits for]
          pendingHave,\* pieces verified whose TorHave is not queued yet
          pend,       \* [Consumers -> request checked against the store but not queued yet]
          nops, last

vars == <<complete, prio, entry, chan, closed, nextch, torQ, held, wait, waitp, pendingHave, pend, nops, last>>
NoPend == [i |-> -1, p |-> 0, want |-> FALSE]

Init == /\ complete = {} /\ prio = [i \in Pieces |-> EmptyBag] /\ entry = {} /\ chan = [i \in Pieces |-> 0]
        /\ closed = {} /\ nextch = 1 /\ torQ = <<>> /\ held = [k \in Consumers |-> EmptyBag]
        /\ wait = [k \in Consumers |-> 0] /\ waitp = [k \in Consumers |-> 0]
        /\ pendingHave = {} /\ pend = [k \in Consumers |-> NoPend] /\ nops = 0 /\ last = [a |-> "Init"]

Op(l) == nops < MaxOps /\ nops' = nops + 1 /\ last' = l

\* Torrent.Request(i, p, true, want), first half: the store is consulted outside the
\* loop; nothing is queued for a complete piece
ApiRequest(k, i, p, want) ==
  /\ pend[k] = NoPend /\ (wait[k] = 0 \/ wait[k] \in closed)
  /\ Op([a |-> "ApiRequest", k |-> k, i |-> i, p |-> p, want |-> want])
  /\ pend' = [pend EXCEPT ![k] = IF i \in complete THEN NoPend ELSE [i |-> i, p |-> p, want |-> want]]
  /\ UNCHANGED <<complete, prio, entry, chan, closed, nextch, torQ, held, wait, waitp, pendingHave>>

\* second half: the command enters the loop's queue
ApiSend(k) ==
  /\ pend[k] # NoPend
  /\ last' = [a |-> "ApiSend", k |-> k]
  /\ torQ' = Append(torQ, [e |-> "req", k |-> k, i |-> pend[k].i, p |-> pend[k].p, want |-> pend[k].want])
  /\ held' = [held EXCEPT ![k] = IF pend[k].p = IdleP THEN @ ELSE @ (+) SetToBag({<<pend[k].i, pend[k].p>>})]
  /\ pend' = [pend EXCEPT ![k] = NoPend]
  /\ UNCHANGED <<complete, prio, entry, chan, closed, nextch, wait, waitp, pendingHave, nops>>

\* Torrent.Request(i, p, false, false) for a priority the consumer holds
ApiWithdraw(k, i, p) ==
  /\ BagIn(<<i, p>>, held[k])
  /\ Op([a |-> "ApiWithdraw", k |-> k, i |-> i, p |-> p])
  /\ torQ' = Append(torQ, [e |-> "del", k |-> k, i |-> i, p |-> p, want |-> FALSE])
  /\ held' = [held EXCEPT ![k] = @ (-) SetToBag({<<i, p>>})]
  /\ pend[k] = NoPend
  /\ UNCHANGED <<complete, prio, entry, chan, closed, nextch, wait, waitp, pendingHave, pend>>

\* a configuration change (Torrent.SetConf): the loop will prune the idle entries
ApiPrune ==
  /\ Op([a |-> "ApiPrune"])
  /\ torQ' = Append(torQ, [e |-> "prune", k |-> "-", i |-> 0, p |-> 0, want |-> FALSE])
  /\ UNCHANGED <<complete, prio, entry, chan, closed, nextch, held, wait, waitp, pendingHave, pend>>

DelEntry(i) == /\ entry' = entry \ {i}
               /\ closed' = IF chan[i] # 0 THEN closed \cup {chan[i]} ELSE closed
               /\ chan' = [chan EXCEPT ![i] = 0]

\* the loop handles the head of the queue
Loop ==
  /\ torQ # <<>>
  /\ LET e == Head(torQ) IN
     /\ torQ' = Tail(torQ)
     /\ last' = [a |-> "Loop", e |-> e.e]
     /\ CASE e.e = "req" ->
               LET want == e.want /\ (("no_recheck" \in Dev) \/ e.i \notin complete)
                   mk   == want /\ chan[e.i] = 0
                   ch   == IF mk THEN nextch ELSE chan[e.i]
               IN /\ entry' = entry \cup {e.i}
                  /\ prio' = [prio EXCEPT ![e.i] = IF e.p = IdleP THEN @ ELSE @ (+) SetToBag({e.p})]
                  /\ chan' = [chan EXCEPT ![e.i] = IF want THEN ch ELSE @]
                  /\ nextch' = IF mk THEN nextch + 1 ELSE nextch
                  \* the caller gets the channel (nil if the piece is complete)
                  /\ wait' = [wait EXCEPT ![e.k] = IF e.want /\ want THEN ch ELSE IF e.want THEN 0 ELSE @]
                  /\ waitp' = [waitp EXCEPT ![e.k] = IF e.want THEN e.i ELSE @]
                  /\ UNCHANGED closed
          [] e.e = "del" ->
               /\ IF e.i \in entry /\ BagIn(e.p, prio[e.i]) THEN
                     /\ prio' = [prio EXCEPT ![e.i] = @ (-) SetToBag({e.p})]
                     /\ IF BagCardinality(prio[e.i]) = 1 THEN DelEntry(e.i) ELSE UNCHANGED <<entry, closed, chan>>
                  ELSE UNCHANGED <<prio, entry, closed, chan>>
               /\ UNCHANGED <<nextch, wait, waitp>>
          [] e.e = "prune" ->
               LET idle == {i \in entry : prio[i] = EmptyBag} IN
               /\ entry' = entry \ idle
               /\ closed' = IF "prune_no_close" \in Dev THEN closed ELSE closed \cup ({chan[i] : i \in idle} \ {0})
               /\ chan' = [i \in Pieces |-> IF i \in idle THEN 0 ELSE chan[i]]
               /\ UNCHANGED <<prio, nextch, wait, waitp>>
          [] e.e = "have" ->
               \* Done(): close and clear the channel, prune the entry if idle
               /\ IF e.add /\ e.i \in entry THEN
                     /\ closed' = IF chan[e.i] # 0 THEN closed \cup {chan[e.i]} ELSE closed
                     /\ chan' = [chan EXCEPT ![e.i] = 0]
                     /\ entry' = IF prio[e.i] = EmptyBag THEN entry \ {e.i} ELSE entry
                  ELSE UNCHANGED <<closed, chan, entry>>
               /\ UNCHANGED <<prio, nextch, wait, waitp>>
  /\ UNCHANGED <<complete, held, pendingHave, pend, nops>>

\* a piece is verified: complete in the store first, TorHave(true) queued afterwards
Flip(i) ==
  /\ i \notin complete /\ Op([a |-> "Flip", i |-> i])
  /\ complete' = complete \cup {i} /\ pendingHave' = pendingHave \cup {i}
  /\ UNCHANGED <<prio, entry, chan, closed, nextch, torQ, held, wait, waitp, pend>>
FlipQueue(i) ==
  /\ i \in pendingHave
  /\ pendingHave' = pendingHave \ {i} /\ last' = [a |-> "FlipQueue", i |-> i]
  /\ torQ' = Append(torQ, [e |-> "have", i |-> i, add |-> TRUE])
  /\ UNCHANGED <<complete, prio, entry, chan, closed, nextch, held, wait, waitp, pend, nops>>
\* eviction: the store drops the piece and TorHave(false) is queued
Evict(i) ==
  /\ i \in complete /\ i \notin pendingHave /\ Op([a |-> "Evict", i |-> i])
  /\ complete' = complete \ {i}
  /\ torQ' = Append(torQ, [e |-> "have", i |-> i, add |-> FALSE])
  /\ UNCHANGED <<prio, entry, chan, closed, nextch, held, wait, waitp, pendingHave, pend>>

Next == \/ \E k \in Consumers, i \in Pieces, p \in Prios : (\E w \in BOOLEAN : ApiRequest(k, i, p, w)) \/ ApiWithdraw(k, i, p)
        \/ ApiPrune
        \/ (\E k \in Consumers : ApiSend(k)) \/ Loop \/ \E i \in Pieces : Flip(i) \/ FlipQueue(i) \/ Evict(i)
Spec == Init /\ [][Next]_vars

-----------------------------------------------------------------------------
Drained == torQ = <<>> /\ pendingHave = {} /\ \A k \in Consumers : pend[k] = NoPend
\* no lost wake-up: once everything in transit is processed, nobody waits on an open
\* channel for a piece that is complete
NoLostWakeup == Drained => \A k \in Consumers : (wait[k] # 0 /\ wait[k] \notin closed) => waitp[k] \notin complete
\* priorities in the table are exactly those the consumers hold
HeldCopies(i, p) == LET F[T \in SUBSET Consumers] ==
                         IF T = {} THEN 0 ELSE LET k == CHOOSE k \in T : TRUE IN CopiesIn(<<i, p>>, held[k]) + F[T \ {k}]
                    IN F[Consumers]
PrioConserved == Drained => \A i \in Pieces : \A p \in Prios : CopiesIn(p, prio[i]) = HeldCopies(i, p)
\* (an entry without priorities is an idle one)
EntryIffWanted == Drained => \A i \in Pieces : (prio[i] # EmptyBag) => (i \in entry)
=============================================================================
