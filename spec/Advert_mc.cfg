SPECIFICATION Spec
CONSTANTS Dev = {}
INVARIANTS Good Emit
CHECK_DEADLOCK FALSE
