------------------------------ MODULE MCExpire ------------------------------
EXTENDS Expire, Json, TLC
VARIABLE hist
MCInit == Init /\ hist = <<[a |-> "Init", b |-> b]>>
MCNext == Next /\ hist' = Append(hist, [l |-> last', b |-> b', rc |-> rc', pass |-> pass', pending |-> Len(ev'), dirty |-> dirty',
                                         lo |-> [t \in T |-> EvLo(t)], hi |-> [t \in T |-> EvHi(t)]])
SimSpec == MCInit /\ [][MCNext]_<<vars, hist>>
Dump == (Len(hist) = 14) => PrintT("BEH " \o ToJson(hist))
\* every schedule of at most 8 steps on which the code as shipped crashes (Dev = {"DivZero"})
NearMarks == \A t \in T : b[t] \in 5..10
CrashInit == MCInit /\ NearMarks
CrashSpec == CrashInit /\ [][MCNext]_<<vars, hist>>
Short == Len(hist) <= 8
DumpCrash == (pass = "crashed") => PrintT("BEH " \o ToJson(hist))
SimInit2 == MCInit /\ NearMarks
SimSpec2 == SimInit2 /\ [][MCNext]_<<vars, hist>>
\* three torrents: two within their share and one above it, total at or above the high mark
Near3 == /\ \A t \in T : b[t] \in 1..12 /\ Alloc \in 15..22
SimSpec3 == (MCInit /\ Near3) /\ [][MCNext]_<<vars, hist>>
=============================================================================
