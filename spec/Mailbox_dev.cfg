SPECIFICATION MCSpec
CONSTANTS
  Cap = 2
  N = 4
  MaxOther = 4
  Dev = {"mailbox_first"}
INVARIANTS DumpBad
CONSTRAINT Short
CHECK_DEADLOCK FALSE
