SPECIFICATION Spec
CONSTANTS
  Fields <- MCFields
  Room <- MCRoom
  Total = 8
  Dev = {}
INVARIANTS BufIsReceived StageAligned SurplusExact
CHECK_DEADLOCK FALSE
