SPECIFICATION TraceSpec
CHECK_DEADLOCK FALSE
POSTCONDITION AllRead
CONSTANTS
  PxOk = TRUE
