SPECIFICATION Spec
CONSTANTS
  B = 2
  Sizes = {1, 2, 3, 5}
  MaxWrites = 4
  Dev = {"no_latch"}
INVARIANTS Aligned InOrder
CHECK_DEADLOCK FALSE
