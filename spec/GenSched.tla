------------------------------- MODULE GenSched -------------------------------
(* Simulated behaviours of Sched (labels only) for replay on the real handlers. *)
EXTENDS MCSched
VARIABLE hist
CONSTANT Depth
SimInit == Init /\ hist = <<[a |-> "Init", canFast |-> canFast]>>
\* generation bias: blocks and rejects mostly address outstanding requests
Useful == last'.a = "Msg" /\ last'.m.k \in {"piece", "reject"} =>
            (last'.m.c \in Held(last'.p) \/ (last'.m.k = "piece" /\ last'.m.pl = "exact"))
SimNext == Next /\ Useful /\ hist' = Append(hist, last')
SimSpec == SimInit /\ [][SimNext]_<<vars, hist>>
Dump == (Len(hist) = Depth \/ ~ENABLED Next) => PrintT("BEH " \o ToJson(hist))
=============================================================================
