SPECIFICATION Spec
CONSTANTS
  Addrs = {"a", "b", "c"}
  Dev = {}
  Cap = 2
  MaxOps = 1000
VIEW view
ACTION_CONSTRAINT Emit
CHECK_DEADLOCK FALSE
