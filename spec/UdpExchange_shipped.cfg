SPECIFICATION FairSpec
CONSTANTS
  Classes <- MCClasses
  Dev = {"foreign_eek"}
INVARIANTS NoPanic Bounded StopsAtOnce Emit
PROPERTIES Terminates
CHECK_DEADLOCK FALSE
