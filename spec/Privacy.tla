------------------------------- MODULE Privacy -------------------------------
(***************************************************************************)
(* C18: the privacy switches of a torrent.                                 *)
(*                                                                         *)
(* One torrent with trackers and web seeds in its metainfo.  The state is  *)
(* the per-torrent configuration (tor/tor.go useTrackers / useWebseeds /   *)
(* dhtMode, set from the global defaults by tor.New and changed by the     *)
(* TorSetConf event), the immutable proxy flag, whether the tracker is due *)
(* for an announce and whether a piece is wanted and missing.  Every       *)
(* action produces the set `out` of outbound observations it causes; the   *)
(* property is an invariant over `out` and the configuration in force.     *)
(*                                                                         *)
(* Actions follow the code's own steps:                                    *)
(*   Start      tor.New + AddTorrent (initial DHT announce)                *)
(*   SetConf    handleEvent(TorSetConf): announce when the mode is raised, *)
(*              then maybeRequest (which may start a web-seed fetch)       *)
(*   DhtEvent   handleEvent(TorAnnounce) <- tor.Announce from the DHT      *)
(*   TrackerDue the tracker's interval elapses (clock)                     *)
(*   Tick       the run loop's slow ticker: trackerAnnounce under          *)
(*              useTrackers                                                *)
(*   Want       Torrent.Request(want) of a missing piece with no peer:     *)
(*              periodicRequest -> maybeWebseed under hasWebseeds          *)
(*   Incoming   tor.Server on an inbound connection                        *)
(*   Outgoing   tor.DialClient / tor.Client, then peer.Run's first writes  *)
(***************************************************************************)
EXTENDS Naturals, FiniteSets, Sequences

Modes == {"none", "passive", "normal"}
Rank(m) == CASE m = "none" -> 0 [] m = "passive" -> 1 [] m = "normal" -> 2
Confs == [trk : BOOLEAN, ws : BOOLEAN, dht : Modes]

\* the alphabet of observations
AllObs == {"tracker:port", "tracker:noport", "webseed",
           "dht4:port", "dht4:noport", "dht6:port", "dht6:noport",
           "peer:version", "peer:port", "peer:dhtport", "peer:ipv6",
           "incoming:accepted", "incoming:refused"}

\* PxOk = FALSE: the proxy string of the proxied torrent cannot be used (it does not parse as a URL, or names a scheme no
\* dialer exists for).  storrent accepts any string as a proxy; what would go through the proxy then fails, and nothing
\* goes out directly instead.
CONSTANT PxOk

VARIABLES started, proxy, kind, conf, due, wanted, peer, out, last
vars == <<started, proxy, kind, conf, due, wanted, peer, out, last>>
\* peer: a remote peer that has some of the pieces is connected and stays (it never unchokes us).  With a peer present
\* periodicRequest takes other paths (it no longer returns early when web seeds are off), so Want is explored both ways.
\* kind: the scheme of the torrent's tracker.  A UDP tracker cannot be reached through the (SOCKS) proxy: tracker/udp.go
\* asks the proxy dialer for a UDP connection, which it refuses, so a proxied torrent never contacts it.
Kinds == {"http", "udp"}

\* what announce() (tor.go:124) lets out for one address family
DhtOut(c, px, fam) == IF c.dht = "none" THEN {}
                      ELSE IF c.dht = "normal" /\ ~px THEN {fam \o ":port"} ELSE {fam \o ":noport"}
DhtBoth(c, px) == DhtOut(c, px, "dht4") \cup DhtOut(c, px, "dht6")

\* what the first web-seed opportunity lets out
WsOut(c, w) == IF c.ws /\ w THEN {"webseed"} ELSE {}

Usable == ~proxy \/ PxOk
Init == /\ started = FALSE /\ proxy \in (IF PxOk THEN BOOLEAN ELSE {TRUE}) /\ kind \in Kinds /\ conf \in Confs   \* conf: the global defaults
        /\ due = TRUE /\ wanted = FALSE /\ peer = FALSE /\ out = {} /\ last = [a |-> "init"]

Start == /\ ~started /\ started' = TRUE
         /\ out' = DhtBoth(conf, proxy)
         /\ last' = [a |-> "Start"]
         /\ UNCHANGED <<proxy, kind, conf, due, wanted, peer>>

SetConf(c) == /\ started /\ conf' = c
              /\ out' = (IF Rank(conf.dht) < Rank(c.dht) THEN DhtBoth(c, proxy) ELSE {}) \cup (IF Usable THEN WsOut(c, wanted) ELSE {})
              /\ wanted' = (IF Usable THEN wanted /\ ~c.ws ELSE wanted)
              /\ last' = [a |-> "SetConf", c |-> c]
              /\ UNCHANGED <<started, proxy, kind, due, peer>>

DhtEvent(fam) == /\ started /\ out' = DhtOut(conf, proxy, fam)
                 /\ last' = [a |-> "DhtEvent", fam |-> fam]
                 /\ UNCHANGED <<started, proxy, kind, conf, due, wanted, peer>>

TrackerDue == /\ started /\ ~due /\ due' = TRUE /\ out' = {} /\ last' = [a |-> "TrackerDue"]
              /\ UNCHANGED <<started, proxy, kind, conf, wanted, peer>>

Tick == /\ started
        /\ IF conf.trk /\ due
           THEN out' = (IF proxy THEN (IF kind = "udp" \/ ~PxOk THEN {} ELSE {"tracker:noport"}) ELSE {"tracker:port"}) /\ due' = FALSE
           ELSE out' = {} /\ due' = due
        /\ last' = [a |-> "Tick"]
        /\ UNCHANGED <<started, proxy, kind, conf, wanted, peer>>

Want == /\ started
        /\ out' = (IF Usable THEN WsOut(conf, TRUE) ELSE {})
        /\ wanted' = (IF Usable THEN ~conf.ws ELSE TRUE)
        /\ last' = [a |-> "Want"]
        /\ UNCHANGED <<started, proxy, kind, conf, due, peer>>

Incoming == /\ started
            /\ out' = IF proxy THEN {"incoming:refused"}
                      ELSE {"incoming:accepted", "peer:version", "peer:port", "peer:dhtport"}
            /\ last' = [a |-> "Incoming"]
            /\ UNCHANGED <<started, proxy, kind, conf, due, wanted, peer>>

Outgoing == /\ started
            /\ out' = IF proxy THEN {} ELSE {"peer:version", "peer:port", "peer:dhtport"}
            /\ last' = [a |-> "Outgoing"]
            /\ UNCHANGED <<started, proxy, kind, conf, due, wanted, peer>>

\* a remote peer connects (through tor.Server, so only to an unproxied torrent) and stays / leaves again
PeerJoin == /\ started /\ ~peer /\ ~proxy /\ kind = "http"
            /\ peer' = TRUE
            /\ out' = {"incoming:accepted", "peer:version", "peer:port", "peer:dhtport"}
            /\ last' = [a |-> "PeerJoin"]
            /\ UNCHANGED <<started, proxy, kind, conf, due, wanted>>
PeerLeave == /\ started /\ peer /\ peer' = FALSE /\ out' = {} /\ last' = [a |-> "PeerLeave"]
             /\ UNCHANGED <<started, proxy, kind, conf, due, wanted>>

Next == PeerJoin \/ PeerLeave \/ Start \/ (\E c \in Confs : SetConf(c)) \/ DhtEvent("dht4") \/ DhtEvent("dht6")
        \/ TrackerDue \/ Tick \/ Want \/ Incoming \/ Outgoing
Spec == Init /\ [][Next]_vars

-----------------------------------------------------------------------------
\* The property.  Allowed is evaluated against the configuration in force when
\* the observation is made (the post-state of the action that caused it).
Allowed(o, c, px) ==
  CASE o \in {"tracker:port", "tracker:noport"} -> c.trk /\ (px => o = "tracker:noport")
    [] o = "webseed" -> c.ws
    [] o \in {"dht4:port", "dht6:port"} -> c.dht = "normal" /\ ~px
    [] o \in {"dht4:noport", "dht6:noport"} -> c.dht # "none"
    [] o \in {"peer:version", "peer:port", "peer:dhtport", "peer:ipv6"} -> ~px
    [] o = "incoming:accepted" -> ~px
    [] OTHER -> TRUE
Forbidden(c, px) == {o \in AllObs : ~Allowed(o, c, px)}

TypeOK == /\ peer \in BOOLEAN /\ started \in BOOLEAN /\ proxy \in BOOLEAN /\ kind \in Kinds /\ conf \in Confs /\ due \in BOOLEAN /\ wanted \in BOOLEAN
          /\ out \subseteq AllObs
PrivacyInv == out \cap Forbidden(conf, proxy) = {}
\* a wanted piece stays outstanding only while web seeds are off (no starvation once they are on)
WantedOnlyWhenOff == Usable => (wanted => ~conf.ws)
\* with an unusable proxy nothing of the torrent reaches a tracker, a web seed or a peer; the DHT (which does not go
\* through the proxy, and is told no port) is all that is left
NothingPastBadProxy == ~Usable => out \subseteq {"dht4:noport", "dht6:noport", "incoming:refused"}
\* the proxy flag never changes
ProxyFixed == [][proxy' = proxy /\ kind' = kind]_vars
=============================================================================
