SPECIFICATION Spec
CONSTANTS
  T = {t1, t2}
  Low = 14
  High = 16
  MaxB = 11
  Dev = {}
INVARIANTS TypeOK NoCrash DownToLow
CONSTRAINT FewEv
CHECK_DEADLOCK FALSE
