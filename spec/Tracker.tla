------------------------------- MODULE Tracker -------------------------------
(***************************************************************************)
(* Lifetime of one tracker (tracker/tracker.go, http.go, udp.go).  C15:    *)
(* after an announce attempt the tracker is never left busy, and it is not *)
(* contacted again before max(5 min, announced interval) has elapsed;      *)
(* exactly the peers of the reply are learnt.                              *)
(*                                                                         *)
(* Time is in seconds.  `el' is the time elapsed since the last attempt    *)
(* (-1: never attempted).  A reply is abstracted to what it does to the    *)
(* tracker: r.fail (both legs failed), r.it (the interval the legs         *)
(* returned, 0 on failure), r.retry (failure reason with 'retry in':       *)
(* seconds, -1 none), r.peers (the peers encoded in it).                   *)
(***************************************************************************)
EXTENDS Integers, Sequences, FiniteSets, TLC

CONSTANTS Replies,     \* set of reply records
          Elapsed,     \* values the clock may be advanced to (seconds since the last attempt)
          MaxContacts

VARIABLES locked, el, interval, err, inAnn, pendingCall, contacts, learnt, res, last

vars == <<locked, el, interval, err, inAnn, pendingCall, contacts, learnt, res, last>>

Init == /\ locked = FALSE /\ el = -1 /\ interval = 0 /\ err = FALSE /\ inAnn = FALSE
        /\ pendingCall = FALSE
        /\ contacts = <<>> /\ learnt = {} /\ res = "-" /\ last = [a |-> "Init"]

\* ready(): never attempted, or the (floored) interval has elapsed
Eff(i) == IF i <= 0 THEN 1800 ELSE IF i < 300 THEN 300 ELSE i
Ready  == el = -1 \/ el > Eff(interval)

(* the clock advances: elapsed time since the last attempt becomes e *)
Advance(e) ==
  /\ ~inAnn /\ el # -1 /\ e > el
  /\ el' = e
  /\ res' = "-" /\ last' = [a |-> "Advance", e |-> e]
  /\ UNCHANGED <<locked, interval, err, inAnn, pendingCall, contacts, learnt>>

(* GetState(): tryLock, ready, unlock *)
GetState ==
  /\ res' = IF locked THEN "busy" ELSE IF Ready THEN "ready" ELSE IF err THEN "error" ELSE "idle"
  /\ last' = [a |-> "GetState"]
  /\ UNCHANGED <<locked, el, interval, err, inAnn, pendingCall, contacts, learnt>>

(* Announce(): refused when busy or not ready, else the tracker is contacted *)
AnnounceBegin ==
  /\ ~pendingCall
  /\ last' = [a |-> "AnnounceBegin"]
  /\ IF locked \/ ~Ready THEN
        /\ res' = "notready"
        /\ UNCHANGED <<locked, el, interval, err, inAnn, pendingCall, contacts, learnt>>
     ELSE
        /\ Len(contacts) < MaxContacts
        /\ locked' = TRUE /\ inAnn' = TRUE /\ pendingCall' = TRUE /\ el' = 0
        /\ contacts' = Append(contacts, [gap |-> el, ann |-> 0])
        /\ res' = "contact"
        /\ UNCHANGED <<interval, err, learnt>>

(* a second Announce while one is in flight *)
AnnounceWhileBusy ==
  /\ pendingCall
  /\ res' = "notready" /\ last' = [a |-> "AnnounceWhileBusy"]
  /\ UNCHANGED <<locked, el, interval, err, inAnn, pendingCall, contacts, learnt>>

(* the reply arrives (or the attempt fails); updateInterval; unlock *)
AnnounceEnd(r) ==
  /\ inAnn
  /\ LET i1 == IF r.retry >= 0 THEN r.retry ELSE interval      \* failure reason sets the interval
         i2 == IF r.it > 60 THEN r.it ELSE IF i1 < 900 THEN 900 ELSE i1
     IN interval' = i2
  /\ err' = r.fail
  /\ locked' = FALSE /\ inAnn' = FALSE /\ pendingCall' = FALSE
  /\ learnt' = r.peers
  \* what the tracker announced: the interval of its reply or, with a failure reason, 'retry in'
  /\ contacts' = [contacts EXCEPT ![Len(contacts)].ann = IF r.fail THEN (IF r.retry > 0 THEN r.retry ELSE 0) ELSE r.it]
  /\ res' = IF r.fail THEN "error" ELSE "ok"
  /\ last' = [a |-> "AnnounceEnd", r |-> r.name]
  /\ UNCHANGED el

Next == \/ \E e \in Elapsed : Advance(e)
        \/ GetState \/ AnnounceBegin \/ AnnounceWhileBusy
        \/ \E r \in Replies : AnnounceEnd(r)

Spec == Init /\ [][Next]_vars

-----------------------------------------------------------------------------
\* after an announce attempt the tracker is never left stuck in the busy state
NeverStuckBusy == ~inAnn => ~locked
\* not contacted again before max(5 min, announced interval); the announced
\* interval - in a reply, or as 'retry in' with a failure reason - counts when
\* it is a sane one (1 min .. 10 years)
Sane(i) == i > 60 /\ i < 315360000
MinGap == \A k \in 2..Len(contacts) :
            /\ contacts[k].gap > 300
            /\ Sane(contacts[k - 1].ann) => contacts[k].gap > contacts[k - 1].ann
\* nothing is learnt from a failed announce
NoPeersOnError == (last.a = "AnnounceEnd" /\ res = "error") => learnt = {}
=============================================================================
