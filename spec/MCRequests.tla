------------------------------ MODULE MCRequests ------------------------------
EXTENDS Requests, Json
VARIABLE hist
MCInit == Init /\ hist = <<>>
MCNext == Next /\ UNCHANGED hist
MCSpec == MCInit /\ [][MCNext]_<<vars, hist>>
SimInit == Init /\ hist = <<>>
SimNext == Next /\ hist' = Append(hist, last')
SimSpec == SimInit /\ [][SimNext]_<<vars, hist>>
Dump == (nops = MaxOps /\ Drained) => PrintT("BEH " \o ToJson(hist))
bound == Len(torQ) <= 4 /\ nextch <= 5
=============================================================================
