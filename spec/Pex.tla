--------------------------------- MODULE Pex ---------------------------------
(***************************************************************************)
(* C11: peer-exchange deltas sent to one peer (pexState in peer/peer.go).  *)
(* told = what the remote believes after the messages it received.         *)
(* A delta never drops a peer that was not announced, never announces one  *)
(* twice, and every departure is eventually reported.                      *)
(* Dev "add_after_del": the shipped add() only forgets a pending deletion, *)
(* the peer is then in none of the lists.  "send_fail_sent": when the      *)
(* write fails the additions stay in `sent' as well as in `pending'.       *)
(***************************************************************************)
EXTENDS Integers, Sequences, FiniteSets, TLC

CONSTANTS Addrs, Dev, MaxOps, Cap     \* Cap: a message carries at most Cap additions and Cap departures (50 in peer.go), the oldest first
VARIABLES pending, pendingDel, sent, told, present, bad, nops, last

vars == <<pending, pendingDel, sent, told, present, bad, nops, last>>
\* pending and pendingDel are lists (in the order of the events), without duplicates
Rng(q) == {q[k] : k \in 1..Len(q)}
Without(q, x) == SelectSeq(q, LAMBDA y : y # x)
FirstN(q, n) == SubSeq(q, 1, IF Len(q) < n THEN Len(q) ELSE n)
RestN(q, n) == SubSeq(q, (IF Len(q) < n THEN Len(q) ELSE n) + 1, Len(q))

Init == pending = <<>> /\ pendingDel = <<>> /\ sent = {} /\ told = {} /\ present = {} /\ bad = "-" /\ nops = 0
        /\ last = [a |-> "Init"]

\* An addition carries flags (encryption preference, upload only, ...) which may differ from one
\* announcement of the same peer to the next (tor.go announces a peer when it connects and again
\* after its extended handshake).  The identity of a peer is its address alone: f changes nothing.
Add(x, f) ==
  /\ nops < MaxOps /\ nops' = nops + 1 /\ present' = present \cup {x}
  /\ last' = [a |-> "Add", x |-> x, f |-> f]
  /\ IF x \in Rng(pendingDel) THEN
        /\ pendingDel' = Without(pendingDel, x)
        /\ sent' = IF "add_after_del" \in Dev THEN sent ELSE sent \cup {x}
        /\ UNCHANGED pending
     ELSE IF x \in sent \/ x \in Rng(pending) THEN UNCHANGED <<pending, pendingDel, sent>>
     ELSE pending' = Append(pending, x) /\ UNCHANGED <<pendingDel, sent>>
  /\ UNCHANGED <<told, bad>>

Del(x) ==
  /\ nops < MaxOps /\ nops' = nops + 1 /\ present' = present \ {x}
  /\ last' = [a |-> "Del", x |-> x]
  /\ IF x \in Rng(pending) THEN pending' = Without(pending, x) /\ UNCHANGED <<pendingDel, sent>>
     ELSE IF x \notin sent THEN UNCHANGED <<pending, pendingDel, sent>>
     ELSE sent' = sent \ {x} /\ pendingDel' = Append(pendingDel, x) /\ UNCHANGED pending
  /\ UNCHANGED <<told, bad>>

\* sendPex: the pending delta goes out (ok) or the write fails and it is put back
Send(ok) ==
  /\ nops < MaxOps /\ nops' = nops + 1
  /\ last' = [a |-> "Send", ok |-> ok]
  /\ UNCHANGED present
  /\ IF pending = <<>> /\ pendingDel = <<>> THEN UNCHANGED <<pending, pendingDel, sent, told, bad>>
     ELSE LET ts == Rng(FirstN(pending, Cap))
              td == Rng(FirstN(pendingDel, Cap)) IN
       IF ok THEN
        /\ sent' = sent \cup ts /\ pending' = RestN(pending, Cap) /\ pendingDel' = RestN(pendingDel, Cap)
        /\ told' = (told \cup ts) \ td
        /\ bad' = IF ts \cap told # {} THEN "double-add"
                  ELSE IF ~(td \subseteq told) THEN "drop-unknown" ELSE bad
       ELSE
        \* computePex already moved the additions to sent: the shipped code leaves them there
        /\ sent' = IF "send_fail_sent" \in Dev THEN sent \cup ts ELSE sent
        /\ UNCHANGED <<pending, pendingDel, told, bad>>

\* Send(FALSE) is not part of Next: write() can only fail here when the writer has
\* terminated (the peer is exiting and its pexState is dead) -- sendPex returns
\* before computing a delta when the writer is congested.
Next == (\E x \in Addrs : (\E f \in {0, 17} : Add(x, f)) \/ Del(x)) \/ Send(TRUE)
Spec == Init /\ [][Next]_vars

NoBadDelta == bad = "-"
\* when nothing is pending the remote's view is exactly the set of peers present
Settled == (pending = <<>> /\ pendingDel = <<>>) => told = present
=============================================================================
