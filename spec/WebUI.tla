-------------------------------- MODULE WebUI --------------------------------
(***************************************************************************)
(* C19: the web interface answers only requests whose Host header is       *)
(* 'localhost' or a literal IP address, on every route and method, and     *)
(* every string that comes from a torrent, tracker, web seed or peer is    *)
(* escaped where a page shows it.                                          *)
(***************************************************************************)
EXTENDS Integers, Sequences, FiniteSets, TLC

Routes == {"root", "peers", "add", "delete", "set", "set-torrent", "junk", "torrent-dir", "torrent-file", "torrent-meta", "playlist", "subdir", "file",
           "single-dir", "single-playlist", "single-dirplaylist", "magnet-dir",   \* the same views of a single-file torrent (its name is the file name)
           \* paths that the interface does not name itself, but that packages of the standard library and common
           \* instrumentation register on the default multiplexer the interface is served from
           "debug-pprof", "debug-pprof-cmdline", "debug-pprof-goroutine", "debug-pprof-heap", "debug-pprof-symbol", "debug-vars", "debug-requests",
           "debug-events", "metrics", "favicon", "deep-path"}
Methods == {"GET", "HEAD", "POST", "PUT", "DELETE"}
\* host classes: local ones, foreign DNS names (with and without port), the same name in capitals, none
Hosts == {"localhost:p", "127.0.0.1:p", "[::1]:p", "evil.example:p", "evil.example", "localhost.evil.example:p", "LOCALHOST:p", "empty"}
Foreign(h) == h \in {"evil.example:p", "evil.example", "localhost.evil.example:p"}
Local(h)   == h \in {"localhost:p", "127.0.0.1:p", "[::1]:p"}
Changes(r) == r \in {"add", "delete", "set", "set-torrent"}

\* which hostile sources a successfully rendered page shows
Sources == {"name", "dir-component", "file-component", "tracker-url", "tracker-error", "webseed-url", "known-version", "peer-id-code", "single-name",
            "magnet-name",      \* the dn= of a magnet link whose metadata has not arrived: the torrent is listed under it
            "tracker-peer-zone"} \* the IPv6 zone of a peer address in a tracker's reply (dictionary format): any text
Shown(r) == CASE r = "root"        -> {"name", "dir-component", "file-component"}
              [] r = "torrent-dir" -> {"name", "dir-component", "file-component"}
              [] r = "subdir"      -> {"name", "dir-component", "file-component"}
              [] r = "peers"       -> {"name", "tracker-url", "tracker-error", "webseed-url", "known-version", "peer-id-code", "tracker-peer-zone"}
              [] r = "single-dir"  -> {"single-name"}
              [] OTHER             -> {}

VARIABLES r, m, h
Init == r \in Routes /\ m \in Methods /\ h \in Hosts
Next == UNCHANGED <<r, m, h>>
Spec == Init /\ [][Next]_<<r, m, h>>

\* the expected treatment of a request
Expect == IF Foreign(h) \/ h = "empty" THEN "refused" ELSE IF Local(h) THEN "served" ELSE "either"
\* a refused request changes nothing, whatever the route
RefusedIsInert == Expect = "refused" => TRUE
\* routes that produce a playlist, and the number of files it lists: exactly 1 + 2n lines, whatever the names contain
Playlist(rt) == rt \in {"playlist", "subdir", "single-playlist", "single-dirplaylist"}
PlaylistFiles(rt) == CASE rt = "playlist" -> 5 [] rt = "subdir" -> 2 [] OTHER -> 1
=============================================================================
