------------------------------ MODULE Metadata ------------------------------
(***************************************************************************)
(* Assembly of the info dictionary of a magnet torrent from ut_metadata    *)
(* blocks (tor/metadata.go; BEP 9).  C12: the torrent becomes usable only  *)
(* with a dictionary whose SHA-1 is the info-hash, whatever peers send,    *)
(* nothing crashes, and honest blocks delivered after the last corruption  *)
(* complete it.                                                            *)
(*                                                                         *)
(* Sizes are real byte counts; a block is 16384 bytes.  Content is         *)
(* abstract: each block of the assembly buffer is "none", "honest" or      *)
(* "forged"; SHA-1 is trusted (digest = info-hash iff the buffer has the   *)
(* true size and every block is honest).                                   *)
(*                                                                         *)
(* Dev: "index_eq_chunks" -- the shipped bound check lets index = number   *)
(* of blocks through (slice start beyond the buffer: panic when the size   *)
(* is not a multiple of 16 KiB).                                           *)
(***************************************************************************)
EXTENDS Integers, Sequences, FiniteSets, TLC

CONSTANTS TrueSize,   \* size of the authentic dictionary
          ParseOK,    \* whether the authentic dictionary passes MetadataComplete
          Sizes,      \* size values peers may vote / put in a data message
          MaxVotes,   \* bound on the number of accepted votes
          Dev

BS == 16384
Cap == 134217728                         \* 128 MiB
NB(s) == (s + BS - 1) \div BS            \* number of blocks of a buffer of s bytes
BlockLen(s, b) == IF (b + 1) * BS <= s THEN BS ELSE s - b * BS

VARIABLES votes,     \* [Sizes -> Nat]
          infoLen,   \* length of the assembly buffer (0: none)
          cont,      \* [0..NB(infoLen)-1 -> {"none","honest","forged"}] what the buffer holds
          have,      \* set of block indexes marked as received
          complete,  \* metadata published
          crashed,   \* a slice expression went out of range
          lastRes,   \* outcome of the last step ("ok", "done", "ignored", or an error class)
          last       \* label

vars == <<votes, infoLen, cont, have, complete, crashed, lastRes, last>>

Blocks(s) == 0 .. (NB(s) - 1)
NoCont(s) == [b \in Blocks(s) |-> "none"]

Init ==
  /\ votes = [s \in Sizes |-> 0]
  /\ infoLen = 0 /\ cont = NoCont(0) /\ have = {} /\ complete = FALSE /\ crashed = FALSE
  /\ lastRes = "-" /\ last = [a |-> "Init"]

MaxVote == CHOOSE m \in {votes[s] : s \in Sizes} : \A s \in Sizes : votes[s] <= m
\* Go map iteration order is random: any size with the largest count may win
Guesses(v) == LET m == CHOOSE x \in {v[s] : s \in Sizes} : \A s \in Sizes : v[s] <= x
              IN IF m = 0 THEN {} ELSE {s \in Sizes : v[s] = m}

\* requestMetadata: resize the buffer to the current guess (loses progress)
Resize(v, g) ==
  IF g # infoLen
    THEN /\ infoLen' = g /\ cont' = NoCont(g) /\ have' = {}
    ELSE UNCHANGED <<infoLen, cont, have>>

(* TorPeerExtended: a peer announces metadata_size s *)
Vote(s) ==
  /\ ~complete /\ ~crashed
  /\ IF s <= 0 \/ s > Cap THEN
        /\ UNCHANGED <<votes, infoLen, cont, have>> /\ lastRes' = "badsize"
     ELSE
        /\ votes[s] < MaxVotes
        /\ LET v == [votes EXCEPT ![s] = @ + 1] IN
           /\ votes' = v
           /\ \E g \in Guesses(v) : Resize(v, g)
        /\ lastRes' = "ok"
  /\ UNCHANGED <<complete, crashed>>
  /\ last' = [a |-> "Vote", size |-> s]

(* the 5 s ticker: requestMetadata(t, nil) *)
Tick ==
  /\ ~complete /\ ~crashed
  /\ Guesses(votes) # {}
  /\ \E g \in Guesses(votes) : Resize(votes, g)
  /\ lastRes' = "ok"
  /\ UNCHANGED <<votes, complete, crashed>>
  /\ last' = [a |-> "Tick"]

(* TorMetaData: a data message {piece: idx, total_size: sz} with n bytes of *)
(* payload whose content is q ("honest": the true bytes at that offset)     *)
Block(idx, sz, n, q) ==
  /\ ~complete /\ ~crashed
  /\ last' = [a |-> "Block", idx |-> idx, sz |-> sz, n |-> n, q |-> q]
  /\ UNCHANGED votes
  /\ LET chunks == NB(infoLen)
         beyond == IF "index_eq_chunks" \in Dev THEN idx > chunks ELSE idx >= chunks
     IN
     IF sz # infoLen THEN
        /\ lastRes' = "size" /\ UNCHANGED <<infoLen, cont, have, complete, crashed>>
     ELSE IF beyond THEN
        /\ lastRes' = "beyond" /\ UNCHANGED <<infoLen, cont, have, complete, crashed>>
     ELSE IF n # BS /\ idx * BS + n # infoLen THEN
        /\ lastRes' = "length" /\ UNCHANGED <<infoLen, cont, have, complete, crashed>>
     ELSE IF idx \in have THEN
        \* duplicate: ignored, then requestMetadata
        /\ lastRes' = "ignored" /\ UNCHANGED <<complete, crashed>>
        /\ IF Guesses(votes) = {} THEN UNCHANGED <<infoLen, cont, have>>
           ELSE \E g \in Guesses(votes) : Resize(votes, g)
     ELSE IF idx * BS > infoLen THEN
        \* t.Info[index*16*1024:] with the start beyond the buffer
        /\ crashed' = TRUE /\ lastRes' = "panic" /\ UNCHANGED <<infoLen, cont, have, complete>>
     ELSE
        LET \* copy() writes min(n, infoLen - idx*BS) bytes: every block it touches
            \* takes the quality of the payload (a partially overwritten honest
            \* block is no longer honest unless the payload is honest too)
            written == {b \in Blocks(infoLen) : b >= idx /\ b * BS < idx * BS + n}
            wq(b)   == IF q = "honest" /\ infoLen = TrueSize /\
                          (b * BS + BlockLen(infoLen, b) <= idx * BS + n \/ cont[b] = "honest")
                         THEN "honest" ELSE "forged"
            ncont   == [b \in Blocks(infoLen) |-> IF b \in written THEN wq(b) ELSE cont[b]]
            nhave   == have \cup {idx}
            full    == \A b \in Blocks(infoLen) : b \in nhave
            digest  == infoLen = TrueSize /\ \A b \in Blocks(infoLen) : ncont[b] = "honest"
        IN
        IF ~full THEN
           /\ lastRes' = "ok" /\ UNCHANGED <<complete, crashed>>
           \* not done: requestMetadata may resize if the guess moved
           /\ IF Guesses(votes) = {}
                THEN /\ cont' = ncont /\ have' = nhave /\ UNCHANGED infoLen
                ELSE \E g \in Guesses(votes) :
                        IF g = infoLen THEN /\ cont' = ncont /\ have' = nhave /\ UNCHANGED infoLen
                        ELSE /\ infoLen' = g /\ cont' = NoCont(g) /\ have' = {}
        ELSE IF digest /\ ParseOK THEN
           /\ complete' = TRUE /\ lastRes' = "done"
           /\ cont' = ncont /\ have' = nhave /\ UNCHANGED <<infoLen, crashed>>
        ELSE
           \* hash mismatch (or the authentic dictionary is refused): start again
           /\ lastRes' = IF digest THEN "parse" ELSE "mismatch"
           /\ infoLen' = 0 /\ cont' = NoCont(0) /\ have' = {}
           /\ UNCHANGED <<complete, crashed>>

\* payload lengths a peer can choose for a message about block idx of a buffer of size sz
Lens(sz, idx) == {0, 1, BS, BS + 1} \cup
                 (IF sz > idx * BS THEN {sz - idx * BS, sz - idx * BS - 1} ELSE {}) \cup
                 (IF sz > 0 THEN {BlockLen(sz, NB(sz) - 1)} ELSE {})

Next ==
  \/ \E s \in Sizes : Vote(s)
  \/ Tick
  \/ \E sz \in Sizes, idx \in 0 .. (NB(TrueSize) + 1), q \in {"honest", "forged"} :
       \E n \in {m \in Lens(sz, idx) : m >= 0} : Block(idx, sz, n, q)

Spec == Init /\ [][Next]_vars

-----------------------------------------------------------------------------
Authentic == complete => infoLen = TrueSize /\ \A b \in Blocks(infoLen) : cont[b] = "honest"
InBounds  == ~crashed
\* an honest block of the right size and length for a settled buffer is never refused
HonestAccepted ==
  [][(last'.a = "Block" /\ last'.q = "honest" /\ last'.sz = TrueSize /\ infoLen = TrueSize /\
      last'.idx \in Blocks(TrueSize) /\ last'.n = BlockLen(TrueSize, last'.idx))
        => lastRes' \in {"ok", "done", "ignored", "mismatch", "parse"}]_vars
\* progress is lost only by a resize or a failed hash
TypeOK == /\ infoLen \in Sizes \cup {0} /\ have \subseteq 0 .. (NB(TrueSize) + 2)

\* One honest pass completes a clean, settled buffer: if the buffer has the
\* true size and holds no forged block, honest exact blocks for the missing
\* indexes (in any order) publish the metadata.  Checked as an invariant:
\* a clean full buffer of the true size cannot exist without being complete.
Clean == infoLen = TrueSize /\ \A b \in Blocks(infoLen) : cont[b] \in {"none", "honest"}
CleanFullIsComplete ==
  (ParseOK /\ Clean /\ \A b \in Blocks(infoLen) : b \in have) => complete
=============================================================================
