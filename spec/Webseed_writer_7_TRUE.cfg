SPECIFICATION WSpecMC
CONSTANTS BU = 2  RLen = 7  PieceBusy = TRUE
INVARIANTS NeverBeyondRange WholeBlocksOnly InStreamOrder ReleaseAll
CHECK_DEADLOCK FALSE
