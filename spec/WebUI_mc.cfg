SPECIFICATION Spec
INVARIANTS RefusedIsInert Emit
CHECK_DEADLOCK FALSE
