------------------------------ MODULE Namespace ------------------------------
(***************************************************************************)
(* C20: what the front-ends (HTTP file / directory / playlist views, FUSE  *)
(* tree) expose for a file list.  A path is a sequence of components; the  *)
(* file table is a sequence of paths.                                      *)
(*   Resolve(files, p) = k if files[k] = p exactly (the first such), else 0*)
(*   IsDir(files, d)   = some file lies strictly below d                   *)
(*   Entries(files, d) = the next components of the files below d          *)
(*   Listed(files, d)  = the files below d (for listings and playlists)    *)
(* Nothing else resolves: a partial prefix is a directory, never a file;   *)
(* an absent, crafted or empty component resolves to nothing.              *)
(***************************************************************************)
EXTENDS Integers, Sequences, FiniteSets, TLC

IsPrefix(d, p) == Len(d) <= Len(p) /\ \A i \in 1..Len(d) : d[i] = p[i]
Within(p, d) == Len(p) > Len(d) /\ IsPrefix(d, p)

Resolve(files, p) == IF \E k \in 1..Len(files) : files[k] = p
                       THEN CHOOSE k \in 1..Len(files) : files[k] = p /\ \A j \in 1..(k - 1) : files[j] # p
                       ELSE 0
IsDir(files, d)   == \E k \in 1..Len(files) : Within(files[k], d)
Entries(files, d) == {files[k][Len(d) + 1] : k \in {j \in 1..Len(files) : Within(files[j], d)}}
Listed(files, d)  == {k \in 1..Len(files) : Within(files[k], d)}

\* sanity of the operators: a file is found by its own path; a path resolves to at most one
\* thing per view; every file is listed in each of its ancestor directories
\* Paths are rendered by joining the components with "/" and parsed back by
\* splitting, so a component that is empty or contains a slash does not
\* survive the round trip.  Such a file table is not admissible: the torrent
\* must be refused when its metadata is read (tor/torfile.go).
Ambiguous == {"", "a/b", ".", ".."}   \* the members of that class used by the model ("." and ".." are removed by URL normalisation)
Admissible(files) == \A k \in 1..Len(files) : \A i \in 1..Len(files[k]) : files[k][i] \notin Ambiguous

\* Several torrents may carry the same name.  The FUSE root resolves a name to
\* one torrent, and always to the same one: the one with the least info-hash
\* (tor.GetByName).  tors is a sequence of [name, hash]; 0 = no such torrent.
ByName(tors, name) ==
  LET S == {k \in DOMAIN tors : tors[k].name = name} IN
  IF S = {} THEN 0 ELSE CHOOSE k \in S : \A j \in S : tors[k].hash <= tors[j].hash

\* A path is shadowed when one of its proper prefixes is itself a file: a tree
\* of directory entries (FUSE) can show that name either as the file or as
\* the directory, not both, so below it nothing is required of such a tree.
Shadowed(files, p) == \E k \in 1..Len(files) : Len(files[k]) < Len(p) /\ IsPrefix(files[k], p)

Sane(files) ==
  /\ \A k \in 1..Len(files) : Resolve(files, files[k]) # 0 /\ files[Resolve(files, files[k])] = files[k]
  /\ \A k \in 1..Len(files) : \A n \in 0..(Len(files[k]) - 1) : k \in Listed(files, SubSeq(files[k], 1, n))
=============================================================================
