------------------------------- MODULE Expire -------------------------------
(***************************************************************************)
(* C03, global eviction: tor.Expire (tor/tor.go) shares the low-water mark *)
(* between the torrents and launches one Pieces.Expire per torrent that    *)
(* exceeds its share.  Memory is counted in pieces (all pieces have the    *)
(* same size; Low, High are multiples of it).                              *)
(*                                                                         *)
(* The pass is not atomic: it reads the allocator's total first (PassRead),*)
(* then walks the torrents reading each store's size (PassFinish), and the *)
(* evictions it launches run in goroutines of their own (Evict), possibly  *)
(* still running when the next pass starts.  Blocks keep arriving (Add).   *)
(***************************************************************************)
EXTENDS Integers, FiniteSets, Sequences, SequencesExt

CONSTANTS T,        \* torrents
          Low, High,\* marks, in pieces
          MaxB,     \* bound on a torrent's size (model only)
          Dev       \* deviations of the code as shipped: {"DivZero"}

VARIABLES b,        \* b[t]: pieces held by torrent t
          pass,     \* "idle" | "read" | "crashed"
          space,    \* the total read by PassRead
          ev,       \* evictions launched and not yet run: sequence of [t, target] (two passes may each launch one for the same torrent)
          rc,       \* result of the last finished pass (-1, 0, +1) or 9 (none)
          dirty,    \* a block has arrived since the last pass that launched evictions was started
          last
vars == <<b, pass, space, ev, rc, dirty, last>>

RECURSIVE SumOver(_, _)
SumOver(f, S) == IF S = {} THEN 0 ELSE LET x == CHOOSE x \in S : TRUE IN f[x] + SumOver(f, S \ {x})
Alloc == SumOver(b, T)
Mid == (Low + High) \div 2

Init == /\ b \in [T -> 0..MaxB] /\ pass = "idle" /\ space = 0 /\ ev = <<>> /\ rc = 9 /\ dirty = TRUE
        /\ last = [a |-> "init"]

Add(t) == /\ b[t] < MaxB /\ b' = [b EXCEPT ![t] = @ + 1] /\ dirty' = TRUE
          /\ last' = [a |-> "Add", t |-> t]
          /\ UNCHANGED <<pass, space, ev, rc>>

PassRead == /\ pass = "idle" /\ pass' = "read" /\ space' = Alloc
            /\ last' = [a |-> "PassRead"]
            /\ UNCHANGED <<b, ev, rc, dirty>>

Fair == Low \div Cardinality(T)
Small == {t \in T : b[t] <= Fair}
Big == T \ Small
SmallSpace == SumOver(b, Small)

PassFinish ==
  /\ pass = "read"
  /\ last' = [a |-> "PassFinish"]
  /\ IF space < Mid THEN pass' = "idle" /\ rc' = 1 /\ UNCHANGED <<b, ev, dirty>>
     ELSE IF space < High THEN pass' = "idle" /\ rc' = 0 /\ UNCHANGED <<b, ev, dirty>>
     ELSE IF Big = {}
          THEN \* every store has shrunk below its share since the total was read
               IF "DivZero" \in Dev THEN pass' = "crashed" /\ UNCHANGED <<b, ev, rc, dirty>>
               ELSE pass' = "idle" /\ rc' = -1 /\ UNCHANGED <<b, ev, dirty>>
          ELSE LET fair2 == (Low - SmallSpace) \div Cardinality(Big) IN
               /\ ev' = ev \o SetToSeq({[t |-> t, target |-> fair2] : t \in {u \in Big : b[u] > fair2}})
               /\ pass' = "idle" /\ rc' = -1 /\ dirty' = FALSE /\ UNCHANGED b
  /\ UNCHANGED space

\* All the evictions that have been launched run to their end.  Pieces.Expire
\* computes what it has to free (its store's size minus the target) when it
\* starts and then frees that much: two evictions of the same store that run
\* together may both start from the same size and free twice.  So the result
\* lies between "each freed its full amount" and "the smallest target".
MaxOf(x, y) == IF x > y THEN x ELSE y
MinOf(x, y) == IF x < y THEN x ELSE y
EvOf(t) == SelectSeq(ev, LAMBDA e : e.t = t)
RECURSIVE TodoSum(_, _)
TodoSum(s, cur) == IF s = <<>> THEN 0 ELSE MaxOf(0, cur - Head(s).target) + TodoSum(Tail(s), cur)
RECURSIVE MinTarget(_)
MinTarget(s) == IF Len(s) = 1 THEN s[1].target ELSE MinOf(s[1].target, MinTarget(Tail(s)))
EvLo(t) == MaxOf(0, b[t] - TodoSum(EvOf(t), b[t]))
EvHi(t) == IF EvOf(t) = <<>> THEN b[t] ELSE MinOf(b[t], MinTarget(EvOf(t)))
Evict == /\ ev # <<>>
         /\ b' \in [T -> 0..MaxB] /\ \A t \in T : b'[t] \in EvLo(t)..EvHi(t)
         /\ ev' = <<>>
         /\ last' = [a |-> "Evict"]
         /\ UNCHANGED <<pass, space, rc, dirty>>

Next == (\E t \in T : Add(t)) \/ PassRead \/ PassFinish \/ Evict
Spec == Init /\ [][Next]_vars

TypeOK == /\ b \in [T -> 0..MaxB] /\ pass \in {"idle", "read", "crashed"} /\ rc \in {-1, 0, 1, 9}
NoCrash == pass # "crashed"
\* a pass that has launched its evictions, once they are done and if nothing arrived meanwhile,
\* has brought the total down to the low-water mark
DownToLow == (rc = -1 /\ ev = <<>> /\ ~dirty /\ pass = "idle") => Alloc <= Low
FewEv == Len(ev) <= 4
FewEv3 == Len(ev) <= 3
=============================================================================
