---------------------------- MODULE PieceStoreTrace ----------------------------
(* Validation of logs recorded from the real tor/piece code (harness binding   *)
(* "piecestore") against PieceStore.  One log line per specification action,   *)
(* with the projected state of the real store observed after the step.         *)
(*   TraceSpec (strict pass): every line must be explained by the named action *)
(*     of PieceStore and lead to the observed state; a line that cannot be     *)
(*     explained is reported (BADLINE) and skipped.                            *)
(*   MonSpec (monitor pass): the state is loaded from the log as is and the    *)
(*     property invariants are evaluated on every observed state.              *)
EXTENDS MCPieceStore, Json, IOUtils

Trace == ndJsonDeserialize(IOEnv.TRACE)

VARIABLE l

ThreadOf(n) == CHOOSE t \in Threads : ToString(t) = n
ToSet(s)    == {s[k] : k \in DOMAIN s}
OpOf(o)     == [k |-> o.k, i |-> o.i, c |-> o.c, n |-> o.n, q |-> o.q, sh |-> o.sh]
RetOf(r)    == [n |-> r.n, b |-> r.b, err |-> r.err, qs |-> ToSet(r.qs), ev |-> r.ev, cb |-> r.cb]

ObsPstate(S) == [i \in Piece |-> S.pstate[ToString(i)]]
ObsHasbuf(S) == [i \in Piece |-> S.hasbuf[ToString(i)]]
ObsCont(S)   == [i \in Piece |-> [c \in Chunks(i) |-> S.cont[ToString(i)][ToString(c)]]]
ObsPc(S)     == [t \in Threads |-> S.pc[ToString(t)]]
ObsRet(S)    == [t \in Threads |-> RetOf(S.ret[ToString(t)])]
ObsOp(S)     == [t \in Threads |-> OpOf(S.op[ToString(t)])]

\* the state after the step is the one that was observed
Match(S) ==
  /\ pstate'  = ObsPstate(S)
  /\ hasbuf'  = ObsHasbuf(S)
  /\ cont'    = ObsCont(S)
  /\ deleted' = S.deleted
  /\ count'   = S.count
  /\ pc'      = ObsPc(S)
  /\ \A t \in Threads : pc'[t] = "done" => ret'[t] = RetOf(S.ret[ToString(t)])

Load(S) ==
  /\ pstate'  = ObsPstate(S)
  /\ hasbuf'  = ObsHasbuf(S)
  /\ cont'    = ObsCont(S)
  /\ deleted' = S.deleted
  /\ count'   = S.count
  /\ rank'    = S.rank
  /\ nold'    = S.nold
  /\ pc'      = ObsPc(S)
  /\ op'      = ObsOp(S)
  /\ ret'     = ObsRet(S)
  /\ loc'     = [t \in Threads |-> NoLoc]
  /\ uaf'     = FALSE
  /\ crashed' = FALSE
  /\ last'    = [t |-> "-", a |-> "Load"]

Recycle(t) ==
  /\ pc[t] = "done" /\ op[t].k # "del"
  /\ pc'  = [pc EXCEPT ![t] = "idle"]
  /\ op'  = [op EXCEPT ![t] = NoOp]
  /\ ret' = [ret EXCEPT ![t] = NoRet]
  /\ loc' = [loc EXCEPT ![t] = NoLoc]
  /\ UNCHANGED <<pstate, hasbuf, cont, deleted, count, rank, nold, uaf, crashed>>
  /\ Lab(t, "Recycle")

\* the action named by log line e, with the logged arguments
Act(e) ==
  IF e.a = "reset" THEN Load(e.s)
  ELSE LET t == ThreadOf(e.t) IN
       CASE e.a \in {"AddBegin", "FinBegin", "ExpBegin", "DelBegin", "Read", "Touch", "Age"}
                 -> "op" \in DOMAIN e /\ Begin(t, OpOf(e.op)) /\ last'.a = e.a
            [] e.a = "AddCrit"   -> AddCrit(t)
            [] e.a = "FinLock"   -> FinLock(t)
            [] e.a = "FinHash"   -> FinHash(t)
            [] e.a = "FinCommit" -> FinCommit(t)
            [] e.a = "ExpBytes"  -> ExpBytes(t)
            [] e.a = "ExpOne"    -> ExpOne(t)
            [] e.a = "DelWake"   -> DelWake(t)
            [] e.a = "DelRelock" -> DelRelock(t)
            [] e.a = "Recycle"   -> Recycle(t)
            [] OTHER -> FALSE

Explained == LET e == Trace[l] IN Act(e) /\ (e.a = "reset" \/ Match(e.s))

\* why a line is not explained: the action is not enabled at all, or it is
\* but yields other values for the listed observables
Diag ==
  LET e == Trace[l] S == e.s
      F(name, ok) == IF ok THEN "" ELSE name \o ","
  IN IF ~ENABLED Act(e) THEN "noaction" ELSE
       F("pstate",  ENABLED (Act(e) /\ pstate' = ObsPstate(S))) \o
       F("hasbuf",  ENABLED (Act(e) /\ hasbuf' = ObsHasbuf(S))) \o
       F("cont",    ENABLED (Act(e) /\ cont' = ObsCont(S))) \o
       F("deleted", ENABLED (Act(e) /\ deleted' = S.deleted)) \o
       F("count",   ENABLED (Act(e) /\ count' = S.count)) \o
       F("pc",      ENABLED (Act(e) /\ pc' = ObsPc(S))) \o
       F("ret",     ENABLED (Act(e) /\ \A t \in Threads : pc'[t] = "done" => ret'[t] = RetOf(S.ret[ToString(t)])))

TraceInit ==
  /\ l = 1
  /\ pstate = [i \in Piece |-> "none"] /\ hasbuf = [i \in Piece |-> FALSE]
  /\ cont = [i \in Piece |-> Empty(i)] /\ deleted = FALSE /\ count = 0
  /\ rank = [k \in 1..NP |-> k - 1] /\ nold = 0
  /\ pc = [t \in Threads |-> "idle"] /\ op = [t \in Threads |-> NoOp]
  /\ loc = [t \in Threads |-> NoLoc] /\ ret = [t \in Threads |-> NoRet]
  /\ uaf = FALSE /\ crashed = FALSE /\ last = [t |-> "-", a |-> "Init"]

TraceNext ==
  /\ l <= Len(Trace)
  /\ l' = l + 1
  /\ \/ Explained
     \/ /\ ~ENABLED Explained
        /\ PrintT("BADLINE " \o ToString(l) \o " " \o Trace[l].a \o " " \o Diag)
        /\ UNCHANGED vars

TraceSpec == TraceInit /\ [][TraceNext]_<<vars, l>>

MonNext ==
  /\ l <= Len(Trace)
  /\ l' = l + 1
  /\ Load(Trace[l].s)

MonSpec == TraceInit /\ [][MonNext]_<<vars, l>>

\* position of the state in the log, for reporting
MonLine == l

TraceAccepted ==
  \/ TLCGet("stats").diameter - 1 = Len(Trace)
  \/ PrintT("TRACE_DEPTH " \o ToString(TLCGet("stats").diameter - 1) \o " of " \o ToString(Len(Trace))) /\ FALSE
=============================================================================
