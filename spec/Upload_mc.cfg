SPECIFICATION MCSpec
CONSTANTS
  p1 = p1  p2 = p2
  Peers = {p1, p2}
  Reqs <- MCReqs
  PieceOfReq <- MCPieceOfReq
  Servable <- MCServable
  Pieces = {0, 1}
  MaxSteps = 8
  QMax = 2
VIEW view
INVARIANTS CounterMatches QueueBounded ChokedHasNoQueue
PROPERTIES PieceDiscipline
CHECK_DEADLOCK FALSE
