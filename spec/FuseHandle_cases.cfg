SPECIFICATION CSpec
CONSTANTS
  Clients = {a, b}
  NPieces = 4
  Dev = {}
INVARIANTS Emit
CHECK_DEADLOCK FALSE
