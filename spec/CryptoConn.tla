------------------------------ MODULE CryptoConn ------------------------------
(***************************************************************************)
(* C08: crypto.Conn.Write -- encryption through a staging buffer of B      *)
(* bytes over an underlying connection that may accept fewer bytes than    *)
(* offered or fail.  Every byte on the wire is plaintext[k] xor            *)
(* keystream[k] for its own position k, and after the first failure        *)
(* nothing more is written.  Dev "no_latch": the error is not remembered.  *)
(***************************************************************************)
EXTENDS Integers, Sequences, TLC
CONSTANTS B, Sizes, MaxWrites, Dev
VARIABLES ks,      \* keystream bytes consumed
          plain,   \* plaintext bytes handed to Write so far (accepted calls)
          wire,    \* sequence of [p, k]: plaintext index and keystream index of each byte on the wire
          err, nw
vars == <<ks, plain, wire, err, nw>>
Init == ks = 0 /\ plain = 0 /\ wire = <<>> /\ err = FALSE /\ nw = 0

\* one Write(b) call with len(b) = n; the underlying connection accepts `acc' bytes of the first
\* chunk it is offered in this call and then fails (acc = -1: accepts everything)
Write(n, acc) ==
  /\ nw < MaxWrites /\ nw' = nw + 1
  /\ IF err /\ "no_latch" \notin Dev THEN UNCHANGED <<ks, plain, wire, err>>
     ELSE IF acc = -1 THEN
        /\ wire' = wire \o [j \in 1..n |-> [p |-> plain + j - 1, k |-> ks + j - 1]]
        /\ ks' = ks + n /\ plain' = plain + n /\ UNCHANGED err
     ELSE
        LET m == IF n < B THEN n ELSE B      \* first chunk
            l == IF acc < m THEN acc ELSE m
        IN /\ wire' = wire \o [j \in 1..l |-> [p |-> plain + j - 1, k |-> ks + j - 1]]
           /\ ks' = ks + m                    \* the whole chunk went through the cipher
           /\ plain' = plain + n
           /\ err' = TRUE
Next == \E n \in Sizes, acc \in {-1, 0, 1} : Write(n, acc)
Spec == Init /\ [][Next]_vars
Aligned == \A j \in 1..Len(wire) : wire[j].p = wire[j].k
InOrder == \A j \in 1..Len(wire) : wire[j].p = j - 1
=============================================================================
