---------------------------- MODULE CryptoPolicy ----------------------------
(***************************************************************************)
(* C08: which connection two ends with given encryption options establish. *)
(* Options: ach/pch/fch = allow/prefer/force the crypto (MSE) handshake,   *)
(* ae/pe/fe = allow/prefer/force RC4 encryption of the stream.             *)
(* Modes: "plain" (plaintext handshake, plaintext stream), "cplain" (MSE   *)
(* handshake, plaintext stream), "rc4" (MSE handshake, RC4 stream).        *)
(* Outcome(c, s, hs) follows crypto.{Client,Server}Handshake and           *)
(* protocol.{Client,Server}Handshake for a client that attempts handshake  *)
(* kind hs.  Dev "plain_ignores_force": as shipped, the plaintext          *)
(* handshake is accepted whatever ForceEncryption says, and the client     *)
(* side does not look at ForceCryptoHandshake.                             *)
(***************************************************************************)
EXTENDS Integers, FiniteSets, TLC

CONSTANT Dev

Opts == [ach : BOOLEAN, pch : BOOLEAN, fch : BOOLEAN, ae : BOOLEAN, pe : BOOLEAN, fe : BOOLEAN]

\* what a policy permits
Permits(o, mode) ==
  /\ o.fe  => mode = "rc4"
  /\ ~o.ae => mode # "rc4"
  /\ o.fch => mode # "plain"
  /\ ~o.ach => mode = "plain"

Provide(c) == (IF ~c.fe THEN {1} ELSE {}) \cup (IF c.ae THEN {2} ELSE {})

Select(s, prov) ==
  IF 2 \in prov /\ s.ae /\ s.pe THEN 2
  ELSE IF 1 \in prov /\ ~s.fe /\ ~s.pe THEN 1
  ELSE IF 2 \in prov /\ s.ae THEN 2
  ELSE IF 1 \in prov /\ ~s.fe THEN 1
  ELSE 0

Outcome(c, s, hs) ==
  IF hs = "plain" THEN
     IF "plain_ignores_force" \in Dev
       THEN (IF s.fch THEN "fail" ELSE "plain")
       ELSE (IF c.fe \/ c.fch \/ s.fe \/ s.fch THEN "fail" ELSE "plain")
  ELSE
     IF ~c.ach \/ Provide(c) = {} \/ ~s.ach THEN "fail"
     ELSE LET sel == Select(s, Provide(c)) IN
          IF sel = 0 THEN "fail"
          ELSE IF sel = 1 THEN (IF c.fe THEN "fail" ELSE "cplain")
          ELSE (IF ~c.ae THEN "fail" ELSE "rc4")

VARIABLES c, s, hs
Init == c \in Opts /\ s \in Opts /\ hs \in {"plain", "crypto"}
Next == UNCHANGED <<c, s, hs>>
Spec == Init /\ [][Next]_<<c, s, hs>>

\* a connection is only ever established in a mode both policies permit
Honoured == LET o == Outcome(c, s, hs) IN o # "fail" => Permits(c, o) /\ Permits(s, o)
\* the server only selects what the client offered
SelectOffered == hs = "crypto" /\ Outcome(c, s, hs) # "fail" => Select(s, Provide(c)) \in Provide(c)
=============================================================================
