------------------------------- MODULE MCCodec -------------------------------
EXTENDS Codec, Json

VARIABLE msg

Vals  == {<<0, 0>>, <<0, 1>>, <<0, 255>>, <<0, 256>>, <<0, 65535>>, <<1, 0>>, <<32767, 65535>>, <<32768, 0>>, <<65535, 65535>>}
Vals3 == {<<0, 0>>, <<0, 16384>>, <<65535, 65535>>}

M0 == {[k |-> n] : n \in {"KeepAlive", "Choke", "Unchoke", "Interested", "NotInterested", "HaveAll", "HaveNone"}}
M1 == {[k |-> n, index |-> v] : n \in {"Have", "SuggestPiece", "AllowedFast"}, v \in Vals}
M3 == {[k |-> n, index |-> a, begin |-> b, length |-> c] : n \in {"Request", "Cancel", "RejectRequest"},
                                                           a \in Vals3, b \in Vals3, c \in Vals3}
      \cup {[k |-> n, index |-> v, begin |-> v, length |-> v] : n \in {"Request", "Cancel", "RejectRequest"}, v \in Vals}
MBf == {[k |-> "Bitfield", n |-> n] : n \in {0, 1, 2, 17, 1000, 1048575}}    \* the last one makes a frame of exactly 1 MiB, the cap
MPc == {[k |-> "Piece", index |-> a, begin |-> b, n |-> n] : a \in Vals3, b \in Vals3, n \in {0, 1, 2, 16384}}
MPo == {[k |-> "Port", port |-> p] : p \in {0, 1, 255, 256, 65535}}

AllM == <<<<"lt_donthave", 3>>, <<"upload_only", 4>>, <<"ut_metadata", 2>>, <<"ut_pex", 1>>>>
ME0 == {[k |-> "Extended0", v |-> v, port |-> p, reqq |-> q, msize |-> s, ipv4 |-> a, ipv6 |-> b, m |-> mm, uo |-> u, e |-> e] :
          v \in {"", "STorrent 0.0"}, p \in {0, 6881}, q \in {<<0, 0>>, <<0, 250>>, <<65535, 65535>>},
          s \in {<<0, 0>>, <<0, 1>>, <<2048, 0>>}, a \in BOOLEAN, b \in BOOLEAN,
          mm \in {<<>>, AllM, <<<<"ut_metadata", 255>>>>}, u \in BOOLEAN, e \in BOOLEAN}
MMd == {[k |-> "ExtendedMetadata", sub |-> s, type |-> 1, piece |-> p, total |-> t, n |-> n] :
          s \in {2, 255}, p \in Vals3, t \in {<<0, 1>>, <<0, 16384>>, <<2048, 0>>}, n \in {0, 1, 16384}}
       \cup {[k |-> "ExtendedMetadata", sub |-> s, type |-> ty, piece |-> p, total |-> <<0, 0>>, n |-> 0] :
          s \in {2, 255}, ty \in {0, 2}, p \in Vals}
P4a == [k |-> 1, port |-> 6881, f |-> 0, six |-> FALSE]
P4b == [k |-> 2, port |-> 1, f |-> 19, six |-> FALSE]
P6a == [k |-> 3, port |-> 65535, f |-> 1, six |-> TRUE]
P6b == [k |-> 4, port |-> 256, f |-> 2, six |-> TRUE]
P6m == [k |-> 5, port |-> 6881, f |-> 1, six |-> TRUE]     \* an IPv4-mapped IPv6 address: still an 18-byte entry of added6
NoF(ps) == [k \in 1..Len(ps) |-> [ps[k] EXCEPT !.f = 0]]
\* longer lists, every peer with flags of its own: the flags string is indexed by peer, the peer list by bytes
P4n(n) == [k |-> 10 + n, port |-> 7000 + n, f |-> n, six |-> FALSE]
P6n(n) == [k |-> 20 + n, port |-> 8000 + n, f |-> n, six |-> TRUE]
Long4 == [n \in 1..4 |-> P4n(n)]
Long6 == [n \in 1..10 |-> P6n(n)]
Lists == {<<>>, <<P4a>>, <<P6a>>, <<P4a, P6a>>, <<P6a, P4b, P6b>>, <<P4a, P4b>>, <<P6m>>, <<P4a, P6m>>, Long4, Long6, Long4 \o Long6}
MPx == {[k |-> "ExtendedPex", sub |-> s, added |-> a, dropped |-> NoF(d)] : s \in {1, 5}, a \in Lists, d \in Lists}
MDh == {[k |-> "ExtendedDontHave", sub |-> s, index |-> v] : s \in {3, 7}, v \in Vals}

Msgs == M0 \cup M1 \cup M3 \cup MBf \cup MPc \cup MPo \cup ME0 \cup MMd \cup MPx \cup MDh

Init == msg \in Msgs
Next == UNCHANGED msg
Spec == Init /\ [][Next]_msg

Good == WellFormed(msg)
Emit == PrintT("CASE " \o ToJson([m |-> msg, toks |-> Encode(msg)]))
=============================================================================
