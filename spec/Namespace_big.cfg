SPECIFICATION Spec
CONSTANT Big = TRUE
INVARIANTS Good Emit
CHECK_DEADLOCK FALSE
