\* edge dump: 2 threads, 3 pieces, access-time alphabet (age, touch, expire, read)
SPECIFICATION EdgeSpec
CONSTANTS
  t1 = t1  t2 = t2  t3 = t3  t4 = t4  t5 = t5
  Threads = {t1, t2}
  NCh <- MCNCh3
  Avail <- MCAvail3
  Dev = {}
  Ops <- MCOpsLRU
  InitConds <- MCInitLRU
  InitNold <- MCNoldAll
  InitRanks <- MCRankAll
VIEW view
CHECK_DEADLOCK FALSE
ACTION_CONSTRAINT Emit
