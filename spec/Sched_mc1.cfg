\* one peer, full alphabet
SPECIFICATION Spec
CONSTANTS
  p1 = p1  p2 = p2
  Peers = {p1}
  NC = 3
  PieceOf <- MCPieceOf
  Dev = {}
  MaxMsgs = 4
  MaxReqs = 2
VIEW view
INVARIANTS Conservation Availability
CHECK_DEADLOCK FALSE
