SPECIFICATION Spec
CONSTANTS
  T = {t1, t2}
  Low = 14
  High = 16
  MaxB = 18
  Dev = {}
INVARIANTS TypeOK NoCrash DownToLow
CHECK_DEADLOCK FALSE
