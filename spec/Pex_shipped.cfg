SPECIFICATION Spec
CONSTANTS
  Addrs = {"a", "b", "c"}
  Dev = {"add_after_del"}
  MaxOps = 8
INVARIANTS NoBadDelta Settled
CHECK_DEADLOCK FALSE
