SPECIFICATION MCSpec
CONSTANTS
  PS = 32768
  TLen = 130172
  Offset = 30000
  Length = 70001
  Bufs = {7, 32768, 70000}
  SeekTargets <- MCSeeksSmall
  MaxOps = 5
VIEW view
INVARIANTS EofExactlyAtLength
PROPERTIES Window
CHECK_DEADLOCK FALSE
