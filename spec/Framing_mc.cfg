SPECIFICATION FairSpec
CONSTANTS
  Inputs <- MCInputs
  Dev = {}
INVARIANTS Total ExactlyFramed NeverBeyond Bounded Emit
PROPERTIES Terminates
CHECK_DEADLOCK FALSE
