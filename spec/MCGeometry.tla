------------------------------ MODULE MCGeometry ------------------------------
EXTENDS Geometry, Json

VARIABLE c

N(v) == [k |-> "n", v |-> v]
H62 == [k |-> "H62", v |-> 0]
H63 == [k |-> "H63", v |-> 0]
ABS == [k |-> "absent", v |-> 0]
F(len, path, pad) == [len |-> len, path |-> path, pad |-> pad]
\* piece lengths: 0, 1, 16383, 16384, 49152, 2^31, 2^32-16384 (as units u and remainder r)
PLs == {<<0, 0>>, <<0, 1>>, <<0, 16383>>, <<1, 0>>, <<3, 0>>, <<131072, 0>>, <<262143, 0>>, <<1, 1>>}
SingleLens == {ABS, N(-5), N(0), N(1), N(16384), N(49152), N(49153), N(147451), H62, H63}
FLens == {N(-3616), N(0), N(1), N(20000), N(49153), H62}
Files1 == {<<F(l, p, a)>> : l \in FLens, p \in {"ok", "absent", "emptylist"}, a \in BOOLEAN}
RL == {N(-3616), N(0), N(20000), N(49153)}
Files2 == {<<F(l1, "ok", FALSE), F(l2, "ok", a)>> : l1 \in RL \cup {H62}, l2 \in RL \cup {H62}, a \in BOOLEAN}
Files3 == {<<F(N(20000), "ok", FALSE), F(N(l2), "ok", TRUE), F(N(l3), "ok", FALSE)>> : l2 \in {0, 12768, -3616}, l3 \in {0, 1, 49153}}
          \cup {<<F(H63, "ok", FALSE), F(H63, "ok", FALSE), F(N(16386), "ok", FALSE)>>,     \* the sum wraps past 2^64 to 16384
                <<F(H63, "ok", FALSE), F(N(20000), "ok", FALSE), F(H63, "ok", FALSE)>>}
          \cup {<<F(N(0), "ok", FALSE), F(N(0), "ok", FALSE), F(N(0), "ok", FALSE)>>, <<F(N(0), "ok", FALSE), F(N(0), "ok", FALSE), F(N(5), "ok", FALSE)>>}
Tables == {"absent", "notmult20", "exact", "oneshort", "onelong"}
Names  == {"absent", "empty", "ok"}

Case(plu, plr, mode, length, files, table, name, order, extra, outer) ==
  [plu |-> plu, plr |-> plr, mode |-> mode, length |-> length, files |-> files, table |-> table,
   name |-> name, order |-> order, extra |-> extra, outer |-> outer]

\* single-file: every piece length x every length x every table (names/order/extras fixed) ...
S1 == {Case(p[1], p[2], "single", l, <<>>, t, "ok", "canonical", "none", 0) : p \in PLs, l \in SingleLens, t \in Tables}
\* ... and names, key orders, extra keys, outer shapes on a valid body
S2 == {Case(3, 0, "single", N(147451), <<>>, "exact", n, o, x, ou) :
         n \in Names, o \in {"canonical", "reversed"}, x \in {"none", "private", "nested"}, ou \in 0..10}
\* multi-file
M1 == {Case(p[1], p[2], "multi", ABS, fs, t, "ok", "canonical", "none", 0) :
         p \in {<<1, 0>>, <<3, 0>>, <<0, 0>>}, fs \in Files1 \cup Files2 \cup Files3, t \in {"exact", "oneshort", "onelong"}}
M2 == {Case(3, 0, "multi", ABS, fs, "exact", n, o, "none", ou) :
         fs \in Files3, n \in Names, o \in {"canonical", "reversed"}, ou \in {0, 3, 5}}
\* both / neither
B1 == {Case(1, 0, m, N(16384), <<F(N(16384), "ok", FALSE)>>, "exact", "ok", "canonical", "none", 0) : m \in {"both", "neither"}}

Cases == S1 \cup S2 \cup M1 \cup M2 \cup B1

Init == c \in Cases
Next == UNCHANGED c
Spec == Init /\ [][Next]_c
Good == Consistent(c)
Emit == PrintT("CASE " \o ToJson([c |-> c, exp |-> Expected(c)]))
=============================================================================
