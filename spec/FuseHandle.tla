------------------------------ MODULE FuseHandle ------------------------------
(***************************************************************************)
(* C02, FUSE front-end: one open file is one tor.Reader shared by all the  *)
(* reads issued on that handle (the mount allows asynchronous reads, and   *)
(* the kernel's read-ahead issues several at once).  fuse.go handle.Read   *)
(* is Seek(offset) followed by io.ReadFull(size), serialised by a          *)
(* semaphore held for the whole of both.  The file is counted in pieces;   *)
(* a read of a piece that has not arrived yet blocks until it arrives.     *)
(*                                                                         *)
(* Dev "seek_before_acquire": the Seek is done before the semaphore is     *)
(* taken - a second read then moves the position under a first one that    *)
(* is blocked in the middle of its ReadFull.                               *)
(***************************************************************************)
EXTENDS Integers, Sequences, FiniteSets

CONSTANTS Clients, NPieces, Dev
\* a read: first piece and number of pieces
Reads == {[off |-> o, n |-> n] : o \in 0..(NPieces - 1), n \in 1..2} 

VARIABLES req,      \* req[c]: the read client c performs
          pc,       \* "start", "seeked0" (sought before acquiring), "acquired", "reading", "done"
          got,      \* pieces delivered to c so far, in order
          pos,      \* the shared Reader's position
          holder,   \* who holds the semaphore ("-": nobody)
          missing   \* pieces that have not arrived yet
vars == <<req, pc, got, pos, holder, missing>>

InFile(r) == r.off + r.n <= NPieces
Init == /\ req \in [Clients -> {r \in Reads : InFile(r)}]
        /\ pc = [c \in Clients |-> "start"] /\ got = [c \in Clients |-> <<>>]
        /\ pos = 0 /\ holder = "-" /\ missing \in SUBSET (0..(NPieces - 1))

EarlySeek(c) == /\ "seek_before_acquire" \in Dev /\ pc[c] = "start"
                /\ pos' = req[c].off /\ pc' = [pc EXCEPT ![c] = "seeked0"]
                /\ UNCHANGED <<req, got, holder, missing>>

Acquire(c) == /\ holder = "-"
              /\ \/ pc[c] = "start" /\ "seek_before_acquire" \notin Dev
                 \/ pc[c] = "seeked0"
              /\ holder' = c
              /\ pc' = [pc EXCEPT ![c] = IF pc[c] = "seeked0" THEN "reading" ELSE "acquired"]
              /\ UNCHANGED <<req, got, pos, missing>>

Seek(c) == /\ holder = c /\ pc[c] = "acquired"
           /\ pos' = req[c].off /\ pc' = [pc EXCEPT ![c] = "reading"]
           /\ UNCHANGED <<req, got, holder, missing>>

\* ReadFull delivers one piece at a time from the shared position; it blocks on a missing piece
ReadPiece(c) == /\ holder = c /\ pc[c] = "reading" /\ Len(got[c]) < req[c].n
                /\ pos \notin missing /\ pos < NPieces
                /\ got' = [got EXCEPT ![c] = Append(@, pos)]
                /\ pos' = pos + 1
                /\ UNCHANGED <<req, pc, holder, missing>>

Finish(c) == /\ holder = c /\ pc[c] = "reading" /\ Len(got[c]) = req[c].n
             /\ pc' = [pc EXCEPT ![c] = "done"] /\ holder' = "-"
             /\ UNCHANGED <<req, got, pos, missing>>

Arrive(p) == /\ p \in missing /\ missing' = missing \ {p}
             /\ UNCHANGED <<req, pc, got, pos, holder>>

Next == (\E c \in Clients : EarlySeek(c) \/ Acquire(c) \/ Seek(c) \/ ReadPiece(c) \/ Finish(c))
        \/ \E p \in 0..(NPieces - 1) : Arrive(p)
Spec == Init /\ [][Next]_vars

\* what a read returns is exactly the requested range, whatever else happens on the handle
Exact == \A c \in Clients : pc[c] = "done" => got[c] = [k \in 1..req[c].n |-> req[c].off + k - 1]
\* and also while it is in progress: a prefix of it
Prefix == \A c \in Clients : \A k \in 1..Len(got[c]) : got[c][k] = req[c].off + k - 1
=============================================================================
