\* two peers, reduced alphabet (unchoke, choke, bitfield, exact blocks)
SPECIFICATION Spec
CONSTANTS
  p1 = p1  p2 = p2
  Peers = {p1, p2}
  NC = 3
  PieceOf <- MCPieceOf
  Dev = {}
  MaxMsgs = 5
  MaxReqs = 2
  Msgs <- Msgs2
VIEW view
INVARIANTS Conservation Availability
CHECK_DEADLOCK FALSE
