SPECIFICATION SimSpec
CONSTANTS
  p1 = p1  p2 = p2
  Peers = {p1, p2}
  NC = 4
  PieceOf <- MCPieceOf3
  Dev = {}
  MaxMsgs = 14
  MaxReqs = 6
  Depth = 45
CONSTRAINT bound
INVARIANTS Dump Conservation Availability
CHECK_DEADLOCK FALSE
