SPECIFICATION Spec
CONSTANTS
  Callers = {"a", "b", "k"}
  Shape <- Shape_send_await
  QCap = 2
  Dev = {}
INVARIANTS AfterDeleted KillIsComplete
PROPERTIES Returns LoopNeverStuck HelpersEnd
CHECK_DEADLOCK FALSE
