SPECIFICATION FairSpec
CONSTANTS
  Classes <- MCClasses
  Dev = {}
INVARIANTS NoPanic Bounded StopsAtOnce Emit
PROPERTIES Terminates
CHECK_DEADLOCK FALSE
