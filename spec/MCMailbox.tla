------------------------------ MODULE MCMailbox ------------------------------
EXTENDS Mailbox, Json
VARIABLE hist
MCInit == Init /\ hist = <<>>
MCNext == Next /\ hist' = Append(hist, last')
MCSpec == MCInit /\ [][MCNext]_<<vars, hist>>
\* every schedule of at most MaxLen steps on which the deviation delivers out of order
Short == Len(hist) <= 12
DumpBad == ~Ordered => PrintT("BEH " \o ToJson(hist))
\* simulation: complete runs
Done == closed /\ box = <<>> /\ backlog = <<>>
Dump == Done => PrintT("BEH " \o ToJson(hist))
=============================================================================
