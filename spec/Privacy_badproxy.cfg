SPECIFICATION Spec
CONSTANTS
  PxOk = FALSE
INVARIANTS TypeOK PrivacyInv NothingPastBadProxy
PROPERTIES ProxyFixed
CHECK_DEADLOCK FALSE
