------------------------------ MODULE MCByName ------------------------------
(* Case table for Namespace!ByName: up to four torrents named "dup" (single- or  *)
(* multi-file, in any order of their hashes) and one named "other"; the probe is *)
(* the shared name, the other name or an absent one.  The harness cannot choose  *)
(* info-hashes, so a case gives the *rank* of each torrent's hash; it creates    *)
(* that many torrents, sorts them by their real hashes and assigns the ranks.    *)
EXTENDS Namespace, Json, TLC
VARIABLE c
Kinds == {"single", "multi"}
Perms(n) == {p \in [1..n -> 1..n] : \A i, j \in 1..n : i # j => p[i] # p[j]}
Cases == UNION {{[kinds |-> k, rank |-> r, probe |-> pr] : k \in [1..n -> Kinds], r \in Perms(n), pr \in {"dup", "other", "absent"}} : n \in 1..3}
Init == c \in Cases
Next == UNCHANGED c
Spec == Init /\ [][Next]_c
Tors == [i \in 1..(Len(c.kinds) + 1) |-> IF i <= Len(c.kinds) THEN [name |-> "dup", hash |-> c.rank[i]] ELSE [name |-> "other", hash |-> 0]]
Emit == PrintT("CASE " \o ToJson([kinds |-> c.kinds, rank |-> c.rank, probe |-> c.probe, expectk |-> ByName(Tors, c.probe)]))
=============================================================================
