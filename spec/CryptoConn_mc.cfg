SPECIFICATION Spec
CONSTANTS
  B = 2
  Sizes = {1, 2, 3, 5}
  MaxWrites = 4
  Dev = {}
INVARIANTS Aligned InOrder
CHECK_DEADLOCK FALSE
