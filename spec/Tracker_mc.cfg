SPECIFICATION Spec
CONSTANTS
  Replies <- MCReplies
  Elapsed <- MCElapsed
  MaxContacts = 3
VIEW view
INVARIANTS NeverStuckBusy MinGap NoPeersOnError
CHECK_DEADLOCK FALSE
