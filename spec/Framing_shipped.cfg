SPECIFICATION FairSpec
CONSTANTS
  Inputs <- MCInputs
  Dev = {"ha_len", "ext_len1"}
INVARIANTS Total ExactlyFramed NeverBeyond Bounded Emit
PROPERTIES Terminates
CHECK_DEADLOCK FALSE
