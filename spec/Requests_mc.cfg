SPECIFICATION MCSpec
CONSTANTS
  Pieces = {0, 1}
  Consumers = {"k1", "k2"}
  Prios = {0, 1}
  MaxOps = 4
  Dev = {}
CONSTRAINT bound
INVARIANTS NoLostWakeup PrioConserved EntryIffWanted
CHECK_DEADLOCK FALSE
