SPECIFICATION FSpec
CONSTANTS BU = 2  RLen = 4  PieceBusy = FALSE
INVARIANTS Good Emit
CHECK_DEADLOCK FALSE
