SPECIFICATION Spec
CONSTANTS
  Callers = {"a", "b", "k"}
  Shape <- Shape_want_send
  QCap = 2
  Dev = {}
INVARIANTS AfterDeleted KillIsComplete
PROPERTIES Returns LoopNeverStuck HelpersEnd
CHECK_DEADLOCK FALSE
