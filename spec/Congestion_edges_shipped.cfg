SPECIFICATION Spec
CONSTANTS
  WCap = 4
  MaxQ = 3
  Dev = {"stale_after_congested_choke"}
VIEW view
ACTION_CONSTRAINT Emit
CHECK_DEADLOCK FALSE
