SPECIFICATION Spec
CONSTANTS Dev = {"plain_ignores_force"}
INVARIANTS Honoured SelectOffered Emit
CHECK_DEADLOCK FALSE
