------------------------------- MODULE Framing -------------------------------
(***************************************************************************)
(* Decoding one peer-wire message (protocol.Read), as a state machine over *)
(* an abstract input.  C04: the outcome is a well-formed message that      *)
(* consumed exactly 4+len bytes, or an error; never "nothing", never a     *)
(* read beyond the frame, never an allocation that is not bounded by the   *)
(* frame length; frames above 1 MiB are refused.                           *)
(*                                                                         *)
(* A length is a pair (hi, lo) of 16-bit halves because TLC integers are   *)
(* 32-bit signed.  len = -1 ("auto") means: 2 + the length of the body     *)
(* class, computed by the harness.                                         *)
(*                                                                         *)
(* The message layout is written from BEP 3, 5, 6, 9, 10, 11 and the       *)
(* lt_donthave / upload_only extensions, with the sub-ids storrent itself  *)
(* advertises (1 pex, 2 metadata, 3 donthave, 4 upload_only).              *)
(*                                                                         *)
(* Dev: as-shipped deviations: "ha_len" (have-all/none of length # 1 give  *)
(* no message and no error), "ext_len1" (an extended frame of length 1     *)
(* reads its sub-id, and then its body, from beyond the frame).            *)
(***************************************************************************)
EXTENDS Integers, Sequences, FiniteSets, TLC

CONSTANTS Inputs,   \* set of abstract inputs (defined in MCFraming)
          Dev

VARIABLES in,        \* the input being decoded
          phase,     \* "len", "id", "body", "done"
          consumed,  \* bytes consumed so far from the start of the frame (or FrameEndAuto / Beyond)
          alloc,     \* largest allocation requested: "none", "frame" (<= len) or "huge"
          out        \* "-", "error", "none" or the kind of message

vars == <<in, phase, consumed, alloc, out>>

Cap == 1048576
FrameEndAuto == -2     \* "the end of the frame" when the length is computed by the harness
Beyond == -3           \* somewhere beyond the end of the frame

TooBig(i) == i.lh > 16 \/ (i.lh = 16 /\ i.ll > 0)
Auto(i)   == i.lh = -1
FLen(i)    == i.lh * 65536 + i.ll            \* only for ~TooBig /\ ~Auto

\* how many bytes of the stream exist, relative to this frame
\*  cut = "no": the whole frame and a following frame;  "mid": one byte short of the frame;
\*  "inlen": 2 bytes;  "afterlen": 4 bytes;  "afterid": 5 bytes
Has(i, n) ==     \* are the first n bytes of the frame (prefix included) available?
  CASE i.cut = "no"       -> TRUE
    [] i.cut = "inlen"    -> n <= 2
    [] i.cut = "afterlen" -> n <= 4
    [] i.cut = "afterid"  -> n <= 5
    [] i.cut = "mid"      -> IF Auto(i) THEN n <= 5 ELSE n < 4 + FLen(i)   \* auto bodies are > 1 byte

Init ==
  /\ in \in Inputs
  /\ phase = "len" /\ consumed = 0 /\ alloc = "none" /\ out = "-"

Done(o, c, a) ==
  /\ phase' = "done" /\ out' = o /\ consumed' = c /\ alloc' = a /\ UNCHANGED in

ReadLen ==
  /\ phase = "len"
  /\ IF ~Has(in, 4) THEN Done("error", 0, "none")
     ELSE IF ~Auto(in) /\ in.lh = 0 /\ in.ll = 0 THEN Done("KeepAlive", 4, "none")
     ELSE IF ~Auto(in) /\ TooBig(in) THEN Done("error", 4, "none")
     ELSE /\ phase' = "id" /\ consumed' = 4 /\ UNCHANGED <<in, alloc, out>>

\* fixed-length messages: id -> (kind, required length)
Fixed == [k \in {0, 1, 2, 3, 4, 6, 8, 9, 13, 14, 15, 16, 17} |->
            CASE k = 0 -> <<"Choke", 1>>          [] k = 1 -> <<"Unchoke", 1>>
              [] k = 2 -> <<"Interested", 1>>     [] k = 3 -> <<"NotInterested", 1>>
              [] k = 4 -> <<"Have", 5>>           [] k = 6 -> <<"Request", 13>>
              [] k = 8 -> <<"Cancel", 13>>        [] k = 9 -> <<"Port", 3>>
              [] k = 13 -> <<"SuggestPiece", 5>>  [] k = 14 -> <<"HaveAll", 1>>
              [] k = 15 -> <<"HaveNone", 1>>      [] k = 16 -> <<"RejectRequest", 13>>
              [] k = 17 -> <<"AllowedFast", 5>>]

ReadId ==
  /\ phase = "id"
  /\ IF ~Has(in, 5) THEN Done("error", 4, "none")
     ELSE /\ phase' = "body" /\ consumed' = 5 /\ UNCHANGED <<in, alloc, out>>

\* outcome for the bencoded bodies of extended messages 0, 1, 2.
\*   "msg": must decode; "error": must be refused; "either": both acceptable
\* "kv:<key>:<shape>": a dictionary in which one key the decoder knows carries a value of an unexpected shape
\* (empty string, one-byte strings, integers out of range, lists, dictionaries)
KVKeys(sub) == CASE sub = 0 -> {"m", "p", "reqq", "v", "upload_only", "e", "ipv4", "ipv6", "metadata_size"}
                 [] sub = 1 -> {"added", "added.f", "added6", "added6.f", "dropped", "dropped6"}
                 [] sub = 2 -> {"msg_type", "piece", "total_size"}
                 [] OTHER -> {}
KVShapes == {"estr", "str0", "strnul", "str1", "strx", "int0", "int1", "intneg", "intbig", "list", "dict", "liststr", "dictint", "dictstr"}
KVBody(k, sh) == "kv:" \o k \o ":" \o sh
KVBodies(sub) == {KVBody(k, sh) : k \in KVKeys(sub), sh \in KVShapes}

BencOutcome(sub, body) ==
  CASE body \in {"valid", "trailing", "dupkeys"}            -> "msg"
    [] body \in KVBodies(sub) -> "either"
    [] body \in {"truncated", "nondict", "hugestr", "filler", "empty"} -> "error"
    [] body \in {"deep", "hugeint", "wrongtype", "unknownkeys", "negint", "pexshortflags", "pexoddlen"} -> "either"
    [] OTHER -> "error"

ExtKind(sub) == CASE sub = 0 -> "Extended0" [] sub = 1 -> "ExtendedPex" [] sub = 2 -> "ExtendedMetadata"
                  [] sub = 3 -> "ExtendedDontHave" [] sub = 4 -> "ExtendedUploadOnly" [] OTHER -> "ExtendedUnknown"

ReadBody ==
  /\ phase = "body"
  /\ LET n   == IF Auto(in) THEN -1 ELSE FLen(in)
         all == IF Auto(in) THEN in.cut = "no" ELSE Has(in, 4 + n)      \* whole frame available
         end == IF Auto(in) THEN FrameEndAuto ELSE 4 + n                      \* position of the end of the frame
     IN
     IF in.id \in DOMAIN Fixed THEN
        IF n # Fixed[in.id][2] THEN
           IF in.id \in {14, 15} /\ "ha_len" \in Dev THEN Done("none", 5, "none")
           ELSE Done("error", 5, "none")
        ELSE IF ~all THEN Done("error", 5, "none")
        ELSE Done(Fixed[in.id][1], end, "none")
     ELSE IF in.id = 5 THEN
        IF ~all THEN Done("error", 5, "frame") ELSE Done("Bitfield", end, "frame")
     ELSE IF in.id = 7 THEN
        IF n < 9 THEN Done("error", 5, "none")
        ELSE IF ~all THEN Done("error", 5, "frame") ELSE Done("Piece", end, "frame")
     ELSE IF in.id = 20 THEN
        IF ~Auto(in) /\ n < 2 THEN
           IF "ext_len1" \in Dev
             THEN Done(IF in.sub \in {0, 1, 2} THEN "error" ELSE ExtKind(in.sub), Beyond,
                       IF in.sub = 2 THEN "huge" ELSE "none")
             ELSE Done("error", 5, "none")
        ELSE IF ~Has(in, 6) THEN Done("error", 5, "none")
        ELSE IF in.sub \in {0, 1, 2} THEN
           LET o == BencOutcome(in.sub, in.body) IN
           IF ~all THEN Done("error", 6, "frame")
           ELSE IF o = "msg" THEN Done(ExtKind(in.sub), end, "frame")
           ELSE IF o = "error" THEN Done("error", 6, "frame")
           ELSE Done("either:" \o ExtKind(in.sub), end, "frame")
        ELSE IF in.sub = 3 THEN
           IF n # 6 THEN Done("error", 6, "none")
           ELSE IF ~all THEN Done("error", 6, "none") ELSE Done("ExtendedDontHave", end, "none")
        ELSE IF in.sub = 4 THEN
           IF n # 3 THEN Done("error", 6, "none")
           ELSE IF ~all THEN Done("error", 6, "none")
           ELSE IF in.body \in {"v0", "v1"} THEN Done("ExtendedUploadOnly", end, "none")
           ELSE Done("error", end, "none")
        ELSE
           IF ~all THEN Done("error", 6, "none") ELSE Done("ExtendedUnknown", end, "none")
     ELSE   \* unknown id: skipped as a whole
        IF ~all THEN Done("error", 5, "none") ELSE Done("Unknown", end, "none")

Next == ReadLen \/ ReadId \/ ReadBody
Spec == Init /\ [][Next]_vars
FairSpec == Spec /\ WF_vars(Next)

-----------------------------------------------------------------------------
IsMsg(o)  == o \notin {"-", "error", "none"}
FrameEnd  == IF Auto(in) THEN FrameEndAuto ELSE 4 + FLen(in)

\* never "no message and no error"
Total == phase = "done" => out # "none" /\ out # "-"
\* a message consumed exactly the frame
ExactlyFramed == phase = "done" /\ IsMsg(out) /\ out # "KeepAlive" => consumed = FrameEnd
\* nothing is ever read beyond the frame
NeverBeyond == consumed # Beyond /\
               (~Auto(in) /\ ~TooBig(in) /\ consumed >= 0 => consumed <= 4 + FLen(in))
\* allocations are bounded by the frame, frames above the cap are refused outright
Bounded == alloc # "huge" /\ (phase = "done" /\ ~Auto(in) /\ TooBig(in) /\ Has(in, 4) => out = "error" /\ alloc = "none")
Terminates == <>(phase = "done")
=============================================================================
