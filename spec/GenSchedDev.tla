----------------------------- MODULE GenSchedDev -----------------------------
(***************************************************************************)
(* Schedules of Sched.tla on which a deviation breaks a property, for      *)
(* replay on the real handlers (which must then behave).  Two deviations:  *)
(*   late_dup_silent    a good block for a piece that has been completed   *)
(*                      through another peer is released by nobody (C09)   *)
(*   choke_forgets_fast a Choke from a fast-extension peer that allowed    *)
(*                      nothing fast forgets the requests it still holds:  *)
(*                      the next request for the block is a duplicate at   *)
(*                      the remote (C11)                                   *)
(* `remote` is what the remote peer holds of our requests (a fast peer     *)
(* keeps them over a choke until it answers or rejects); `dup` latches a   *)
(* request sent for a block the remote still holds.  The alphabet is cut   *)
(* down to what these races need; one schedule per bad state (VIEW), where *)
(* `used` - the peers that have sent requests - is part of the state so    *)
(* that one-peer and two-peer ways into the same bookkeeping are kept.     *)
(***************************************************************************)
EXTENDS MCSched
VARIABLES hist, remote, dup, used
CONSTANT MaxLen

DevMsgs == {[k |-> "unchoke"], [k |-> "choke"]} \cup {[k |-> "piece", c |-> c, pl |-> "exact"] : c \in Chunk}

\* warm start: every peer has advertised every piece and unchoked us, and the torrent has handled that; the steps that
\* lead there are the prefix of the schedule
Warm(p) == <<[a |-> "Msg", p |-> p, m |-> [k |-> "bitfield", s |-> Piece]], [a |-> "TorHandle", p |-> p, e |-> "bitmap"],
             [a |-> "Msg", p |-> p, m |-> [k |-> "unchoke"]]>>
RECURSIVE WarmAll(_)
WarmAll(S) == IF S = {} THEN <<>> ELSE LET p == CHOOSE x \in S : TRUE IN Warm(p) \o WarmAll(S \ {p})
DevInit == /\ inFlight = [c \in Chunk |-> 0] /\ avail = [i \in Piece |-> Cardinality(Peers)]
           /\ torQ = [p \in Peers |-> <<>>] /\ peerQ = [p \in Peers |-> <<>>]
           /\ pb = [p \in Peers |-> Piece] /\ pbnil = [p \in Peers |-> FALSE]
           /\ unch = [p \in Peers |-> TRUE] /\ fast = [p \in Peers |-> {}]
           /\ canFast \in [Peers -> BOOLEAN]
           /\ q = [p \in Peers |-> <<>>] /\ r = [p \in Peers |-> {}]
           /\ store = {} /\ pcomplete = {}
           /\ nmsg = 0 /\ nreq = 0 /\ last = [a |-> "Init"]
           /\ hist = <<[a |-> "Init", canFast |-> canFast]>> \o WarmAll(Peers)
           /\ remote = [p \in Peers |-> {}] /\ dup = FALSE /\ used = {}

\* (the scheduler asks only for blocks of pieces it does not have)
Step(p) == \/ \E c \in Chunk : PieceOf[c] \notin pcomplete /\ TorRequest(p, {c})
           \/ TorHandle(p) \/ PeerEvent(p) \/ Pump(p)
           \/ \E m \in DevMsgs : Msg(p, m)

Sent(p) == {x.c : x \in r'[p]} \ {x.c : x \in r[p]}
DevNext == /\ Len(hist) < MaxLen + 1 + 3 * Cardinality(Peers)
           /\ \E p \in Peers :
                /\ Step(p)
                /\ hist' = Append(hist, last')
                /\ dup' = (dup \/ Sent(p) \cap remote[p] # {})
                /\ used' = (IF Sent(p) # {} THEN used \cup {p} ELSE used)
                /\ remote' = [remote EXCEPT ![p] =
                      IF last'.a = "Msg" /\ last'.m.k = "piece" THEN @ \ {last'.m.c}
                      ELSE IF last'.a = "Msg" /\ last'.m.k = "choke" /\ ~canFast[p] THEN {}
                      ELSE @ \cup Sent(p)]
DevSpec == DevInit /\ [][DevNext]_<<vars, hist, remote, dup, used>>

Bad == dup \/ ~Conservation
DumpBad == Bad => PrintT("BEH " \o ToJson([bad |-> IF dup THEN "dup" ELSE "conservation", steps |-> hist]))
devview == <<inFlight, avail, torQ, peerQ, pb, pbnil, unch, fast, canFast, q, r, store, pcomplete, remote, dup, used>>
=============================================================================
