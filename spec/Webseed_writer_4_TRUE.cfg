SPECIFICATION WSpecMC
CONSTANTS BU = 2  RLen = 4  PieceBusy = TRUE
INVARIANTS NeverBeyondRange WholeBlocksOnly InStreamOrder ReleaseAll
CHECK_DEADLOCK FALSE
