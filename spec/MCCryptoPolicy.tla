--------------------------- MODULE MCCryptoPolicy ---------------------------
EXTENDS CryptoPolicy, Json, Sequences
B(o) == <<o.ach, o.pch, o.fch, o.ae, o.pe, o.fe>>
Emit == PrintT("CASE " \o ToJson([c |-> B(c), s |-> B(s), hs |-> hs, exp |-> Outcome(c, s, hs)]))
=============================================================================
