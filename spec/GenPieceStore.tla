---------------------------- MODULE GenPieceStore ----------------------------
(* Behaviour generation from PieceStore: edge dump of the reachable graph   *)
(* (ACTION_CONSTRAINT Emit) and simulated behaviours (history variable).    *)
EXTENDS MCPieceStore, Json

VARIABLE hist

StateRec == [pstate |-> pstate, hasbuf |-> hasbuf, cont |-> cont, deleted |-> deleted,
             count |-> count, rank |-> rank, nold |-> nold, pc |-> pc, op |-> op, loc |-> loc, ret |-> ret,
             uaf |-> uaf, crashed |-> crashed]

\* exhaustive edge dump
EdgeInit == Init /\ hist = <<>>
EdgeNext == Next /\ UNCHANGED hist
EdgeSpec == EdgeInit /\ [][EdgeNext]_<<vars, hist>>
Emit == PrintT("EDGE " \o ToJson([f |-> StateRec, a |-> last', t |-> StateRec']))
EmitInit == pc = [t \in Threads |-> "idle"] => PrintT("INIT " \o ToJson(StateRec))

\* the deletion race: every thread runs its own operation (filtered inside the next-state relation)
RaceNext == Next /\ RaceAssigned' /\ UNCHANGED hist
RaceSpec == EdgeInit /\ [][RaceNext]_<<vars, hist>>

\* simulation
SimInit == Init /\ hist = <<[a |-> last, s |-> StateRec]>>
SimNext == Next /\ hist' = Append(hist, [a |-> last', s |-> StateRec'])
SimSpec == SimInit /\ [][SimNext]_<<vars, hist>>
Dump == (AllDone \/ crashed) => PrintT("BEH " \o ToJson(hist))
=============================================================================
