------------------------------- MODULE MCWebUI -------------------------------
EXTENDS WebUI, Json
Emit == PrintT("CASE " \o ToJson([route |-> r, method |-> m, host |-> h, expect |-> Expect, shown |-> Shown(r), changes |-> Changes(r), playlist |-> Playlist(r), nfiles |-> PlaylistFiles(r)]))
=============================================================================
