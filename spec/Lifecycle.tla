------------------------------ MODULE Lifecycle ------------------------------
(***************************************************************************)
(* The torrent's event loop, its deletion, and the blocking API calls      *)
(* (tor/tor.go: run, AddTorrent wrapper, Kill and every exported call).    *)
(* C17: every call returns, whatever its interleaving with deletion; after *)
(* deletion the torrent is unlisted and its memory released.               *)
(*                                                                         *)
(* A call has a shape:                                                     *)
(*   "send"   select { Event <- e | <-Done }                               *)
(*   "await"  the same, then select { <-reply | <-Done }   (unbuffered     *)
(*            reply channel: the loop blocks until the caller receives)    *)
(*   "want"   Torrent.Request(want=true): send, then receive the reply     *)
(*   "kill"   send GoAway, then wait for Deleted                           *)
(* Go's select chooses at random among ready cases: both are enabled.      *)
(* Dev "want_bare_recv": the shipped Request waits with a bare receive.    *)
(* Dev "kill_waits_done": Kill returns when Done is closed (too early).    *)
(* Dev "fetch_ignores_cancel": a web-seed fetch started by the loop does   *)
(* not watch the context the loop cancels when it exits, and so ends only  *)
(* when the server answers (or the HTTP client times out).                 *)
(* Dev "send_ignores_done": a "send" (e.g. the exit path of a peer, which  *)
(* flushes its last events to the torrent) checks Done once before it      *)
(* starts instead of in the select: with the queue full when the loop      *)
(* stops, it never returns.                                                *)
(***************************************************************************)
EXTENDS Integers, Sequences, FiniteSets, TLC

CONSTANTS Callers, Shape, QCap, Dev

VARIABLES loop,      \* "run", "closing" (Done closed), "freed" (store released), "exited" (unlisted, Deleted closed)
          q,         \* queue of events: caller ids, or "goaway"
          handling,  \* caller whose event the loop is answering ("-" if none)
          pc, res,   \* per caller
          listed, memory,
          fetch      \* the torrent's helper goroutine (a web-seed fetch): "idle", "running", "ended"

vars == <<loop, q, handling, pc, res, listed, memory, fetch>>
DoneClosed == loop # "run"
Deleted == loop = "exited"

Init == /\ loop = "run" /\ q = <<>> /\ handling = "-"
        /\ pc = [c \in Callers |-> "start"] /\ res = [c \in Callers |-> "-"]
        /\ listed = TRUE /\ memory = TRUE /\ fetch = "idle"

Return(c, r) == pc' = [pc EXCEPT ![c] = "returned"] /\ res' = [res EXCEPT ![c] = r]

\* select { Event <- e | <-Done }
Send(c) ==
  /\ pc[c] = "start"
  /\ \/ /\ Len(q) < QCap
        /\ q' = Append(q, IF Shape[c] = "kill" THEN "goaway" ELSE c)
        /\ IF Shape[c] = "send" THEN Return(c, "ok")
           ELSE pc' = [pc EXCEPT ![c] = "sent"] /\ UNCHANGED res
        /\ UNCHANGED <<loop, handling, listed, memory, fetch>>
     \/ /\ DoneClosed /\ ~("send_ignores_done" \in Dev /\ Shape[c] = "send" /\ Len(q) = QCap)
        /\ Return(c, "dead")
        /\ UNCHANGED <<loop, q, handling, listed, memory, fetch>>

\* the loop takes the next event
Take ==
  /\ loop = "run" /\ handling = "-" /\ q # <<>>
  /\ q' = Tail(q)
  /\ IF Head(q) = "goaway" THEN loop' = "closing" /\ UNCHANGED handling
     ELSE IF Shape[Head(q)] = "send" THEN UNCHANGED <<loop, handling>>
     ELSE handling' = Head(q) /\ UNCHANGED loop
  /\ UNCHANGED <<pc, res, listed, memory, fetch>>

\* rendezvous on the reply channel: the loop sends, the waiting caller receives
Reply ==
  /\ handling # "-" /\ pc[handling] = "sent"
  /\ Return(handling, "value")
  /\ handling' = "-"
  /\ UNCHANGED <<loop, q, listed, memory, fetch>>

\* the caller gives up waiting for the reply when Done is closed
GiveUp(c) ==
  /\ pc[c] = "sent" /\ Shape[c] \in {"await", "want"} /\ DoneClosed
  /\ ~(Shape[c] = "want" /\ "want_bare_recv" \in Dev)
  /\ Return(c, "dead")
  /\ UNCHANGED <<loop, q, handling, listed, memory, fetch>>

\* exit path of run() and of the wrapper, step by step
Exit ==
  /\ handling = "-"
  /\ \/ loop = "closing" /\ loop' = "freed" /\ memory' = FALSE /\ UNCHANGED listed
     \/ loop = "freed" /\ loop' = "exited" /\ listed' = FALSE /\ UNCHANGED memory
  /\ UNCHANGED <<q, handling, pc, res, fetch>>

\* Kill waits for Deleted
KillDone(c) ==
  /\ pc[c] = "sent" /\ Shape[c] = "kill" /\ (IF "kill_waits_done" \in Dev THEN DoneClosed ELSE Deleted)
  /\ Return(c, "ok")
  /\ UNCHANGED <<loop, q, handling, listed, memory, fetch>>

\* the loop starts a fetch from a web seed in a goroutine of its own (maybeWebseed)
StartFetch ==
  /\ loop = "run" /\ handling = "-" /\ fetch = "idle"
  /\ fetch' = "running"
  /\ UNCHANGED <<loop, q, handling, pc, res, listed, memory>>
\* the server answers, sooner or later or never (no fairness) ...
FetchAnswered ==
  /\ fetch = "running" /\ fetch' = "ended"
  /\ UNCHANGED <<loop, q, handling, pc, res, listed, memory>>
\* ... or the fetch is abandoned because the loop's context is cancelled when it exits
FetchCancelled ==
  /\ fetch = "running" /\ DoneClosed /\ "fetch_ignores_cancel" \notin Dev
  /\ fetch' = "ended"
  /\ UNCHANGED <<loop, q, handling, pc, res, listed, memory>>

Next == Take \/ Reply \/ Exit \/ StartFetch \/ FetchAnswered \/ FetchCancelled \/ \E c \in Callers : Send(c) \/ GiveUp(c) \/ KillDone(c)
Fairness == WF_vars(Take) /\ WF_vars(Reply) /\ WF_vars(Exit) /\ WF_vars(FetchCancelled) /\
            \A c \in Callers : WF_vars(Send(c)) /\ WF_vars(GiveUp(c)) /\ WF_vars(KillDone(c))
Spec == Init /\ [][Next]_vars /\ Fairness

-----------------------------------------------------------------------------
\* every call returns (provided somebody deletes the torrent or the loop keeps running)
Returns == \A c \in Callers : <>(pc[c] = "returned")
\* once Deleted is closed the torrent is unlisted and its memory released
AfterDeleted == Deleted => ~listed /\ ~memory
\* a Kill that has returned successfully leaves nothing behind, however long the store takes to
\* release (it waits for a piece that is being hashed)
KillIsComplete == \A c \in Callers : (Shape[c] = "kill" /\ res[c] = "ok") => ~listed /\ ~memory
\* the torrent's helper goroutines end with it: a fetch does not outlive the deletion for long, whatever the server does
HelpersEnd == [](Deleted => <>(fetch # "running"))
\* the loop never waits for a caller that has gone away
LoopNeverStuck == [](handling # "-" => <>(handling = "-"))
=============================================================================
