SPECIFICATION Spec
CONSTANTS
  TrueSize = 32768
  ParseOK = TRUE
  Sizes <- MCSizes
  MaxVotes = 2
  Dev = {}
VIEW view
INVARIANTS Authentic InBounds CleanFullIsComplete
PROPERTIES HonestAccepted
CHECK_DEADLOCK FALSE
