\* quick edge dump: 2 threads, core alphabet, every initial condition
SPECIFICATION EdgeSpec
CONSTANTS
  t1 = t1  t2 = t2  t3 = t3  t4 = t4  t5 = t5
  Threads = {t1, t2}
  NCh <- MCNCh2
  Avail <- MCAvail2
  Dev = {}
  Ops <- MCOpsNoMem
  InitConds <- MCInitRace
  InitNold <- MCNold0
  InitRanks <- MCRankId
VIEW view
CHECK_DEADLOCK FALSE
ACTION_CONSTRAINT Emit
