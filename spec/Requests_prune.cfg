SPECIFICATION MCSpec
CONSTANTS
  Pieces = {0, 1}
  Consumers = {"k1", "k2"}
  Prios = {0, 9}
  MaxOps = 4
  Dev = {"prune_no_close"}
CONSTRAINT bound
INVARIANTS NoLostWakeup PrioConserved EntryIffWanted
CHECK_DEADLOCK FALSE
