------------------------------- MODULE PeerFsm -------------------------------
(***************************************************************************)
(* Protocol state of one connected peer as far as message handling is      *)
(* concerned (peer.handleMessage, tor.handleEvent).  C05: whatever the     *)
(* remote sends, in whatever state, handling terminates without a crash,   *)
(* allocates in proportion to the message, and at worst disconnects that   *)
(* peer.  The specification predicts for every (state, message class)      *)
(* whether the message is accepted ("ok") or ends the connection           *)
(* ("disconnect"); numeric fields are boundary classes:                    *)
(*   index: "0", "last", "n" (= number of pieces), "big" (2^30), "max"     *)
(*   (2^32-1);  begin / length / payload classes for blocks and requests.  *)
(***************************************************************************)
EXTENDS Integers, Sequences, FiniteSets, TLC

CONSTANT MaxMsgs

VARIABLES infoKnown,   \* the torrent's metadata is known to this peer
          canFast, canExt,
          gotExt,      \* an extended handshake was received
          seed,        \* the peer claimed to have everything (have-all)
          bm,          \* the peer has a bitmap (not nil)
          wide,        \* its bitmap reaches beyond the number of pieces: "none", "have_n", "bitfield"
          outcome,     \* "ok" / "disconnect" for the last message
          n, last

vars == <<infoKnown, canFast, canExt, gotExt, seed, bm, wide, outcome, n, last>>

Idx == {"0", "last", "n", "big", "max"}
InRange(i) == i \in {"0", "last"}

Init == /\ infoKnown \in BOOLEAN /\ canFast \in BOOLEAN /\ canExt \in BOOLEAN
        /\ gotExt = FALSE /\ seed = FALSE /\ bm = FALSE /\ wide = "none" /\ outcome = "-" /\ n = 0 /\ last = [k |-> "Init"]

Msgs ==
  {[k |-> x] : x \in {"KeepAlive", "Choke", "Unchoke", "Interested", "NotInterested", "HaveAll", "HaveNone", "Port", "Unknown", "ExtUnknown"}}
  \cup {[k |-> x, i |-> i] : x \in {"Have", "DontHave", "AllowedFast", "Suggest"}, i \in Idx}
  \cup {[k |-> "Bitfield", len |-> l] : l \in {"empty", "exact", "exact+1", "huge"}}
  \cup {[k |-> x, i |-> i, b |-> b, l |-> l] : x \in {"Request", "Cancel", "Reject"}, i \in Idx,
                                                 b \in {"0", "odd", "max"}, l \in {"0", "16k", "max"}}
  \cup {[k |-> "Piece", i |-> i, b |-> b, pl |-> pl] : i \in Idx, b \in {"0", "odd", "max"}, pl \in {"empty", "16k", "1m"}}
  \cup {[k |-> "Ext0", size |-> s, reqq |-> q, m |-> m] : s \in {"0", "true", "128m", "128m+1", "max"},
                                                           q \in {"0", "250", "max"}, m \in {"none", "all", "zeros"}}
  \cup {[k |-> "Metadata", type |-> t, piece |-> p, size |-> s, pl |-> pl] :
           t \in {0, 1, 2, 3}, p \in {"0", "last", "n", "max"}, s \in {"0", "true", "max"}, pl \in {"empty", "16k"}}
  \cup {[k |-> "Pex", added |-> a, dropped |-> d] : a \in {"none", "two", "many"}, d \in {"none", "unknown", "two"}}
  \cup {[k |-> "UploadOnly", v |-> v] : v \in BOOLEAN}

\* does the message end the connection in this state?
Disconnects(m) ==
  CASE m.k \in {"Unknown", "ExtUnknown"} -> TRUE
    [] m.k \in {"HaveAll", "HaveNone", "AllowedFast", "Suggest"} -> ~canFast
    [] m.k = "Have"     -> infoKnown /\ ~InRange(m.i)
    [] m.k = "DontHave" -> (seed /\ ~infoKnown) \/ (infoKnown /\ ~InRange(m.i))
    [] m.k = "Bitfield" -> infoKnown /\ m.len \in {"exact+1", "huge"}
    [] m.k = "Piece"    -> ~infoKnown \/ ~InRange(m.i)
    [] m.k = "Cancel"   -> ~infoKnown
    [] m.k = "Reject"   -> ~canFast \/ ~infoKnown
    [] m.k = "Ext0"     -> gotExt
    [] m.k = "Metadata" -> m.type = 3
    [] OTHER -> FALSE

\* before the metadata is known a huge index cannot be checked against the piece
\* count: the repaired code refuses indexes that no torrent with at most 128 MiB of
\* metadata can have
TooBigBlind(m) == ~infoKnown /\ m.k \in {"Have", "DontHave"} /\ m.i \in {"big", "max"}

Recv(m) ==
  /\ n < MaxMsgs /\ outcome # "disconnect"
  /\ n' = n + 1 /\ last' = m
  /\ LET dis == Disconnects(m) \/ TooBigBlind(m) IN
     /\ outcome' = IF dis THEN "disconnect" ELSE "ok"
     /\ gotExt' = (gotExt \/ (m.k = "Ext0" /\ ~dis))
     /\ seed' = IF dis THEN seed
                ELSE IF m.k = "HaveAll" THEN TRUE
                ELSE IF m.k \in {"HaveNone", "DontHave"} THEN FALSE ELSE seed
     /\ bm' = IF dis THEN bm
              ELSE IF m.k \in {"HaveAll", "HaveNone"} THEN (m.k = "HaveAll" /\ infoKnown)
              ELSE IF m.k \in {"Have", "Bitfield"} THEN TRUE ELSE bm
     /\ wide' = IF dis \/ infoKnown THEN wide
                ELSE IF m.k \in {"HaveAll", "HaveNone"} THEN "none"
                ELSE IF m.k = "Bitfield" THEN (IF m.len \in {"exact+1", "huge"} THEN "bitfield" ELSE "none")
                ELSE IF m.k = "Have" /\ m.i = "n" /\ wide = "none" THEN "have_n"
                ELSE IF m.k = "DontHave" /\ m.i = "n" /\ wide = "have_n" THEN "none"
                ELSE wide
  /\ UNCHANGED <<infoKnown, canFast, canExt>>

\* the torrent completes its metadata (PeerMetadataComplete reaches the peer): a peer whose
\* bitmap is inconsistent with the piece count is disconnected
MetadataArrives ==
  /\ ~infoKnown /\ n < MaxMsgs /\ outcome # "disconnect"
  /\ infoKnown' = TRUE /\ n' = n + 1 /\ last' = [k |-> "MetadataComplete"]
  /\ outcome' = IF (seed /\ bm) \/ (~seed /\ wide # "none") THEN "disconnect" ELSE "ok"
  /\ bm' = (bm \/ seed)
  /\ UNCHANGED <<canFast, canExt, gotExt, seed, wide>>

Next == (\E m \in Msgs : Recv(m)) \/ MetadataArrives
Spec == Init /\ [][Next]_vars

\* the only outcomes are acceptance or a clean disconnect of that peer
Total == outcome \in {"-", "ok", "disconnect"}
=============================================================================
