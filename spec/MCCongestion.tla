---------------------------- MODULE MCCongestion ----------------------------
EXTENDS Congestion, Json, TLC
StateRec == [fast |-> fast, interested |-> interested, unchoking |-> unchoking, queue |-> queue, stalled |-> stalled,
             backlog |-> backlog, dead |-> dead, num |-> num]
Emit == PrintT("EDGE " \o ToJson([f |-> StateRec, a |-> [l |-> last', out |-> out'], t |-> StateRec']))
view == <<fast, interested, unchoking, queue, stalled, backlog, dead, num>>
=============================================================================
