SPECIFICATION TSpec
CONSTANTS
  Inputs = {}
  Dev = {}
INVARIANTS Total ExactlyFramed NeverBeyond Bounded NoPanic
POSTCONDITION AllRead
CHECK_DEADLOCK FALSE
