SPECIFICATION Spec
INVARIANTS Conservation Availability
POSTCONDITION AllRead
CHECK_DEADLOCK FALSE
