SPECIFICATION SimSpec
CONSTANTS
  p1 = p1  p2 = p2
  Peers = {p1, p2}
  NC = 3
  PieceOf <- MCPieceOf
  Dev = {}
  MaxMsgs = 14
  MaxReqs = 6
  Depth = 45
CONSTRAINT bound
INVARIANTS Dump Conservation Availability
CHECK_DEADLOCK FALSE
