----------------------------- MODULE MCLifecycle -----------------------------
EXTENDS Lifecycle
Shape_send_send == [c \in {"a", "b", "k"} |-> IF c = "a" THEN "send" ELSE IF c = "b" THEN "send" ELSE "kill"]
Shape_send_await == [c \in {"a", "b", "k"} |-> IF c = "a" THEN "send" ELSE IF c = "b" THEN "await" ELSE "kill"]
Shape_send_want == [c \in {"a", "b", "k"} |-> IF c = "a" THEN "send" ELSE IF c = "b" THEN "want" ELSE "kill"]
Shape_send_kill == [c \in {"a", "b", "k"} |-> IF c = "a" THEN "send" ELSE IF c = "b" THEN "kill" ELSE "kill"]
Shape_await_send == [c \in {"a", "b", "k"} |-> IF c = "a" THEN "await" ELSE IF c = "b" THEN "send" ELSE "kill"]
Shape_await_await == [c \in {"a", "b", "k"} |-> IF c = "a" THEN "await" ELSE IF c = "b" THEN "await" ELSE "kill"]
Shape_await_want == [c \in {"a", "b", "k"} |-> IF c = "a" THEN "await" ELSE IF c = "b" THEN "want" ELSE "kill"]
Shape_await_kill == [c \in {"a", "b", "k"} |-> IF c = "a" THEN "await" ELSE IF c = "b" THEN "kill" ELSE "kill"]
Shape_want_send == [c \in {"a", "b", "k"} |-> IF c = "a" THEN "want" ELSE IF c = "b" THEN "send" ELSE "kill"]
Shape_want_await == [c \in {"a", "b", "k"} |-> IF c = "a" THEN "want" ELSE IF c = "b" THEN "await" ELSE "kill"]
Shape_want_want == [c \in {"a", "b", "k"} |-> IF c = "a" THEN "want" ELSE IF c = "b" THEN "want" ELSE "kill"]
Shape_want_kill == [c \in {"a", "b", "k"} |-> IF c = "a" THEN "want" ELSE IF c = "b" THEN "kill" ELSE "kill"]
=============================================================================
