SPECIFICATION Spec
CONSTANTS Dev = {"extend_num"}
INVARIANTS Good Emit
CHECK_DEADLOCK FALSE
