SPECIFICATION SimSpec
CONSTANTS
  p1 = p1  p2 = p2
  Peers = {p1, p2}
  Reqs <- MCReqs5
  PieceOfReq <- MCPieceOfReq5
  Servable <- MCServable5
  Pieces = {0, 1}
  MaxSteps = 30
  QMax = 250
INVARIANTS Dump CounterMatches
CHECK_DEADLOCK FALSE
