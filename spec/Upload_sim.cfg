SPECIFICATION SimSpec
CONSTANTS
  p1 = p1  p2 = p2
  Peers = {p1, p2}
  Reqs <- MCReqs
  PieceOfReq <- MCPieceOfReq
  Servable <- MCServable
  Pieces = {0, 1}
  MaxSteps = 30
  QMax = 250
INVARIANTS Dump CounterMatches
CHECK_DEADLOCK FALSE
