SPECIFICATION SimSpec
CONSTANTS
  PS = 32768
  TLen = 130172
  Offset = 120000
  Length = 10172
  Bufs = {1, 7, 4096, 32767, 32768, 40000, 70000}
  SeekTargets <- MCSeeks
  MaxOps = 16
INVARIANTS Dump EofExactlyAtLength
CHECK_DEADLOCK FALSE
