SPECIFICATION Spec
INVARIANTS Good Emit
CHECK_DEADLOCK FALSE
