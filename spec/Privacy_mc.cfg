SPECIFICATION Spec
INVARIANTS TypeOK PrivacyInv WantedOnlyWhenOff
PROPERTIES ProxyFixed
CHECK_DEADLOCK FALSE
