SPECIFICATION Spec
CONSTANTS
  TrueSize = 20000
  ParseOK = TRUE
  Sizes <- MCSizes
  MaxVotes = 2
  Dev = {"index_eq_chunks"}
VIEW view
INVARIANTS Authentic InBounds CleanFullIsComplete
PROPERTIES HonestAccepted
CHECK_DEADLOCK FALSE
