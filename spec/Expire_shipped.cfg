SPECIFICATION Spec
CONSTANTS
  T = {t1, t2}
  Low = 14
  High = 16
  MaxB = 18
  Dev = {"DivZero"}
INVARIANTS TypeOK NoCrash
CONSTRAINT FewEv
CHECK_DEADLOCK FALSE
