------------------------------ MODULE Geometry ------------------------------
(***************************************************************************)
(* C13: what reading a metainfo file must yield.  The specification is a   *)
(* function from an abstract metainfo record to Reject, or Accept with the *)
(* geometry the torrent must then have.  Written from the property (BEP 3  *)
(* and BEP 47 padding files), not from tor/torfile.go.                     *)
(*                                                                         *)
(* Lengths are integers below 2^31, or the symbolic classes "H62" (2^62)   *)
(* and "H63" (2^63-1) which can only lead to Reject.  A piece length is    *)
(* u*16384 + r.                                                            *)
(***************************************************************************)
EXTENDS Integers, Sequences, FiniteSets, TLC

CS == 16384
\* a length is a record [k, v]: k = "n" (the integer v), "H62", "H63" or "absent"
Num(x)  == x.k = "n"

\* number of pieces without computing the piece length (it may exceed TLC's integers):
\* ceil(t / (u*CS)) = ceil(ceil(t/CS) / u)
NPieces(c, t) == ((t + CS - 1) \div CS + c.plu - 1) \div c.plu

RECURSIVE SumLen(_)
SumLen(fs) == IF fs = <<>> THEN 0 ELSE Head(fs).len.v + SumLen(Tail(fs))

\* total length announced by the record (only when every length is numeric)
Total(c) == IF c.mode = "single" THEN c.length.v ELSE SumLen(c.files)
AllNumeric(c) == IF c.mode = "single" THEN Num(c.length)
                 ELSE \A k \in 1..Len(c.files) : Num(c.files[k].len)

CeilDiv(a, b) == (a + b - 1) \div b

\* number of 20-byte hashes in the "pieces" string, given the class
NHashes(c, n) == CASE c.table = "exact"    -> n
                   [] c.table = "oneshort" -> IF n = 0 THEN 0 ELSE n - 1
                   [] c.table = "onelong"  -> n + 1
                   [] OTHER                -> -1

Valid(c) ==
  /\ c.plr = 0 /\ c.plu >= 1                              \* positive multiple of 16 KiB
  /\ c.mode \in {"single", "multi"}                        \* exactly one of length / files
  /\ AllNumeric(c)
  /\ c.mode = "single" => c.length.v > 0
  /\ c.mode = "multi"  => /\ Len(c.files) > 0
                          /\ \A k \in 1..Len(c.files) : c.files[k].len.v >= 0 /\ c.files[k].path = "ok"
  /\ c.name = "ok"
  /\ c.table \in {"exact", "oneshort", "onelong"}
  /\ NHashes(c, NPieces(c, Total(c))) = NPieces(c, Total(c))   \* table matches the length

\* cases on which the property does not decide (both outcomes are self-consistent)
Either(c) ==
  \/ c.mode = "multi" /\ AllNumeric(c) /\ Len(c.files) > 0 /\ Total(c) = 0   \* a torrent of zero bytes
  \/ c.mode = "multi" /\ \E k \in 1..Len(c.files) : c.files[k].path = "emptylist"

RECURSIVE Offsets(_, _)
Offsets(fs, o) == IF fs = <<>> THEN <<>> ELSE <<o>> \o Offsets(Tail(fs), o + Head(fs).len.v)

Geom(c) ==
  LET t == Total(c) IN
  [length |-> t, piecelen_u |-> c.plu, npieces |-> NPieces(c, t), slots |-> CeilDiv(t, CS),
   nhashes |-> NPieces(c, t),
   offsets |-> IF c.mode = "multi" THEN Offsets(c.files, 0) ELSE <<>>,
   lengths |-> IF c.mode = "multi" THEN [k \in 1..Len(c.files) |-> c.files[k].len.v] ELSE <<>>,
   padding |-> IF c.mode = "multi" THEN [k \in 1..Len(c.files) |-> c.files[k].pad] ELSE <<>>]

Expected(c) ==
  IF Valid(c) /\ ~Either(c) THEN [verdict |-> "accept", geom |-> Geom(c)]
  ELSE IF Either(c) /\ Valid([c EXCEPT !.files = [k \in 1..Len(c.files) |-> [c.files[k] EXCEPT !.path = "ok"]]])
       THEN [verdict |-> "either", geom |-> Geom(c)]
  ELSE [verdict |-> "reject", geom |-> <<>>]

\* properties of the specification itself, checked by TLC on every case:
\* an accepted geometry is self-consistent
Consistent(c) ==
  LET e == Expected(c) IN
  e.verdict = "accept" =>
    /\ e.geom.piecelen_u > 0
    /\ e.geom.npieces * e.geom.piecelen_u >= e.geom.slots          \* the pieces cover every block
    /\ (e.geom.npieces - 1) * e.geom.piecelen_u < e.geom.slots     \* and no piece is empty
    /\ e.geom.slots * CS >= e.geom.length /\ (e.geom.slots - 1) * CS < e.geom.length
    /\ c.mode = "multi" =>
         /\ \A k \in 1..Len(c.files) : e.geom.offsets[k] >= 0
         /\ \A k \in 1..(Len(c.files) - 1) : e.geom.offsets[k + 1] = e.geom.offsets[k] + e.geom.lengths[k]
         /\ e.geom.offsets[Len(c.files)] + e.geom.lengths[Len(c.files)] = e.geom.length
=============================================================================
