SPECIFICATION SimSpec3
CONSTANTS
  T = {t1, t2, t3}
  Low = 14
  High = 16
  MaxB = 12
  Dev = {}
INVARIANTS Dump
CHECK_DEADLOCK FALSE
