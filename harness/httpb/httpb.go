// Package httpb binds spec/WebUI.tla (C19) and spec/Namespace.tla (C20) to
// the real HTTP handlers (registered on net/http's DefaultServeMux by
// storrent's http.Serve) and to the FUSE nodes (through fuse.VerifRoot).
package httpb

import (
	"bytes"
	"context"
	"encoding/json"
	"fmt"
	"html"
	"io"
	"net"
	"net/http"
	"net/http/httptest"
	"net/netip"
	"net/url"
	"regexp"
	"sort"
	"strings"
	"sync"
	"time"

	bfuse "bazil.org/fuse"
	"bazil.org/fuse/fs"

	"github.com/jech/storrent/config"
	"github.com/jech/storrent/fuse"
	"github.com/jech/storrent/hash"
	storhttp "github.com/jech/storrent/http"
	"github.com/jech/storrent/known"
	"github.com/jech/storrent/peer"
	"github.com/jech/storrent/tor"
	"github.com/jech/storrent/tracker"

	"verifharness/internal/content"
	"verifharness/internal/mktor"
)

const CS = 16384

type Case struct {
	Kind string `json:"kind"` // "namespace", "webui"
	ID   int    `json:"id"`
	// namespace
	Files   [][]string `json:"files"`
	P       []string   `json:"p"`
	File    int        `json:"file"`
	Single  bool       `json:"single"`
	Adm     bool       `json:"admissible"`
	Shadow  bool       `json:"shadowed"`
	IsDir   bool       `json:"isdir"`
	Entries []string   `json:"entries"`
	Listed  []int      `json:"listed"`
	// webui
	Route   string   `json:"route"`
	Method  string   `json:"method"`
	Host    string   `json:"host"`
	Expect  string   `json:"expect"`
	Shown   []string `json:"shown"`
	Changes bool     `json:"changes"`
	Hostile int      `json:"hostile"` // which hostile string set
	Playl   bool     `json:"playlist"`
	// byname
	Kinds   []string `json:"kinds"`
	Rank    []int    `json:"rank"`
	Probe   string   `json:"probe"`
	ExpectK int      `json:"expectk"`
	// fuseconc (FuseHandle.tla): reads A and B on one handle, piece M not there yet
	A struct {
		Off int `json:"off"`
		N   int `json:"n"`
	} `json:"a"`
	B struct {
		Off int `json:"off"`
		N   int `json:"n"`
	} `json:"b"`
	M      int `json:"m"`
	NFiles int `json:"nfiles"`
}

type Viol struct {
	Prop string `json:"prop"`
	Key  string `json:"key"`
	What string `json:"what"`
}

type Out struct {
	ID         int      `json:"id"`
	Violations []Viol   `json:"violations,omitempty"`
	Nonconf    []string `json:"nonconf,omitempty"`
	Observed   string   `json:"observed,omitempty"`
	Note       string   `json:"note,omitempty"`
}

var once sync.Once

func setup() {
	once.Do(func() {
		config.SetDefaultProxy("") // storrent.go does this at start-up
		storhttp.Serve("127.0.0.1:0")
	})
}

func do(method, target, host string, body string) *httptest.ResponseRecorder {
	var rd io.Reader
	if body != "" {
		rd = strings.NewReader(body)
	}
	req := httptest.NewRequest(method, target, rd)
	req.Host = host
	if body != "" {
		req.Header.Set("Content-Type", "application/x-www-form-urlencoded")
	}
	rec := httptest.NewRecorder()
	func() {
		defer func() {
			if p := recover(); p != nil && p != http.ErrAbortHandler {
				rec.Code = 599
				rec.Body.WriteString(fmt.Sprintf("PANIC: %v", p))
			}
		}()
		http.DefaultServeMux.ServeHTTP(rec, req)
	}()
	return rec
}

type live struct {
	t      *tor.Torrent
	cancel context.CancelFunc
	truth  []byte
	spec   mktor.Spec
}

func start(spec mktor.Spec, fill bool) (*live, error) {
	t, err := mktor.New(spec, "")
	if err != nil {
		return nil, err
	}
	ctx, cancel := context.WithCancel(context.Background())
	t, err = tor.AddTorrent(ctx, t)
	if err != nil {
		cancel()
		return nil, err
	}
	l := &live{t: t, cancel: cancel, spec: spec}
	total := t.Pieces.Length()
	l.truth = make([]byte, total)
	if len(spec.Files) > 0 {
		var off int64
		for _, f := range spec.Files {
			if !f.Pad {
				content.Fill(spec.Seed, off, l.truth[off:off+f.Length])
			}
			off += f.Length
		}
	} else {
		content.Fill(spec.Seed, 0, l.truth)
	}
	if fill {
		ps := int64(t.Pieces.PieceSize())
		for i := 0; i < t.Pieces.Num(); i++ {
			lo := int64(i) * ps
			hi := min(lo+ps, total)
			for b := lo; b < hi; b += CS {
				e := min(b+CS, hi)
				t.Pieces.AddData(uint32(i), uint32(b-lo), l.truth[b:e], 1)
			}
			t.Pieces.Finalise(uint32(i), t.PieceHashes[i])
			t.Have(uint32(i), true)
		}
	}
	return l, nil
}

func (l *live) stop() {
	ctx, c := context.WithTimeout(context.Background(), 5*time.Second)
	l.t.Kill(ctx)
	c()
	l.cancel()
}

func pathURL(p []string) string {
	var parts []string
	for _, s := range p {
		parts = append(parts, url.PathEscape(s))
	}
	return strings.Join(parts, "/")
}

// ---------------------------------------------------------------------------
// C20

func runNamespace(c *Case, out *Out) {
	setup()
	viol := func(key, what string) {
		if len(out.Violations) < 8 {
			out.Violations = append(out.Violations, Viol{"C20", key, fmt.Sprintf("%s (files %v, lookup %q)", what, c.Files, c.P)})
		}
	}
	var files []mktor.File
	for k, p := range c.Files {
		pad := len(p) > 0 && (p[0] == ".pad" || strings.HasPrefix(p[len(p)-1], "_pad"))
		ln := int64(20000 + 1000*k)
		if k == 1 && c.ID%2 == 1 && !pad {
			ln = 0 // an empty file
		}
		files = append(files, mktor.File{Path: p, Length: ln, Pad: pad})
	}
	// every third case names its files through the path.utf-8 key
	spec := mktor.Spec{Name: fmt.Sprintf("ns %d", c.ID), PieceLen: 2 * CS, Files: files, Seed: uint64(c.ID) + 3, UTF8Paths: c.ID%3 == 1}
	if c.Single {
		spec = mktor.Spec{Name: c.Files[0][0], PieceLen: 2 * CS, Length: files[0].Length, Seed: uint64(c.ID) + 3}
	}
	l, err := start(spec, true)
	if err != nil {
		if !c.Adm {
			out.Observed = "rejected"
			return
		}
		out.Note = "torrent: " + err.Error()
		return
	}
	defer l.stop()
	h := l.t.Hash.String()
	host := "localhost:8088"
	crafted := false
	for _, s := range c.P {
		if s == "" || s == ".." {
			crafted = true
		}
	}
	offsets := make([]int64, len(files))
	var off int64
	for k, f := range files {
		offsets[k] = off
		off += f.Length
	}
	base := "/" + h + "/" + pathURL(c.P)
	if len(c.P) > 0 {
		// --- the file view
		rec := do("GET", base, host, "")
		if rec.Code >= 500 {
			viol("http-5xx", fmt.Sprintf("GET %s answered %d: %s", base, rec.Code, trunc(rec.Body.String())))
		}
		if !crafted {
			switch {
			case c.File != 0:
				k := c.File - 1
				want := l.truth[offsets[k] : offsets[k]+files[k].Length]
				if rec.Code != 200 {
					viol("file-not-served", fmt.Sprintf("GET %s answered %d, the path names file %d", base, rec.Code, k))
				} else if !bytes.Equal(rec.Body.Bytes(), want) {
					viol("file-wrong-content", fmt.Sprintf("GET %s returned %d bytes that are not the %d bytes of file %d at offset %d", base, rec.Body.Len(), len(want), k, offsets[k]))
				}
				hd := do("HEAD", base, host, "")
				if hd.Code == 200 && hd.Header().Get("Content-Length") != fmt.Sprint(len(want)) {
					viol("file-wrong-size", fmt.Sprintf("HEAD %s reports Content-Length %s, the file has %d bytes", base, hd.Header().Get("Content-Length"), len(want)))
				}
				// a range in the middle
				req := httptest.NewRequest("GET", base, nil)
				req.Host = host
				req.Header.Set("Range", "bytes=100-16483")
				rr := httptest.NewRecorder()
				http.DefaultServeMux.ServeHTTP(rr, req)
				if rr.Code == 206 && len(want) >= 16484 && !bytes.Equal(rr.Body.Bytes(), want[100:16484]) {
					viol("file-wrong-content", fmt.Sprintf("GET %s with Range 100-16483 returned other bytes than the file's", base))
				}
			default:
				if rec.Code == 200 && !strings.HasPrefix(rec.Header().Get("Content-Type"), "text/html") {
					viol("resolves-something-else", fmt.Sprintf("GET %s answered 200 with %d bytes although the path names no file", base, rec.Body.Len()))
				}
			}
		}
	}
	// --- the directory view and the playlist
	dirURL := base
	if len(c.P) > 0 {
		dirURL += "/"
	}
	if !crafted {
		rec := do("GET", dirURL, host, "")
		if rec.Code >= 500 {
			viol("http-5xx", fmt.Sprintf("GET %s answered %d", dirURL, rec.Code))
		}
		if rec.Code == 200 {
			re := regexp.MustCompile(`href="/` + h + `/([^"?]*[^/"?])"`)
			got := map[string]bool{}
			for _, m := range re.FindAllStringSubmatch(rec.Body.String(), -1) {
				got[m[1]] = true
			}
			want := map[string]bool{}
			for _, k := range c.Listed {
				want[pathURL(c.Files[k-1])] = true
			}
			for u := range want {
				if !got[u] {
					viol("listing-missing", fmt.Sprintf("the listing of %s lacks %s", dirURL, u))
				}
			}
			for u := range got {
				if !want[u] {
					viol("listing-extra", fmt.Sprintf("the listing of %s names %s which is not below that directory", dirURL, u))
				}
			}
		}
		pl := do("GET", dirURL+"?playlist", host, "")
		if pl.Code >= 500 {
			viol("http-5xx", fmt.Sprintf("GET %s?playlist answered %d", dirURL, pl.Code))
		}
		if pl.Code == 200 {
			var urls []string
			for _, line := range strings.Split(strings.TrimSpace(pl.Body.String()), "\n") {
				if strings.HasPrefix(line, "http://") {
					urls = append(urls, strings.TrimPrefix(line, "http://"+host+"/"+h+"/"))
				}
			}
			var want []string
			for _, k := range c.Listed {
				want = append(want, pathURL(c.Files[k-1]))
			}
			sort.Strings(urls)
			sort.Strings(want)
			if fmt.Sprint(urls) != fmt.Sprint(want) {
				viol("playlist-entries", fmt.Sprintf("the playlist of %s names %v, the files below it are %v", dirURL, urls, want))
			}
		} else if len(c.Listed) > 0 {
			viol("playlist-missing", fmt.Sprintf("GET %s?playlist answered %d although %d files lie below", dirURL, pl.Code, len(c.Listed)))
		}
	}
	// --- FUSE
	if c.Single {
		if len(c.P) == 1 {
			fuseSingle(c, l, viol)
		}
	} else if !crafted && !c.Shadow {
		fuseLookup(c, l, files, offsets, viol)
	}
}

func trunc(s string) string {
	if len(s) > 200 {
		return s[:200]
	}
	return s
}

// fuseSingle: a single-file torrent is a file directly below the root.
func fuseSingle(c *Case, l *live, viol func(string, string)) {
	ctx := context.Background()
	root := fuse.VerifRoot()
	node, err := root.(fs.NodeStringLookuper).Lookup(ctx, c.P[0])
	if c.File == 0 {
		if err == nil {
			if c.P[0] != l.t.Name {
				viol("fuse-resolves-something-else", "the FUSE root resolves a name that is no torrent's")
			}
		}
		return
	}
	if err != nil {
		viol("fuse-lookup-fails", fmt.Sprintf("FUSE root lookup of the single-file torrent's name fails: %v", err))
		return
	}
	var a bfuse.Attr
	if aerr := node.Attr(ctx, &a); aerr != nil || a.Mode.IsDir() || int64(a.Size) != int64(len(l.truth)) {
		viol("fuse-wrong-size", fmt.Sprintf("FUSE Attr of the single-file torrent: err %v, dir %v, size %d, want a file of %d bytes", aerr, a.Mode.IsDir(), a.Size, len(l.truth)))
		return
	}
	found := false
	ents, _ := root.(fs.HandleReadDirAller).ReadDirAll(ctx)
	for _, e := range ents {
		if e.Name == l.t.Name && e.Type == bfuse.DT_File {
			found = true
		}
	}
	if !found {
		viol("fuse-listing-missing", "the FUSE root does not list the single-file torrent as a file")
	}
	hd, oerr := node.(fs.NodeOpener).Open(ctx, &bfuse.OpenRequest{Flags: bfuse.OpenReadOnly}, &bfuse.OpenResponse{})
	if oerr != nil {
		viol("fuse-open-fails", fmt.Sprintf("Open: %v", oerr))
		return
	}
	resp := &bfuse.ReadResponse{Data: make([]byte, 0, 30000)}
	rerr := hd.(fs.HandleReader).Read(ctx, &bfuse.ReadRequest{Offset: 5, Size: 30000}, resp)
	want := l.truth[5:]
	if len(want) > 30000 {
		want = want[:30000]
	}
	if rerr != nil || !bytes.Equal(resp.Data, want) {
		viol("fuse-wrong-content", fmt.Sprintf("FUSE read of the single-file torrent at offset 5 returned %d bytes (err %v) that are not the file's", len(resp.Data), rerr))
	}
	if rl, ok := hd.(fs.HandleReleaser); ok {
		rl.Release(ctx, &bfuse.ReleaseRequest{})
	}
}

func fuseLookup(c *Case, l *live, files []mktor.File, offsets []int64, viol func(string, string)) {
	ctx := context.Background()
	root := fuse.VerifRoot()
	var node fs.Node
	var err error
	func() {
		defer func() {
			if p := recover(); p != nil {
				viol("fuse-panic", fmt.Sprintf("FUSE lookup panicked: %v", p))
				err = bfuse.EIO
			}
		}()
		node, err = root.(fs.NodeStringLookuper).Lookup(ctx, l.t.Name)
		for _, comp := range c.P {
			if err != nil {
				break
			}
			lk, ok := node.(fs.NodeStringLookuper)
			if !ok {
				err = bfuse.ENOENT // a file has no children
				break
			}
			node, err = lk.Lookup(ctx, comp)
		}
	}()
	// Padding files are hidden from FUSE listings; whether a direct lookup
	// of one succeeds is left open (it would resolve to that very file).
	isPad := func(k int) bool { return files[k].Pad }
	visibleFile := c.File != 0 && !isPad(c.File-1)
	anyFile := c.File != 0
	visibleDir, anyDir := len(c.P) == 0, len(c.P) == 0 || len(c.Listed) > 0
	for _, k := range c.Listed {
		if !isPad(k - 1) {
			visibleDir = true
		}
	}
	if err != nil {
		if visibleFile && !c.IsDir || (visibleDir && c.File == 0) {
			viol("fuse-lookup-fails", fmt.Sprintf("FUSE lookup of the path fails (%v) although it names %s", err,
				map[bool]string{true: "a file", false: "a directory"}[visibleFile]))
		}
		return
	}
	var a bfuse.Attr
	if aerr := node.Attr(ctx, &a); aerr != nil {
		if visibleFile || visibleDir {
			viol("fuse-attr-fails", fmt.Sprintf("FUSE Attr fails (%v) on a path that exists", aerr))
		}
		return
	}
	if a.Mode.IsDir() {
		if !anyDir {
			viol("fuse-resolves-something-else", "FUSE resolves the path to a directory although no file lies below it")
			return
		}
		ents, derr := node.(fs.HandleReadDirAller).ReadDirAll(ctx)
		if derr != nil {
			viol("fuse-readdir-fails", fmt.Sprintf("ReadDirAll: %v", derr))
			return
		}
		got := map[string]bool{}
		dirs, fileN := map[string]int{}, map[string]int{}
		for _, e := range ents {
			if e.Name != "." && e.Name != ".." {
				if e.Type == bfuse.DT_Dir {
					dirs[e.Name]++
				} else {
					fileN[e.Name]++
				}
				got[e.Name] = true
			}
		}
		// a sub-directory is listed once; a file as often as the table holds that very path
		for n, k := range dirs {
			if k > 1 {
				viol("fuse-listing-duplicate", fmt.Sprintf("the FUSE directory lists the sub-directory %q %d times", n, k))
			}
		}
		for n, k := range fileN {
			have := 0
			for _, f := range c.Files {
				if len(f) == len(c.P)+1 && f[len(c.P)] == n && pathURL(f[:len(c.P)]) == pathURL(c.P) {
					have++
				}
			}
			if k > have && have > 0 {
				viol("fuse-listing-duplicate", fmt.Sprintf("the FUSE directory lists the file %q %d times, the table holds it %d times", n, k, have))
			}
		}
		want := map[string]bool{}
		for _, k := range c.Listed {
			if !isPad(k - 1) {
				want[c.Files[k-1][len(c.P)]] = true
			}
		}
		for n := range want {
			if !got[n] {
				viol("fuse-listing-missing", fmt.Sprintf("the FUSE directory lacks %q", n))
			}
		}
		for n := range got {
			if !want[n] {
				viol("fuse-listing-extra", fmt.Sprintf("the FUSE directory names %q which is not a (visible) entry of it", n))
			}
		}
		return
	}
	// a file
	if !anyFile {
		viol("fuse-resolves-something-else", fmt.Sprintf("FUSE resolves the path to a file of %d bytes although it names no file", a.Size))
		return
	}
	k := c.File - 1
	if int64(a.Size) != files[k].Length {
		viol("fuse-wrong-size", fmt.Sprintf("FUSE reports %d bytes, the file has %d", a.Size, files[k].Length))
	}
	hd, oerr := node.(fs.NodeOpener).Open(ctx, &bfuse.OpenRequest{Flags: bfuse.OpenReadOnly}, &bfuse.OpenResponse{})
	if oerr != nil {
		viol("fuse-open-fails", fmt.Sprintf("Open: %v", oerr))
		return
	}
	resp := &bfuse.ReadResponse{Data: make([]byte, 0, 30000)}
	rerr := hd.(fs.HandleReader).Read(ctx, &bfuse.ReadRequest{Offset: 5, Size: 30000}, resp)
	var want []byte
	if files[k].Length > 5 {
		want = l.truth[offsets[k]+5 : offsets[k]+files[k].Length]
	}
	if len(want) > 30000 {
		want = want[:30000]
	}
	if rerr != nil || !bytes.Equal(resp.Data, want) {
		viol("fuse-wrong-content", fmt.Sprintf("FUSE read at offset 5 returned %d bytes (err %v) that are not the file's", len(resp.Data), rerr))
	}
	if rl, ok := hd.(fs.HandleReleaser); ok {
		rl.Release(ctx, &bfuse.ReleaseRequest{})
	}
}

// runFuseConc: two reads in flight on one FUSE handle (FuseHandle.tla).  Read
// A covers piece M, which has not arrived: it blocks there.  Read B is issued
// meanwhile on the same handle.  Then M arrives.  Each read must return
// exactly its own range.
func runFuseConc(c *Case, out *Out) {
	setup()
	viol := func(key, what string) {
		prop := "C02"
		if c.Route == "C01" {
			prop = "C01"
		}
		out.Violations = append(out.Violations, Viol{prop, key, fmt.Sprintf("%s (read A pieces %d+%d, read B pieces %d+%d, piece %d arrives late)", what, c.A.Off, c.A.N, c.B.Off, c.B.N, c.M)})
	}
	const ps = 2 * CS
	// reads are not piece aligned: they start 5000 bytes into their first piece and are n pieces long minus a bit
	spec := mktor.Spec{Name: fmt.Sprintf("fc %d", c.ID), PieceLen: ps, Length: 4*ps + 9000, Seed: uint64(c.ID) + 77}
	l, err := start(spec, false)
	if err != nil {
		out.Note = "torrent: " + err.Error()
		return
	}
	defer l.stop()
	give := func(i int) {
		lo := int64(i) * ps
		hi := min(lo+ps, int64(len(l.truth)))
		for b := lo; b < hi; b += CS {
			e := min(b+CS, hi)
			l.t.Pieces.AddData(uint32(i), uint32(b-lo), l.truth[b:e], 1)
		}
		l.t.Pieces.Finalise(uint32(i), l.t.PieceHashes[i])
		l.t.Have(uint32(i), true)
	}
	for i := 0; i < l.t.Pieces.Num(); i++ {
		if i != c.M {
			give(i)
		}
	}
	ctx := context.Background()
	root := fuse.VerifRoot()
	node, err := root.(fs.NodeStringLookuper).Lookup(ctx, l.t.Name)
	if err != nil {
		out.Note = "lookup: " + err.Error()
		return
	}
	hd, err := node.(fs.NodeOpener).Open(ctx, &bfuse.OpenRequest{Flags: bfuse.OpenReadOnly}, &bfuse.OpenResponse{})
	if err != nil {
		out.Note = "open: " + err.Error()
		return
	}
	defer func() {
		if rl, ok := hd.(fs.HandleReleaser); ok {
			rl.Release(ctx, &bfuse.ReleaseRequest{})
		}
	}()
	type res struct {
		data []byte
		err  error
	}
	read := func(off, n int) (int64, int, chan res) {
		o := int64(off)*ps + 5000
		size := n*ps - 6000
		// A must reach into piece M: it starts at off*ps+5000 and is n*ps-6000 long, i.e. ends in piece off+n-1 (n = 2) or stays in off (n = 1)
		ch := make(chan res, 1)
		go func() {
			resp := &bfuse.ReadResponse{Data: make([]byte, 0, size)}
			err := hd.(fs.HandleReader).Read(ctx, &bfuse.ReadRequest{Offset: o, Size: size}, resp)
			ch <- res{resp.Data, err}
		}()
		return o, size, ch
	}
	oa, sa, cha := read(c.A.Off, c.A.N)
	time.Sleep(60 * time.Millisecond) // A is now blocked on piece M (or queued for it)
	ob, sb, chb := read(c.B.Off, c.B.N)
	time.Sleep(60 * time.Millisecond)
	select {
	case r := <-cha:
		// it cannot have been served: piece M is not there
		viol("fuse-read-unavailable", fmt.Sprintf("read A returned %d bytes (err %v) although it covers a piece that has not arrived", len(r.data), r.err))
		return
	default:
	}
	give(c.M)
	check := func(name string, o int64, size int, ch chan res) {
		select {
		case r := <-ch:
			want := l.truth[o:min(o+int64(size), int64(len(l.truth)))]
			if r.err != nil {
				viol("fuse-read-error", fmt.Sprintf("read %s failed: %v", name, r.err))
			} else if !bytes.Equal(r.data, want) {
				where := -1
				for i := range r.data {
					if i >= len(want) || r.data[i] != want[i] {
						where = i
						break
					}
				}
				viol("fuse-read-wrong-bytes", fmt.Sprintf("read %s (offset %d, %d bytes) returned %d bytes that differ from the file from byte %d on: two reads on one handle disturb each other", name, o, size, len(r.data), where))
			}
		case <-time.After(10 * time.Second):
			viol("fuse-read-hang", "read "+name+" did not return within 10 s of the arrival of the missing piece")
		}
	}
	check("A", oa, sa, cha)
	check("B", ob, sb, chb)
}

// runByName: several torrents with the same name; the FUSE root must resolve
// the name to the same torrent every time, the one Namespace!ByName names.
func runByName(c *Case, out *Out) {
	setup()
	viol := func(key, what string) {
		if len(out.Violations) < 4 {
			out.Violations = append(out.Violations, Viol{"C20", key, fmt.Sprintf("%s (kinds %v, hash ranks %v, probe %q)", what, c.Kinds, c.Rank, c.Probe)})
		}
	}
	n := len(c.Kinds)
	dup := fmt.Sprintf("dup %d", c.ID)
	other := fmt.Sprintf("other %d", c.ID)
	// create n torrents of distinct content, sort them by their real hashes, hand them out by rank
	mk := func(kind, name string, k int, seed uint64) mktor.Spec {
		if kind == "single" {
			return mktor.Spec{Name: name, PieceLen: 2 * CS, Length: int64(30000 + 1000*k), Seed: seed}
		}
		return mktor.Spec{Name: name, PieceLen: 2 * CS, Seed: seed, Files: []mktor.File{{Path: []string{fmt.Sprintf("f%d.bin", k)}, Length: int64(30000 + 1000*k)}, {Path: []string{"common.txt"}, Length: 100}}}
	}
	// the hash depends on kind and k, so candidates are built per position and re-ranked:
	// try seeds until the real hash order matches the requested ranks
	var lives []*live
	defer func() {
		for _, l := range lives {
			l.stop()
		}
	}()
	var specs []mktor.Spec
	found := false
	for attempt := uint64(0); attempt < 2000 && !found; attempt++ {
		specs = specs[:0]
		var hs []string
		for k := 0; k < n; k++ {
			sp := mk(c.Kinds[k], dup, k+1, uint64(c.ID)*131+attempt*7+uint64(k))
			t, err := mktor.New(sp, "")
			if err != nil {
				out.Note = "torrent: " + err.Error()
				return
			}
			specs = append(specs, sp)
			hs = append(hs, string(t.Hash))
		}
		found = true
		for i := 0; i < n; i++ {
			for j := 0; j < n; j++ {
				if (c.Rank[i] < c.Rank[j]) != (hs[i] < hs[j]) && i != j {
					found = false
				}
			}
		}
	}
	if !found {
		out.Note = "no seeds give the requested hash order"
		return
	}
	for _, sp := range specs {
		l, err := start(sp, true)
		if err != nil {
			out.Note = "torrent: " + err.Error()
			return
		}
		lives = append(lives, l)
	}
	lo, err := start(mk("multi", other, 9, uint64(c.ID)*977+5), true)
	if err != nil {
		out.Note = "torrent: " + err.Error()
		return
	}
	lives = append(lives, lo)
	probe := map[string]string{"dup": dup, "other": other, "absent": fmt.Sprintf("absent %d", c.ID)}[c.Probe]
	ctx := context.Background()
	root := fuse.VerifRoot()
	identify := func(node fs.Node) int {
		var a bfuse.Attr
		if err := node.Attr(ctx, &a); err != nil {
			return -1
		}
		if !a.Mode.IsDir() {
			return int(a.Size-30000) / 1000
		}
		ents, err := node.(fs.HandleReadDirAller).ReadDirAll(ctx)
		if err != nil {
			return -1
		}
		for _, e := range ents {
			var k int
			if _, err := fmt.Sscanf(e.Name, "f%d.bin", &k); err == nil {
				return k
			}
		}
		return -1
	}
	want := c.ExpectK
	if want == n+1 {
		want = 9
	}
	seen := map[int]int{}
	for i := 0; i < 300; i++ {
		node, err := root.(fs.NodeStringLookuper).Lookup(ctx, probe)
		if err != nil {
			seen[0]++
			continue
		}
		seen[identify(node)]++
	}
	if len(seen) != 1 {
		viol("byname-nondeterministic", fmt.Sprintf("300 FUSE root lookups of the same name resolved to different torrents: %v", seen))
		return
	}
	for k := range seen {
		if k != want {
			viol("byname-wrong-torrent", fmt.Sprintf("the FUSE root resolves the name to torrent %d, the specification (least info-hash) says %d", k, want))
		}
	}
}

// ---------------------------------------------------------------------------
// C19

var hostileSets = [][2]string{
	{`<svg onload=alert_@(1)>`, "tag"},
	{`"><img src=x onerror=alert_@(2)>`, "attr"},
	{`a&b<c_@>'d"e`, "mix"},
	{`<b onmouseover=alert_@(3)>x`, "tag2"},
	{`&lt;_@&amp;<i>&#60;`, "pre-escaped"},
	{"' onfocus='alert_@(5)' autofocus x='<", "single-quote attr"},
}

func hostileFor(src string, set int) string {
	return strings.ReplaceAll(hostileSets[set][0], "@", strings.ReplaceAll(src, "-", "_"))
}

// a local tracker that always fails with the reason given in the query
var trackerOnce sync.Once
var trackerAddr string

func failingTracker() string {
	trackerOnce.Do(func() {
		ln, err := net.Listen("tcp4", "127.0.0.1:0")
		if err != nil {
			return
		}
		trackerAddr = ln.Addr().String()
		go http.Serve(ln, http.HandlerFunc(func(w http.ResponseWriter, r *http.Request) {
			if zone, ok := strings.CutPrefix(r.URL.Path, "/P/"); ok {
				// a reply in the original (dictionary) format whose peer address carries an IPv6 zone
				ip := "2001:db8::7%" + zone
				body := fmt.Sprintf("d8:intervali1800e5:peersld2:ip%d:%s4:porti6881eeee", len(ip), ip)
				w.Header().Set("Content-Length", fmt.Sprint(len(body)))
				w.Write([]byte(body))
				return
			}
			reason := strings.TrimPrefix(r.URL.Path, "/E/")
			body := fmt.Sprintf("d14:failure reason%d:%se", len("E "+reason), "E "+reason)
			w.Header().Set("Content-Length", fmt.Sprint(len(body)))
			w.Write([]byte(body))
		}))
	})
	return trackerAddr
}

func runWebUI(c *Case, out *Out) {
	setup()
	viol := func(key, what string) {
		if len(out.Violations) < 8 {
			out.Violations = append(out.Violations, Viol{"C19", key, fmt.Sprintf("%s (%s %s, Host class %s)", what, c.Method, c.Route, c.Host)})
		}
	}
	set := c.Hostile % len(hostileSets)
	name := "T " + hostileFor("name", set)
	dirc := "D " + hostileFor("dir-component", set)
	filec := "F " + hostileFor("file-component", set) + ".bin"
	nl := "line1\nline2.mp3"
	// the tracker answers with a failure reason taken from the request path
	trk := "http://tracker.example/ann?x=" + hostileFor("tracker-url", set)
	if a := failingTracker(); a != "" {
		// (the announce replaces the query, so the reason travels in the path)
		trk = "http://" + a + "/E/" + url.PathEscape(hostileFor("tracker-error", set)) + "?x=" + hostileFor("tracker-url", set)
	}
	wsu := "http://seed.example/base/" + hostileFor("webseed-url", set) + "/"
	spec := mktor.Spec{Name: name, PieceLen: 2 * CS, Seed: uint64(c.ID) + 5, Trackers: []string{trk}, Webseeds: []string{wsu},
		Files: []mktor.File{{Path: []string{dirc, filec}, Length: 30000}, {Path: []string{dirc, nl}, Length: 5000}, {Path: []string{"plain.txt"}, Length: 777},
			// line breaks in paths that hold nothing else a URL would escape
			{Path: []string{"episode-1.mkv\nhttp:", "attacker.example", "x.mkv"}, Length: 600}, {Path: []string{"cr\rname.mp3"}, Length: 500}}}
	l, err := start(spec, true)
	if err != nil {
		out.Note = "torrent: " + err.Error()
		return
	}
	defer l.stop()
	if tl := l.t.Trackers(); len(tl) > 0 && len(tl[0]) > 0 && trackerAddr != "" {
		actx, cc := context.WithTimeout(context.Background(), 5*time.Second)
		tl[0][0].Announce(actx, l.t.Hash, l.t.MyId, 10, 0, 0, 0, "", func(netip.AddrPort) bool { return true })
		cc()
		if st, err := tl[0][0].GetState(); err == nil || !strings.Contains(err.Error(), hostileFor("tracker-error", set)) {
			out.Nonconf = append(out.Nonconf, fmt.Sprintf("the failing tracker did not leave its error text (state %v, err %v)", st, err))
		}
	}
	if trackerAddr != "" {
		// a tracker names a peer whose address has a zone of its choosing
		tr := tracker.New("http://" + trackerAddr + "/P/" + url.PathEscape(hostileFor("tracker-peer-zone", set)))
		if tr != nil {
			actx, cc := context.WithTimeout(context.Background(), 5*time.Second)
			got := 0
			tr.Announce(actx, l.t.Hash, l.t.MyId, 10, 0, 0, 0, "", func(ap netip.AddrPort) bool {
				got++
				l.t.AddKnown(ap, nil, "", known.Tracker)
				return true
			})
			cc()
			if got == 0 {
				out.Nonconf = append(out.Nonconf, "the tracker's peer with a zone in its address was not learnt")
			}
		}
	}
	ver := hostileFor("known-version", set)
	l.t.AddKnown(netip.MustParseAddrPort("192.0.2.33:6881"), hash.Hash([]byte("-XX0001-abcdefghijkl")), ver, known.Seen)
	// a peer that announced no version: the page falls back on the client code cut from its id (6 bytes)
	idcode := [][2]string{{`<b>&'"`, "peer-id-code"}, {`"><i a`, "peer-id-code"}, {`<!--ab`, "peer-id-code"}}[set%3][0]
	l.t.AddKnown(netip.MustParseAddrPort("192.0.2.34:6881"), hash.Hash([]byte("-"+idcode+"-mnopqrstuvwx")), "", known.Seen)
	l.t.GetStats()
	// a single-file torrent, whose name is the file name; it contains a line break
	sname := "S " + hostileFor("single-name", set) + " line1\nline2.mp3"
	ls, err := start(mktor.Spec{Name: sname, PieceLen: 2 * CS, Seed: uint64(c.ID) + 6, Length: 40000}, true)
	if err != nil {
		out.Note = "single-file torrent: " + err.Error()
		return
	}
	defer ls.stop()
	hs := ls.t.Hash.String()
	// a torrent added from a magnet link, whose metadata never arrives: it is listed under the link's dn=
	mhex := fmt.Sprintf("%040x", uint64(c.ID)+0xabc0000)
	mt, err := tor.ReadMagnet("", "magnet:?xt=urn:btih:"+mhex+"&dn="+url.QueryEscape("M "+hostileFor("magnet-name", set)))
	if err != nil || mt == nil {
		out.Note = fmt.Sprintf("magnet: %v", err)
		return
	}
	mctx, mcancel := context.WithCancel(context.Background())
	defer mcancel()
	mt, err = tor.AddTorrent(mctx, mt)
	if err != nil {
		out.Note = "magnet torrent: " + err.Error()
		return
	}
	defer func() {
		k, cc := context.WithTimeout(context.Background(), 3*time.Second)
		mt.Kill(k)
		cc()
	}()
	h := l.t.Hash.String()
	host := map[string]string{"localhost:p": "localhost:8088", "127.0.0.1:p": "127.0.0.1:8088", "[::1]:p": "[::1]:8088", "evil.example:p": "evil.example:8088",
		"evil.example": "evil.example", "localhost.evil.example:p": "localhost.evil.example:8088", "LOCALHOST:p": "LOCALHOST:8088", "empty": ""}[c.Host]
	target, body := "/", ""
	switch c.Route {
	case "peers":
		target = "/?q=peers&hash=" + h
	case "add":
		target, body = "/?q=add", "url="+url.QueryEscape("magnet:?xt=urn:btih:00112233445566778899aabbccddeeff00112233")
	case "delete":
		target, body = "/?q=delete", "hash="+h
	case "set":
		target, body = "/?q=set", "idle=12345&upload=54321"
	case "set-torrent":
		target, body = "/?q=set-torrent", "hash="+h+"&dht-mode=normal&use-trackers=on&use-webseeds=on"
	case "junk":
		target = "/?q=junk"
	case "torrent-dir":
		target = "/" + h + "/"
	case "torrent-file":
		target = "/" + h + ".torrent"
	case "torrent-meta":
		target = "/" + h
	case "playlist":
		target = "/" + h + ".m3u"
	case "subdir":
		target = "/" + h + "/" + url.PathEscape(dirc) + "/"
	case "file":
		target = "/" + h + "/plain.txt"
	case "magnet-dir":
		target = "/" + mhex + "/"
	case "single-dir":
		target = "/" + hs + "/"
	case "single-playlist":
		target = "/" + hs + ".m3u"
	case "single-dirplaylist":
		target = "/" + hs + "/?playlist"
	case "debug-pprof":
		target = "/debug/pprof/"
	case "debug-pprof-cmdline":
		target = "/debug/pprof/cmdline"
	case "debug-pprof-goroutine":
		target = "/debug/pprof/goroutine?debug=1"
	case "debug-pprof-heap":
		target = "/debug/pprof/heap"
	case "debug-pprof-symbol":
		target = "/debug/pprof/symbol"
	case "debug-vars":
		target = "/debug/vars"
	case "debug-requests":
		target = "/debug/requests"
	case "debug-events":
		target = "/debug/events"
	case "metrics":
		target = "/metrics"
	case "favicon":
		target = "/favicon.ico"
	case "deep-path":
		target = "/a/b/c/d/e"
	}
	if c.Method == "GET" || c.Method == "HEAD" {
		if body != "" {
			target += "&" + body
			body = ""
		}
	}
	confBefore, _ := l.t.GetConf()
	magnet := hash.Parse("00112233445566778899aabbccddeeff00112233")
	rec := do(c.Method, target, host, body)
	if rec.Code == 599 {
		// net/http recovers a handler's panic and drops the connection: the
		// request is not served, which is what a refusal needs; on a local
		// request it is a robustness defect outside this property.
		out.Nonconf = append(out.Nonconf, fmt.Sprintf("%s %s: the handler panicked: %s", c.Method, c.Route, trunc(rec.Body.String())))
		if c.Expect != "refused" || changedAfterPanic(l, confBefore) {
			return
		}
		return
	}
	page := rec.Body.String()
	out.Observed = fmt.Sprint(rec.Code)
	confAfter, cerr := l.t.GetConf()
	changed := cerr != nil || confBefore != confAfter || tor.Get(l.t.Hash) == nil || tor.Get(magnet) != nil
	if t2 := tor.Get(magnet); t2 != nil {
		k, cc := context.WithTimeout(context.Background(), 3*time.Second)
		t2.Kill(k)
		cc()
	}
	if c.Expect == "refused" {
		if rec.Code < 400 {
			viol("foreign-host-served", fmt.Sprintf("answered %d to a request with a foreign Host header", rec.Code))
		}
		if strings.Contains(page, h) || strings.Contains(page, hs) || strings.Contains(page, mhex) || strings.Contains(page, "plain.txt") || (rec.Code == 200 && len(page) > 0 && c.Route == "file") {
			viol("foreign-host-reads", "the answer to a request with a foreign Host header carries torrent data")
		}
		if changed {
			viol("foreign-host-changes", "a request with a foreign Host header changed the state (torrent set / configuration)")
		}
		return
	}
	if c.Expect == "served" && rec.Code == 403 {
		viol("local-host-refused", "a request to localhost / a literal address was refused")
	}
	// taint: hostile sources never appear raw in HTML; the escaped form appears where the page shows them
	if strings.HasPrefix(rec.Header().Get("Content-Type"), "text/html") && rec.Code == 200 && c.Method == "GET" {
		if strings.Contains(page, idcode) {
			viol("unescaped:peer-id-code", fmt.Sprintf("the client code %q cut from a peer id appears unescaped in the page", idcode))
		}
		for _, src := range []string{"name", "dir-component", "file-component", "tracker-url", "tracker-error", "webseed-url", "known-version", "single-name", "magnet-name", "tracker-peer-zone"} {
			raw := hostileFor(src, set)
			if strings.Contains(page, raw) {
				viol("unescaped:"+src, fmt.Sprintf("the %s %q appears unescaped in the page", src, raw))
			}
		}
		for _, src := range c.Shown {
			raw := hostileFor(src, set)
			if src == "peer-id-code" {
				raw = idcode
			}
			esc := html.EscapeString(raw)
			qesc := url.PathEscape(raw)
			if !strings.Contains(page, esc) && !strings.Contains(page, qesc) && !strings.Contains(page, raw) {
				out.Nonconf = append(out.Nonconf, fmt.Sprintf("%s %s: the page does not show the %s at all (not even escaped)", c.Method, c.Route, src))
			}
		}
	}
	if c.Playl && rec.Code == 200 && c.Method == "GET" {
		pl := page
		if c.Route == "subdir" {
			pl = do("GET", target+"?playlist", host, "").Body.String()
		}
		lines := strings.Split(strings.TrimRight(pl, "\n"), "\n")
		if len(lines) != 1+2*c.NFiles {
			viol("playlist-injection", fmt.Sprintf("the playlist of %d files has %d lines (a name containing a line break adds lines): %q", c.NFiles, len(lines), trunc(pl)))
		}
	}
	_ = peer.TorConf{}
}

func changedAfterPanic(l *live, before peer.TorConf) bool {
	after, err := l.t.GetConf()
	return err != nil || after != before
}

// Handle is the worker-side entry point.
func Handle(in []byte) any {
	var c Case
	if err := json.Unmarshal(in, &c); err != nil {
		return &Out{Note: "bad case: " + err.Error()}
	}
	out := &Out{ID: c.ID}
	switch c.Kind {
	case "namespace":
		runNamespace(&c, out)
	case "webui":
		runWebUI(&c, out)
	case "byname":
		runByName(&c, out)
	case "fuseconc":
		runFuseConc(&c, out)
	case "farread":
		runFarRead(&c, out)
	default:
		out.Note = "unknown kind"
	}
	return out
}
