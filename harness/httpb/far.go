package httpb

// runFarRead (C02, C01): a torrent longer than 4 GiB.  Offsets are 64-bit
// everywhere; a Reader, an HTTP Range request and a FUSE read placed across and
// beyond the 2^32 boundary must return the bytes that belong there - the pieces
// at the beginning of the torrent are in memory too, so that bytes taken from
// a 32-bit wrap of the offset would be wrong ones.

import (
	"bytes"
	"context"
	"fmt"
	"io"
	"net/http"
	"net/http/httptest"
	"time"

	bfuse "bazil.org/fuse"
	"bazil.org/fuse/fs"

	"github.com/jech/storrent/fuse"
	"github.com/jech/storrent/tor"

	"verifharness/internal/content"
	"verifharness/internal/mktor"
)

func runFarRead(c *Case, out *Out) {
	setup()
	prop := "C02"
	if c.Route == "C01" {
		prop = "C01"
	}
	viol := func(key, what string) {
		for _, v := range out.Violations {
			if v.Key == key {
				return
			}
		}
		out.Violations = append(out.Violations, Viol{prop, key, what})
	}
	const ps = 1 << 20
	const four = int64(1) << 32
	total := four + 3*ps + 12345
	seed := uint64(c.ID) + 311
	np := int((total + ps - 1) / ps)
	have := []int{0, 1, 4094, 4095, 4096, 4097, np - 1}
	spec := mktor.Spec{Name: fmt.Sprintf("far %d.bin", c.ID), PieceLen: ps, Length: total, Seed: seed, HashOnly: have}
	t, err := mktor.New(spec, "")
	if err != nil {
		out.Note = "torrent: " + err.Error()
		return
	}
	ctx, cancel := context.WithCancel(context.Background())
	defer cancel()
	t, err = tor.AddTorrent(ctx, t)
	if err != nil {
		out.Note = "torrent: " + err.Error()
		return
	}
	defer func() {
		k, c2 := context.WithTimeout(context.Background(), 5*time.Second)
		t.Kill(k)
		c2()
	}()
	for _, i := range have {
		lo := int64(i) * ps
		hi := min(lo+ps, total)
		for b := lo; b < hi; b += CS {
			e := min(b+CS, hi)
			if _, _, err := t.Pieces.AddData(uint32(i), uint32(b-lo), content.Range(seed, b, int(e-b)), 1); err != nil {
				out.Note = fmt.Sprintf("AddData piece %d: %v", i, err)
				return
			}
		}
		if done, _, err := t.Pieces.Finalise(uint32(i), t.PieceHashes[i]); err != nil || !done {
			out.Note = fmt.Sprintf("Finalise piece %d: done %v err %v", i, done, err)
			return
		}
		t.Have(uint32(i), true)
	}
	t.GetStats()
	truth := func(off int64, n int) []byte {
		if off+int64(n) > total {
			n = int(total - off)
		}
		return content.Range(seed, off, n)
	}
	differ := func(got, want []byte) string {
		for i := range got {
			if i >= len(want) || got[i] != want[i] {
				return fmt.Sprintf("%d bytes returned, they differ from the torrent's from byte %d on", len(got), i)
			}
		}
		return fmt.Sprintf("%d bytes returned, %d expected", len(got), len(want))
	}
	type rg struct {
		off int64
		n   int
	}
	ranges := []rg{{100, 5000}, {four - 5000, 20000}, {four, 4096}, {four + 1000, 5000}, {four + ps + 77, 70000}, {total - 3000, 3000}, {four - 1, 2}}
	// 1. the store itself
	for _, r := range ranges {
		// (ReadAt serves one piece at a time: read on until the range is full)
		buf := make([]byte, r.n)
		n := 0
		var err error
		for n < len(buf) {
			var k int
			k, err = t.Pieces.ReadAt(buf[n:], r.off+int64(n))
			n += k
			if k == 0 || err != nil {
				break
			}
		}
		if want := truth(r.off, r.n); err != nil && err != io.EOF || !bytes.Equal(buf[:n], want) {
			viol("far-readat", fmt.Sprintf("Pieces.ReadAt at offset %d (2^32%+d): err %v, %s", r.off, r.off-four, err, differ(buf[:n], want)))
		}
	}
	// 2. a Reader
	for _, r := range ranges {
		rd := t.NewReader(ctx, r.off, int64(r.n))
		res := make(chan []byte, 1)
		go func() {
			b, _ := io.ReadAll(rd)
			res <- b
		}()
		select {
		case got := <-res:
			if want := truth(r.off, r.n); !bytes.Equal(got, want) {
				viol("far-reader", fmt.Sprintf("a Reader over [%d, +%d) (2^32%+d): %s", r.off, r.n, r.off-four, differ(got, want)))
			}
		case <-time.After(8 * time.Second):
			viol("far-reader-stalls", fmt.Sprintf("a Reader over [%d, +%d) (2^32%+d) does not deliver although every piece of the range is verified and in memory", r.off, r.n, r.off-four))
		}
		rd.Close()
	}
	// 3. the HTTP file view with a Range header
	for _, r := range ranges[1:5] {
		req := httptest.NewRequest("GET", "/"+t.Hash.String()+"/"+pathURL([]string{t.Name}), nil)
		req.Host = "localhost:8088"
		req.Header.Set("Range", fmt.Sprintf("bytes=%d-%d", r.off, r.off+int64(r.n)-1))
		rec := httptest.NewRecorder()
		done := make(chan struct{})
		go func() {
			http.DefaultServeMux.ServeHTTP(rec, req)
			close(done)
		}()
		select {
		case <-done:
			if want := truth(r.off, r.n); rec.Code != 206 || !bytes.Equal(rec.Body.Bytes(), want) {
				viol("far-http-range", fmt.Sprintf("GET with Range %d-%d (2^32%+d) answered %d: %s", r.off, r.off+int64(r.n)-1, r.off-four, rec.Code, differ(rec.Body.Bytes(), want)))
			}
		case <-time.After(8 * time.Second):
			viol("far-reader-stalls", fmt.Sprintf("GET with Range %d-%d does not complete although the pieces are in memory", r.off, r.off+int64(r.n)-1))
		}
	}
	// 4. a FUSE read
	root := fuse.VerifRoot()
	node, err := root.(fs.NodeStringLookuper).Lookup(ctx, t.Name)
	if err != nil {
		out.Note = "fuse lookup: " + err.Error()
		return
	}
	var a bfuse.Attr
	if err := node.Attr(ctx, &a); err != nil || int64(a.Size) != total {
		viol("far-fuse-size", fmt.Sprintf("FUSE reports a size of %d (err %v), the torrent has %d bytes", a.Size, err, total))
	}
	hd, err := node.(fs.NodeOpener).Open(ctx, &bfuse.OpenRequest{Flags: bfuse.OpenReadOnly}, &bfuse.OpenResponse{})
	if err != nil {
		out.Note = "fuse open: " + err.Error()
		return
	}
	for _, r := range ranges[1:5] {
		resp := &bfuse.ReadResponse{Data: make([]byte, 0, r.n)}
		done := make(chan error, 1)
		go func() { done <- hd.(fs.HandleReader).Read(ctx, &bfuse.ReadRequest{Offset: r.off, Size: r.n}, resp) }()
		select {
		case err := <-done:
			if want := truth(r.off, r.n); err != nil || !bytes.Equal(resp.Data, want) {
				viol("far-fuse-read", fmt.Sprintf("FUSE read at %d (2^32%+d): err %v, %s", r.off, r.off-four, err, differ(resp.Data, want)))
			}
		case <-time.After(8 * time.Second):
			viol("far-reader-stalls", fmt.Sprintf("FUSE read at %d does not complete although the pieces are in memory", r.off))
		}
	}
	if rl, ok := hd.(fs.HandleReleaser); ok {
		rl.Release(ctx, &bfuse.ReleaseRequest{})
	}
	out.Observed = fmt.Sprintf("pieces=%d", np)
}
