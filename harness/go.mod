module verifharness

go 1.22

require (
	bazil.org/fuse v0.0.0-20230120002735-62a210ff1fd5
	github.com/jech/storrent v0.0.0
)

require (
	github.com/zeebo/bencode v1.0.0 // indirect
	golang.org/x/net v0.28.0 // indirect
	golang.org/x/sys v0.24.0 // indirect
)

replace github.com/jech/storrent => /repo
