module verifharness

go 1.22

require github.com/jech/storrent v0.0.0

require golang.org/x/sys v0.24.0 // indirect

replace github.com/jech/storrent => /repo
