// Package privacyb binds spec/Privacy.tla (C18) to a real running torrent:
// a local HTTP server plays tracker and web seed, a local SOCKS5 server plays
// the proxy (and, for peer connections, the remote peer behind it), the DHT
// announce hook reports what would be handed to the DHT library, and scripted
// remote peers read what peer.Run writes first.  Each step of a TLC-generated
// walk is performed on the torrent; everything that leaves the process during
// the step is collected and compared with the model's `out`, and checked
// against the model's `Forbidden` set for the configuration in force.
package privacyb

import (
	"context"
	"encoding/binary"
	"encoding/json"
	"fmt"
	"io"
	"net"
	"net/http"
	"net/netip"
	"sort"
	"strconv"
	"strings"
	"sync"
	"sync/atomic"
	"time"

	"github.com/jech/storrent/config"
	"github.com/jech/storrent/crypto"
	"github.com/jech/storrent/hash"
	"github.com/jech/storrent/peer"
	"github.com/jech/storrent/tor"
	"github.com/jech/storrent/tracker"

	"verifharness/internal/benc"
	"verifharness/internal/content"
	"verifharness/internal/mktor"
)

const CS = 16384

const (
	extTCP = 45123
	extUDP = 45124
	proto  = 45125
)

type Conf struct {
	Trk bool   `json:"trk"`
	Ws  bool   `json:"ws"`
	Dht string `json:"dht"`
}

type State struct {
	Started bool   `json:"started"`
	Proxy   bool   `json:"proxy"`
	Kind    string `json:"kind"`
	Conf    Conf   `json:"conf"`
	Due     bool   `json:"due"`
	Peer    bool   `json:"peer"`
	Wanted  bool   `json:"wanted"`
}

type Label struct {
	A   string `json:"a"`
	C   *Conf  `json:"c"`
	Fam string `json:"fam"`
}

type Step struct {
	A struct {
		L         Label    `json:"l"`
		Out       []string `json:"out"`
		Forbidden []string `json:"forbidden"`
	} `json:"a"`
	S State `json:"s"`
}

type Case struct {
	Kind   string `json:"kind"` // "" (a walk of Privacy.tla), "bigreply" or "badproxy"
	NPeers int    `json:"npeers"`
	PxStr  int    `json:"pxstr"` // badproxy: which unusable proxy string
	ID     int    `json:"id"`
	Init   State  `json:"init"`
	Steps  []Step `json:"steps"`
}

type Viol struct {
	Key  string `json:"key"`
	What string `json:"what"`
}

type Out struct {
	ID         int        `json:"id"`
	Violations []Viol     `json:"violations,omitempty"`
	Nonconf    []string   `json:"nonconf,omitempty"`
	Observed   [][]string `json:"observed,omitempty"`
	Note       string     `json:"note,omitempty"`
	Seen       []string   `json:"seen,omitempty"` // every observation class seen at least once
	Events     []Event    `json:"events,omitempty"`
	Early      []string   `json:"early,omitempty"` // tracker contacts at a moment the specification's tracker is not due (C15)
}

// Event is one line of the trace validated by TLC (spec/PrivacyTrace.tla).
type Event struct {
	L       Label    `json:"l"`
	Obs     []string `json:"obs"`
	Conf    Conf     `json:"conf"` // read back from the torrent (GetConf)
	Proxy   bool     `json:"proxy"`
	Kind    string   `json:"kind"`
	Started bool     `json:"started"`
	Peer    bool     `json:"peer"` // the persistent remote peer is connected
}

type world struct {
	mu    sync.Mutex
	obs   []string
	notes []string
	seed  uint64
	total int64
	name  string
	lnA   net.Listener // the address in the metainfo
	lnB   net.Listener // where the proxy forwards to
	lnS   net.Listener // SOCKS5
	hash  hash.Hash
	t     *tor.Torrent
	proxy bool
	keep  int // peers that are meant to stay connected
	// bigreply: the tracker answers with this many peers, once bigGo is closed
	big   int
	bigGo chan struct{}
}

func (w *world) add(o string) {
	w.mu.Lock()
	w.obs = append(w.obs, o)
	w.mu.Unlock()
}

func (w *world) note(s string) {
	w.mu.Lock()
	w.notes = append(w.notes, s)
	w.mu.Unlock()
}

func (w *world) take() []string {
	w.mu.Lock()
	defer w.mu.Unlock()
	o := w.obs
	w.obs = nil
	return o
}

func (w *world) has(o string) bool {
	w.mu.Lock()
	defer w.mu.Unlock()
	for _, x := range w.obs {
		if x == o {
			return true
		}
	}
	return false
}

// ---- the HTTP side: tracker and web seed

type handler struct {
	w   *world
	via string
}

func (h handler) ServeHTTP(rw http.ResponseWriter, r *http.Request) {
	w := h.w
	if ua := r.Header.Get("User-Agent"); ua != "" {
		w.add("http:version")
	}
	if w.proxy && h.via == "direct" {
		w.note("a proxied torrent made a direct HTTP request: " + r.URL.Path)
	}
	switch {
	case strings.HasPrefix(r.URL.Path, "/announce"):
		q := r.URL.Query()
		p := q.Get("port")
		if p == strconv.Itoa(extTCP) || p == strconv.Itoa(proto) {
			w.add("tracker:port")
		} else if p != "" && p != "0" {
			w.add("tracker:port")
			w.note("tracker query with port=" + p)
		} else {
			w.add("tracker:noport")
		}
		if q.Get("ipv6") != "" || q.Get("ip") != "" {
			w.add("peer:ipv6")
		}
		body := "d8:intervali1800e5:peers0:e"
		if w.big > 0 {
			<-w.bigGo
			var pb []byte
			for k := 0; k < w.big; k++ {
				pb = append(pb, 198, 18, byte(k>>8), byte(k), 0x1a, 0xe1)
			}
			body = fmt.Sprintf("d8:intervali1800e5:peers%d:%se", len(pb), pb)
		}
		rw.Header().Set("Content-Length", strconv.Itoa(len(body)))
		rw.Write([]byte(body))
	case strings.HasPrefix(r.URL.Path, "/seed/"):
		w.add("webseed")
		var o, e int64
		rg := r.Header.Get("Range")
		if n, _ := fmt.Sscanf(rg, "bytes=%d-%d", &o, &e); n != 2 || o < 0 || e < o || o >= w.total {
			http.Error(rw, "range", 416)
			return
		}
		if e >= w.total {
			e = w.total - 1
		}
		rw.Header().Set("Content-Range", fmt.Sprintf("bytes %d-%d/%d", o, e, w.total))
		rw.Header().Set("Content-Length", strconv.FormatInt(e-o+1, 10))
		rw.WriteHeader(206)
		rw.Write(content.Range(w.seed, o, int(e-o+1)))
	default:
		http.NotFound(rw, r)
	}
}

// ---- the UDP tracker (BEP 15): connect, then announce

func (w *world) udpTracker(pc net.PacketConn) {
	buf := make([]byte, 2048)
	for {
		n, addr, err := pc.ReadFrom(buf)
		if err != nil {
			return
		}
		if w.proxy {
			w.note("a proxied torrent sent a datagram to the UDP tracker directly")
		}
		m := buf[:n]
		if n >= 16 && binary.BigEndian.Uint64(m) == 0x41727101980 && binary.BigEndian.Uint32(m[8:]) == 0 {
			r := make([]byte, 16)
			binary.BigEndian.PutUint32(r, 0)
			copy(r[4:8], m[12:16])
			binary.BigEndian.PutUint64(r[8:], 0x1122334455667788)
			pc.WriteTo(r, addr)
			continue
		}
		if n >= 98 && binary.BigEndian.Uint32(m[8:]) == 1 {
			port := binary.BigEndian.Uint16(m[96:98])
			if port != 0 {
				w.add("tracker:port")
			} else {
				w.add("tracker:noport")
			}
			if binary.BigEndian.Uint32(m[84:88]) != 0 {
				w.add("peer:ipv6") // an address disclosed in the ip field
			}
			r := make([]byte, 20)
			binary.BigEndian.PutUint32(r, 1)
			copy(r[4:8], m[12:16])
			binary.BigEndian.PutUint32(r[8:], 1800)
			pc.WriteTo(r, addr)
		}
	}
}

// ---- the SOCKS5 proxy (RFC 1928, no authentication, CONNECT only)

func (w *world) socks(conn net.Conn) {
	defer conn.Close()
	conn.SetDeadline(time.Now().Add(10 * time.Second))
	hdr := make([]byte, 2)
	if _, err := io.ReadFull(conn, hdr); err != nil || hdr[0] != 5 {
		return
	}
	if _, err := io.ReadFull(conn, make([]byte, hdr[1])); err != nil {
		return
	}
	conn.Write([]byte{5, 0})
	req := make([]byte, 4)
	if _, err := io.ReadFull(conn, req); err != nil || req[1] != 1 {
		return
	}
	var host string
	switch req[3] {
	case 1:
		b := make([]byte, 4)
		io.ReadFull(conn, b)
		host = net.IP(b).String()
	case 4:
		b := make([]byte, 16)
		io.ReadFull(conn, b)
		host = net.IP(b).String()
	case 3:
		l := make([]byte, 1)
		io.ReadFull(conn, l)
		b := make([]byte, l[0])
		io.ReadFull(conn, b)
		host = string(b)
	default:
		return
	}
	pb := make([]byte, 2)
	if _, err := io.ReadFull(conn, pb); err != nil {
		return
	}
	port := int(binary.BigEndian.Uint16(pb))
	conn.Write([]byte{5, 0, 0, 1, 0, 0, 0, 0, 0, 0})
	conn.SetDeadline(time.Time{})
	if port == w.lnA.Addr().(*net.TCPAddr).Port && (host == "127.0.0.1" || host == "localhost") {
		up, err := net.Dial("tcp4", w.lnB.Addr().String())
		if err != nil {
			return
		}
		defer up.Close()
		go io.Copy(up, conn)
		io.Copy(conn, up)
		return
	}
	// a peer connection: storrent is the client
	w.remotePeer(conn, true)
}

// ---- the remote peer

func (w *world) handshake(id byte) []byte {
	hs := make([]byte, 68)
	hs[0] = 19
	copy(hs[1:], "BitTorrent protocol")
	hs[25] |= 0x10 // extended
	hs[27] |= 0x05 // DHT, fast
	copy(hs[28:48], w.hash)
	for i := 48; i < 68; i++ {
		hs[i] = id
	}
	return hs
}

var peerSeq byte = 0x40

// remotePeer plays the other end of a peer connection and records what the
// first messages reveal.  clientFirst: storrent sends its handshake first.
// It returns whether the handshake completed.
func (w *world) remotePeer(conn net.Conn, clientFirst bool) bool {
	return w.remotePeerStay(conn, clientFirst, false)
}

// remotePeerStay: with stay, after the first messages the remote sends a
// bitfield (it has the even pieces), never unchokes, and keeps reading.
func (w *world) remotePeerStay(conn net.Conn, clientFirst bool, stay bool) bool {
	peerSeq++
	mine := w.handshake(peerSeq)
	theirs := make([]byte, 68)
	conn.SetDeadline(time.Now().Add(3 * time.Second))
	if clientFirst {
		if _, err := io.ReadFull(conn, theirs); err != nil {
			return false
		}
		if _, err := conn.Write(mine); err != nil {
			return false
		}
	} else {
		done := make(chan error, 1)
		go func() { _, err := conn.Write(mine); done <- err }()
		if _, err := io.ReadFull(conn, theirs); err != nil {
			return false
		}
		if err := <-done; err != nil {
			return false
		}
	}
	w.add("peer:handshake")
	// read the first messages
	conn.SetDeadline(time.Now().Add(700 * time.Millisecond))
	for {
		lb := make([]byte, 4)
		if _, err := io.ReadFull(conn, lb); err != nil {
			break
		}
		n := binary.BigEndian.Uint32(lb)
		if n == 0 {
			continue
		}
		if n > 1<<20 {
			break
		}
		m := make([]byte, n)
		if _, err := io.ReadFull(conn, m); err != nil {
			break
		}
		switch m[0] {
		case 9:
			w.add("peer:dhtport")
		case 20:
			if len(m) > 2 && m[1] == 0 {
				w.add("peer:ext0")
				v, _, err := benc.Parse(m[2:])
				d, ok := v.(*benc.Dict)
				if err != nil || !ok {
					w.note("unparsable extended handshake")
					break
				}
				if s, ok := d.Vals["v"].([]byte); ok && len(s) > 0 {
					w.add("peer:version")
				}
				if p, ok := d.Vals["p"].(int64); ok && p != 0 {
					w.add("peer:port")
				}
				if s, ok := d.Vals["ipv6"].([]byte); ok && len(s) > 0 {
					w.add("peer:ipv6")
				}
				if s, ok := d.Vals["ipv4"].([]byte); ok && len(s) > 0 {
					w.add("peer:ipv6")
				}
			}
		case 5, 14, 15:
			// bitfield / have-all / have-none close the initial writes
			conn.SetDeadline(time.Now().Add(150 * time.Millisecond))
		}
	}
	if stay {
		conn.SetDeadline(time.Time{})
		bf := []byte{0, 0, 0, 6, 5, 0xaa, 0xaa, 0xaa, 0xaa, 0xaa} // 40 pieces: the even ones
		if _, err := conn.Write(bf); err != nil {
			return false
		}
		go io.Copy(io.Discard, conn)
	}
	return true
}

type tcpConn struct {
	net.Conn
	remote net.Addr
}

func (c tcpConn) RemoteAddr() net.Addr { return c.remote }

// ---- driving the torrent

func (w *world) barrier() error {
	_, err := w.t.GetStats()
	return err
}

// parked runs f while the event loop is parked between two events.
func (w *world) parked(f func()) {
	g1, g2 := make(chan *peer.TorStats), make(chan *peer.TorStats)
	w.t.Event <- peer.TorGetStats{Ch: g1}
	w.t.Event <- peer.TorGetStats{Ch: g2}
	<-g1
	f()
	<-g2
}

func (w *world) quiet() bool {
	busy := false
	w.parked(func() {
		for _, f := range w.t.VerifInFlight() {
			if f != 0 {
				busy = true
				break
			}
		}
	})
	for _, ws := range w.t.Webseeds() {
		if ws.Count() > 0 {
			busy = true
		}
	}
	for _, tl := range w.t.Trackers() {
		for _, tr := range tl {
			if st, _ := tr.GetState(); st == tracker.Busy {
				busy = true
			}
		}
	}
	return !busy
}

func (w *world) quiesce() bool {
	for n := 0; n < 250; n++ {
		if w.quiet() {
			return true
		}
		time.Sleep(20 * time.Millisecond)
	}
	return false
}

func dhtMode(s string) config.DhtMode {
	m, err := config.ParseDhtMode(s)
	if err != nil {
		panic(err)
	}
	return m
}

func runCase(c *Case, out *Out) {
	config.SetDefaultProxy("")
	config.SetExternalIPv4Port(extTCP, true)
	config.SetExternalIPv4Port(extUDP, false)
	config.ProtocolPort = proto
	config.SetIdleRate(0)
	config.PrefetchRate = 2e6
	tor.VerifManualTicks = true

	w := &world{seed: uint64(c.ID) + 11, proxy: c.Init.Proxy, name: "priv.bin"}
	const npieces = 40
	w.total = npieces*2*CS - 900
	var err error
	for _, ln := range []*net.Listener{&w.lnA, &w.lnB, &w.lnS} {
		*ln, err = net.Listen("tcp4", "127.0.0.1:0")
		if err != nil {
			out.Note = err.Error()
			return
		}
		defer (*ln).Close()
	}
	srvA := &http.Server{Handler: handler{w, "direct"}}
	srvB := &http.Server{Handler: handler{w, "proxy"}}
	go srvA.Serve(w.lnA)
	go srvB.Serve(w.lnB)
	defer srvA.Close()
	defer srvB.Close()
	go func() {
		for {
			conn, err := w.lnS.Accept()
			if err != nil {
				return
			}
			go w.socks(conn)
		}
	}()

	base := "http://" + w.lnA.Addr().String()
	trk := base + "/announce"
	if c.Init.Kind == "udp" {
		pc, err := net.ListenPacket("udp4", "127.0.0.1:0")
		if err != nil {
			out.Note = err.Error()
			return
		}
		defer pc.Close()
		go w.udpTracker(pc)
		trk = "udp://" + pc.LocalAddr().String() + "/announce"
	}
	spec := mktor.Spec{Name: w.name, PieceLen: 2 * CS, Length: w.total, Seed: w.seed,
		Trackers: []string{trk}, Webseeds: []string{base + "/seed/"}}
	proxyURL := ""
	if c.Init.Proxy {
		proxyURL = "socks5://" + w.lnS.Addr().String()
	}
	// the global defaults are what tor.New copies into the torrent
	config.DefaultUseTrackers = c.Init.Conf.Trk
	config.DefaultUseWebseeds = c.Init.Conf.Ws
	config.DefaultDhtMode = dhtMode(c.Init.Conf.Dht)
	t, err := mktor.New(spec, proxyURL)
	if err != nil {
		out.Note = "torrent: " + err.Error()
		return
	}
	w.hash = t.Hash
	tor.VerifAnnounce = func(h hash.Hash, ipv6 bool, port uint16) {
		if !h.Equal(w.hash) {
			return
		}
		o := "dht4"
		if ipv6 {
			o = "dht6"
		}
		if port != 0 {
			o += ":port"
		} else {
			o += ":noport"
		}
		w.add(o)
	}
	defer func() { tor.VerifAnnounce = nil }()
	var slowTicks int32
	tor.VerifYield = func(point string) {
		if point == "run.slowtick" {
			atomic.AddInt32(&slowTicks, 1)
		}
	}
	defer func() { tor.VerifYield = nil }()
	ctx, cancel := context.WithCancel(context.Background())
	defer cancel()

	seen := map[string]bool{}
	var persistent net.Conn
	defer func() {
		if persistent != nil {
			persistent.Close()
		}
	}()
	var outstanding []<-chan struct{}
	nextPiece := 0
	cur := c.Init
	viol := func(key, what string) {
		for _, v := range out.Violations {
			if v.Key == key {
				return
			}
		}
		out.Violations = append(out.Violations, Viol{key, what})
	}
	waitFor := func(o string, d time.Duration) bool {
		dl := time.Now().Add(d)
		for time.Now().Before(dl) {
			if w.has(o) {
				return true
			}
			time.Sleep(5 * time.Millisecond)
		}
		return false
	}
	waitOutstanding := func() bool {
		dl := time.Now().Add(20 * time.Second)
		for _, ch := range outstanding {
			select {
			case <-ch:
			case <-time.After(time.Until(dl)):
				return false
			}
		}
		outstanding = nil
		return true
	}

	out.Events = append(out.Events, Event{L: Label{A: "reset", C: &Conf{}}, Obs: []string{}, Conf: c.Init.Conf, Proxy: c.Init.Proxy, Kind: c.Init.Kind})
	for k, st := range c.Steps {
		desc := fmt.Sprintf("step %d %s", k, st.A.L.A)
		post := st.S
		switch st.A.L.A {
		case "Start":
			t, err = tor.AddTorrent(ctx, t)
			if err != nil {
				out.Note = "AddTorrent: " + err.Error()
				return
			}
			w.t = t
			defer func() {
				k, c2 := context.WithTimeout(context.Background(), 5*time.Second)
				t.Kill(k)
				c2()
				tor.VerifForget(t)
			}()
			for n := 0; n < 500 && !tor.VerifTickersReady(t); n++ {
				time.Sleep(2 * time.Millisecond)
			}
			if !tor.VerifTickersReady(t) {
				out.Note = "the run loop did not register its tickers"
				return
			}
		case "SetConf":
			desc += fmt.Sprintf(" %+v", *st.A.L.C)
			err = t.SetConf(peer.TorConf{DhtMode: dhtMode(st.A.L.C.Dht), UseTrackers: st.A.L.C.Trk, UseWebseeds: st.A.L.C.Ws})
			if err == nil {
				err = w.barrier()
			}
			if err == nil && st.A.L.C.Ws && len(outstanding) > 0 {
				if !waitOutstanding() {
					out.Nonconf = append(out.Nonconf, desc+": the outstanding pieces were not fetched from the web seed within 20 s of enabling it")
					outstanding = nil
				}
			}
		case "DhtEvent":
			err = tor.Announce(t.Hash, st.A.L.Fam == "dht6")
			if err == nil {
				err = w.barrier()
			}
		case "TrackerDue":
			w.parked(func() {
				for _, tl := range t.Trackers() {
					for _, tr := range tl {
						tracker.VerifShift(tr, 2*time.Hour)
					}
				}
			})
		case "Tick":
			// both tickers fire until the run loop has taken at least one slow tick, then stop again
			before := atomic.LoadInt32(&slowTicks)
			w.parked(func() { tor.VerifTick(t, true) })
			for n := 0; n < 5000 && atomic.LoadInt32(&slowTicks) == before; n++ {
				time.Sleep(time.Millisecond)
			}
			w.parked(func() { tor.VerifTick(t, false) })
			if atomic.LoadInt32(&slowTicks) == before {
				out.Note = desc + ": the run loop did not take a tick within 5 s"
				return
			}
		case "Want":
			if nextPiece >= npieces {
				out.Nonconf = append(out.Nonconf, desc+": out of pieces, step skipped")
				break
			}
			var ch <-chan struct{}
			_, ch, err = t.Request(uint32(nextPiece), 1, true, true)
			nextPiece++
			if err == nil {
				err = w.barrier()
			}
			if ch != nil {
				outstanding = append(outstanding, ch)
			}
			if err == nil && cur.Conf.Ws {
				if !waitOutstanding() {
					out.Nonconf = append(out.Nonconf, desc+": the wanted piece was not fetched from the web seed within 20 s")
					outstanding = nil
				}
			}
		case "Incoming":
			c1, c2 := net.Pipe()
			res := make(chan error, 1)
			go func() {
				res <- tor.Server(tcpConn{c1, &net.TCPAddr{IP: net.ParseIP("198.51.100.7"), Port: 50001}}, crypto.DefaultOptions(false, false))
			}()
			ok := w.remotePeer(c2, false)
			c2.Close()
			select {
			case <-res:
			case <-time.After(3 * time.Second):
			}
			if ok {
				w.add("incoming:accepted")
			} else {
				w.add("incoming:refused")
			}
			w.dropPeers()
		case "PeerJoin":
			c1, c2 := net.Pipe()
			res := make(chan error, 1)
			go func() {
				res <- tor.Server(tcpConn{c1, &net.TCPAddr{IP: net.ParseIP("198.51.100.77"), Port: 50077}}, crypto.DefaultOptions(false, false))
			}()
			ok := w.remotePeerStay(c2, false, true)
			select {
			case <-res:
			case <-time.After(3 * time.Second):
			}
			if !ok {
				out.Note = desc + ": the persistent peer could not connect"
				return
			}
			w.add("incoming:accepted")
			persistent = c2
			w.keep = 1
			for n := 0; n < 100; n++ {
				if st, err := t.GetStats(); err == nil && st.NumPeers >= 1 {
					break
				}
				time.Sleep(10 * time.Millisecond)
			}
		case "PeerLeave":
			if persistent != nil {
				persistent.Close()
				persistent = nil
			}
			w.keep = 0
			w.dropPeers()
		case "Outgoing":
			if c.Init.Proxy {
				res := make(chan error, 1)
				go func() {
					res <- tor.DialClient(ctx, t, netip.MustParseAddrPort("198.51.100.9:6881"), crypto.DefaultOptions(false, false))
				}()
				if !waitFor("peer:handshake", 5*time.Second) {
					out.Note = desc + ": the proxied outgoing connection never reached the SOCKS server"
					return
				}
				waitFor("peer:ext0", 2*time.Second)
				time.Sleep(300 * time.Millisecond)
				select {
				case <-res:
				case <-time.After(3 * time.Second):
				}
			} else {
				c1, c2 := net.Pipe()
				res := make(chan error, 1)
				go func() {
					res <- tor.Client(tcpConn{c1, &net.TCPAddr{IP: net.ParseIP("198.51.100.9"), Port: 6881}}, t,
						netip.MustParseAddrPort("198.51.100.9:6881"), "", false, crypto.DefaultOptions(false, false))
				}()
				w.remotePeer(c2, true)
				c2.Close()
				select {
				case <-res:
				case <-time.After(3 * time.Second):
				}
			}
			w.dropPeers()
		default:
			out.Note = "unknown action " + st.A.L.A
			return
		}
		if err != nil {
			out.Note = desc + ": " + err.Error()
			return
		}
		expect := map[string]bool{}
		for _, o := range st.A.Out {
			expect[o] = true
		}
		for _, o := range []string{"tracker:port", "tracker:noport"} {
			if expect[o] && !waitFor(o, 6*time.Second) {
				// If the tracker is simply not ready (an earlier, unmodelled
				// contact reset its interval) no announce is in flight and
				// the walk can go on; otherwise nothing later could be
				// attributed to the right configuration.
				st, _ := t.Trackers()[0][0].GetState()
				if st != tracker.Idle && st != tracker.Error {
					out.Note = fmt.Sprintf("%s: the tracker was not contacted within 6 s although enabled and due (tracker state %v)", desc, st)
					return
				}
				out.Nonconf = append(out.Nonconf, desc+": the model expects a tracker contact, but the tracker is not ready (it was contacted earlier than the model says)")
			}
		}
		if !w.quiesce() {
			out.Note = desc + ": the torrent does not become quiet (fetches or announces still running after 5 s)"
			return
		}
		time.Sleep(40 * time.Millisecond)
		if err := w.barrier(); err != nil {
			out.Note = desc + ": " + err.Error()
			return
		}
		got := w.take()
		gs := map[string]bool{}
		for _, o := range got {
			gs[o] = true
			seen[o] = true
		}
		forb := map[string]bool{}
		for _, o := range st.A.Forbidden {
			forb[o] = true
		}
		if post.Proxy {
			forb["http:version"] = true
		}
		var obs []string
		for o := range gs {
			obs = append(obs, o)
			if forb[o] {
				viol("forbidden:"+o, fmt.Sprintf("%s was observed during %s although the torrent's configuration is %+v, proxy %v (Privacy.tla Forbidden)",
					o, desc, post.Conf, post.Proxy))
			}
		}
		sort.Strings(obs)
		out.Observed = append(out.Observed, obs)
		if (gs["tracker:port"] || gs["tracker:noport"]) && !expect["tracker:port"] && !expect["tracker:noport"] && !cur.Due {
			out.Early = append(out.Early, fmt.Sprintf("%s: the tracker was contacted again although neither its interval nor five minutes have elapsed since the last announce (proxy %v, tracker %s)", desc, c.Init.Proxy, c.Init.Kind))
		}
		// the configuration as the torrent itself reports it
		rc, cerr := t.GetConf()
		if cerr != nil {
			out.Note = desc + ": GetConf: " + cerr.Error()
			return
		}
		tobs := []string{}
		for _, o := range obs {
			if o != "peer:handshake" && o != "peer:ext0" && o != "http:version" {
				tobs = append(tobs, o)
			}
		}
		lab := st.A.L
		if lab.C == nil {
			lab.C = &Conf{}
		}
		out.Events = append(out.Events, Event{L: lab, Obs: tobs, Conf: Conf{Trk: rc.UseTrackers, Ws: rc.UseWebseeds, Dht: rc.DhtMode.String()},
			Proxy: c.Init.Proxy, Kind: c.Init.Kind, Started: true, Peer: persistent != nil})
		for o := range expect {
			if !gs[o] {
				out.Nonconf = append(out.Nonconf, fmt.Sprintf("%s: the model expects %s, not observed (observed %v)", desc, o, obs))
			}
		}
		for o := range gs {
			if !expect[o] && !forb[o] && o != "peer:handshake" && o != "peer:ext0" && o != "peer:ipv6" {
				out.Nonconf = append(out.Nonconf, fmt.Sprintf("%s: observed %s, which the model does not produce here (expected %v)", desc, o, st.A.Out))
			}
		}
		if (st.A.L.A == "Outgoing" || st.A.L.A == "Incoming" && !post.Proxy) && !gs["peer:ext0"] {
			out.Nonconf = append(out.Nonconf, desc+": no extended handshake was received from the peer connection")
		}
		cur = post
	}
	for o := range seen {
		out.Seen = append(out.Seen, o)
	}
	sort.Strings(out.Seen)
	w.mu.Lock()
	for _, n := range w.notes {
		out.Nonconf = append(out.Nonconf, n)
	}
	w.mu.Unlock()
}

func (w *world) dropPeers() {
	for n := 0; n < 150; n++ {
		st, err := w.t.GetStats()
		if err != nil || st.NumPeers <= w.keep {
			return
		}
		if n%10 == 9 && w.keep == 0 {
			w.t.DropPeer()
		}
		time.Sleep(20 * time.Millisecond)
	}
}

// badProxies are strings storrent accepts as a torrent's proxy but cannot use.
var badProxies = []string{
	"127.0.0.1:9050",            // the scheme forgotten: not a URL
	"socks5://[::1",             // unbalanced bracket
	"socks5://127.0.0.1:9050\n", // a pasted line break
	"socks5://%zz:9050",         // bad escape
	"gopher://127.0.0.1:9050",   // a URL, but no dialer for the scheme
}

// runBadProxy: Privacy.tla with PxOk = FALSE.  A proxied torrent whose proxy
// cannot be used has trackers and web seeds enabled, its tracker is due, a piece
// is wanted and a peer is dialled.  Whatever would go through the proxy fails;
// nothing reaches the tracker / web seed (which listen on the IPv6 loopback
// address when there is one, so a direct contact shows the client's IPv6
// address) or a peer directly.
func runBadProxy(c *Case, out *Out) {
	config.SetDefaultProxy("")
	config.SetExternalIPv4Port(extTCP, true)
	config.SetExternalIPv4Port(extUDP, false)
	config.ProtocolPort = proto
	config.SetIdleRate(0)
	config.PrefetchRate = 2e6
	tor.VerifManualTicks = true
	px := badProxies[c.PxStr%len(badProxies)]
	w := &world{seed: uint64(c.ID) + 31, proxy: true, name: "bp.bin"}
	w.total = 8*2*CS - 900
	var err error
	w.lnA, err = net.Listen("tcp6", "[::1]:0")
	v6 := err == nil
	if !v6 {
		w.lnA, err = net.Listen("tcp4", "127.0.0.1:0")
		if err != nil {
			out.Note = err.Error()
			return
		}
	}
	defer w.lnA.Close()
	srv := &http.Server{Handler: handler{w, "direct"}}
	go srv.Serve(w.lnA)
	defer srv.Close()
	// a peer address that listens, too: a direct dial would connect
	lnP, err := net.Listen("tcp4", "127.0.0.1:0")
	if err != nil {
		out.Note = err.Error()
		return
	}
	defer lnP.Close()
	go func() {
		for {
			conn, err := lnP.Accept()
			if err != nil {
				return
			}
			w.add("peer:direct")
			conn.Close()
		}
	}()
	base := "http://" + w.lnA.Addr().String()
	config.DefaultUseTrackers, config.DefaultUseWebseeds, config.DefaultDhtMode = true, true, dhtMode(c.Init.Conf.Dht)
	t, err := mktor.New(mktor.Spec{Name: w.name, PieceLen: 2 * CS, Length: w.total, Seed: w.seed,
		Trackers: []string{base + "/announce"}, Webseeds: []string{base + "/seed/"}}, px)
	if err != nil {
		// refusing the string at this point is fine, too: nothing can leak
		out.Observed = append(out.Observed, []string{"refused: " + err.Error()})
		return
	}
	w.hash = t.Hash
	tor.VerifAnnounce = func(h hash.Hash, ipv6 bool, port uint16) {
		if h.Equal(w.hash) && port != 0 {
			w.add("dht:port")
		}
	}
	defer func() { tor.VerifAnnounce = nil }()
	var slowTicks int32
	tor.VerifYield = func(point string) {
		if point == "run.slowtick" {
			atomic.AddInt32(&slowTicks, 1)
		}
	}
	defer func() { tor.VerifYield = nil }()
	ctx, cancel := context.WithCancel(context.Background())
	defer cancel()
	t, err = tor.AddTorrent(ctx, t)
	if err != nil {
		out.Note = err.Error()
		return
	}
	w.t = t
	defer func() {
		k, c2 := context.WithTimeout(context.Background(), 5*time.Second)
		t.Kill(k)
		c2()
		tor.VerifForget(t)
	}()
	for n := 0; n < 500 && !tor.VerifTickersReady(t); n++ {
		time.Sleep(2 * time.Millisecond)
	}
	if !tor.VerifTickersReady(t) {
		out.Note = "the run loop did not register its tickers"
		return
	}
	// SetConf: everything on (again); Want; Tick with the tracker due; Outgoing
	if err := t.SetConf(peer.TorConf{DhtMode: dhtMode(c.Init.Conf.Dht), UseTrackers: true, UseWebseeds: true}); err != nil {
		out.Note = "SetConf: " + err.Error()
		return
	}
	for i := 0; i < 2; i++ {
		if _, _, err := t.Request(uint32(i), 1, true, true); err != nil {
			out.Note = "Request: " + err.Error()
			return
		}
	}
	w.barrier()
	for round := 0; round < 2; round++ {
		before := atomic.LoadInt32(&slowTicks)
		w.parked(func() { tor.VerifTick(t, true) })
		for n := 0; n < 5000 && atomic.LoadInt32(&slowTicks) == before; n++ {
			time.Sleep(time.Millisecond)
		}
		w.parked(func() { tor.VerifTick(t, false) })
		if atomic.LoadInt32(&slowTicks) == before {
			out.Note = "the run loop did not take a tick within 5 s"
			return
		}
	}
	dialed := make(chan error, 1)
	go func() {
		dialed <- tor.DialClient(ctx, t, lnP.Addr().(*net.TCPAddr).AddrPort(), crypto.DefaultOptions(false, false))
	}()
	select {
	case <-dialed:
	case <-time.After(5 * time.Second):
	}
	// the announce attempt has ended, one way or the other
	for n := 0; n < 500; n++ {
		if st, _ := t.Trackers()[0][0].GetState(); st != tracker.Busy {
			break
		}
		time.Sleep(10 * time.Millisecond)
	}
	time.Sleep(300 * time.Millisecond)
	desc := fmt.Sprintf("proxied torrent, proxy string %q, trackers and web seeds enabled, DHT %s", px, c.Init.Conf.Dht)
	got := w.take()
	sort.Strings(got)
	out.Observed = append(out.Observed, got)
	w.mu.Lock()
	notes := append([]string{}, w.notes...)
	w.mu.Unlock()
	// what the property names: the listening port, the client version, the IPv6 address
	reveals := map[string]bool{"tracker:port": true, "http:version": true, "peer:ipv6": true, "peer:version": true, "peer:port": true, "dht:port": true}
	if v6 {
		// the tracker and the web seed are reached over IPv6 only: any contact shows the IPv6 address
		reveals["tracker:noport"], reveals["webseed"] = true, true
	}
	for _, o := range got {
		if reveals[o] {
			what := fmt.Sprintf("%s was observed from a proxied torrent whose proxy cannot be used: it went out directly", o)
			if v6 && (strings.HasPrefix(o, "tracker:") || o == "webseed") {
				what += " to [::1], showing the client's IPv6 address"
			}
			out.Violations = append(out.Violations, Viol{"forbidden:direct:" + o, what + " (" + desc + "; " + strings.Join(notes, "; ") + ")"})
		} else if o == "peer:direct" || o == "tracker:noport" || o == "webseed" {
			out.Nonconf = append(out.Nonconf, o+" from a proxied torrent whose proxy cannot be used ("+desc+")")
		}
	}
}

// runBigReply (C15, at the level of the torrent): a tracker reply with more
// peers than the torrent's event queue has room for, arriving while the event
// loop is busy.  Exactly the peers encoded in the reply are learnt.
func runBigReply(c *Case, out *Out) {
	config.SetDefaultProxy("")
	config.SetExternalIPv4Port(extTCP, true)
	config.SetIdleRate(0)
	tor.VerifManualTicks = true
	w := &world{seed: uint64(c.ID) + 23, name: "big.bin", big: c.NPeers, bigGo: make(chan struct{})}
	w.total = 4 * 2 * CS
	var err error
	w.lnA, err = net.Listen("tcp4", "127.0.0.1:0")
	if err != nil {
		out.Note = err.Error()
		return
	}
	defer w.lnA.Close()
	srv := &http.Server{Handler: handler{w, "direct"}}
	go srv.Serve(w.lnA)
	defer srv.Close()
	config.DefaultUseTrackers, config.DefaultUseWebseeds, config.DefaultDhtMode = true, false, dhtMode("none")
	t, err := mktor.New(mktor.Spec{Name: w.name, PieceLen: 2 * CS, Length: w.total, Seed: w.seed, Trackers: []string{"http://" + w.lnA.Addr().String() + "/announce"}}, "")
	if err != nil {
		out.Note = err.Error()
		return
	}
	var slowTicks int32
	tor.VerifYield = func(point string) {
		if point == "run.slowtick" {
			atomic.AddInt32(&slowTicks, 1)
		}
	}
	defer func() { tor.VerifYield = nil }()
	ctx, cancel := context.WithCancel(context.Background())
	defer cancel()
	t, err = tor.AddTorrent(ctx, t)
	if err != nil {
		out.Note = err.Error()
		return
	}
	w.t = t
	defer func() {
		k, c2 := context.WithTimeout(context.Background(), 5*time.Second)
		t.Kill(k)
		c2()
		tor.VerifForget(t)
	}()
	for n := 0; n < 500 && !tor.VerifTickersReady(t); n++ {
		time.Sleep(2 * time.Millisecond)
	}
	// one slow tick: the announce starts and reaches the tracker, which holds its reply
	w.parked(func() { tor.VerifTick(t, true) })
	for n := 0; n < 5000 && atomic.LoadInt32(&slowTicks) == 0; n++ {
		time.Sleep(time.Millisecond)
	}
	w.parked(func() { tor.VerifTick(t, false) })
	dl := time.Now().Add(6 * time.Second)
	for time.Now().Before(dl) && !w.has("tracker:port") && !w.has("tracker:noport") {
		time.Sleep(5 * time.Millisecond)
	}
	if !w.has("tracker:port") && !w.has("tracker:noport") {
		// the handler records the contact only after bigGo; look at the tracker instead
	}
	// keep the loop busy (parked between two events) while the reply is delivered
	g1, g2 := make(chan *peer.TorStats), make(chan *peer.TorStats)
	t.Event <- peer.TorGetStats{Ch: g1}
	t.Event <- peer.TorGetStats{Ch: g2}
	<-g1
	close(w.bigGo)
	time.Sleep(400 * time.Millisecond) // the reply is parsed; the queue (512 slots) fills
	<-g2
	// the announce ends, the loop handles what was queued
	for n := 0; n < 1500; n++ {
		if st, _ := t.Trackers()[0][0].GetState(); st == tracker.Idle || st == tracker.Error {
			break
		}
		time.Sleep(10 * time.Millisecond)
	}
	w.barrier()
	kps, err := t.GetKnowns()
	if err != nil {
		out.Note = "GetKnowns: " + err.Error()
		return
	}
	got := map[netip.AddrPort]bool{}
	for _, kp := range kps {
		got[kp.Addr] = true
	}
	missing, extra := 0, 0
	for k := 0; k < c.NPeers; k++ {
		a := netip.AddrPortFrom(netip.AddrFrom4([4]byte{198, 18, byte(k >> 8), byte(k)}), 0x1ae1)
		if !got[a] {
			missing++
		}
		delete(got, a)
	}
	extra = len(got)
	if st, terr := t.Trackers()[0][0].GetState(); st != tracker.Idle {
		out.Nonconf = append(out.Nonconf, fmt.Sprintf("the tracker is in state %v (%v) after the announce", st, terr))
	}
	if missing > 0 || extra > 0 {
		out.Violations = append(out.Violations, Viol{"peers-lost", fmt.Sprintf("the tracker's reply encodes %d peers and arrived while the event loop was busy: %d of them were never learnt by the torrent, %d unknown ones were", c.NPeers, missing, extra)})
	}
	out.Seen = []string{fmt.Sprintf("known=%d", len(kps))}
}

// Handle is the worker-side entry point.
func Handle(in []byte) any {
	var c Case
	if err := json.Unmarshal(in, &c); err != nil {
		return &Out{Note: "bad case: " + err.Error()}
	}
	out := &Out{ID: c.ID}
	if c.Kind == "bigreply" {
		runBigReply(&c, out)
		return out
	}
	if c.Kind == "badproxy" {
		runBadProxy(&c, out)
		return out
	}
	runCase(&c, out)
	return out
}
