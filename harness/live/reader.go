package live

import (
	"context"
	"errors"
	"fmt"
	"io"
	"time"

	"github.com/jech/storrent/tor"

	"verifharness/internal/content"
)

// runReader: a real tor.Reader on a running torrent; the "honest seed" is
// the harness, which supplies exactly the pieces that are requested and
// missing, at quiescent points of the loop, while the Read is blocked.
func runReader(sc *Scenario, out *Out) {
	w, err := newWorld(sc.ID, 4, out)
	if err != nil {
		out.Note = err.Error()
		return
	}
	defer w.kill()
	defer func() { tor.VerifYield = nil }()
	if len(sc.Steps) == 0 || sc.Steps[0].A != "Init" {
		out.Note = "no Init"
		return
	}
	for _, i := range sc.Steps[0].S {
		w.verify(i)
		w.t.Have(uint32(i), true)
	}
	ctx, cancel := context.WithCancel(context.Background())
	defer cancel()
	r := w.t.NewReader(ctx, sc.Offset, sc.Length)
	rclosed := false
	defer func() {
		if !rclosed {
			r.Close()
		}
	}()
	pos := int64(0)
	dead, cancelled := false, false
	reads, blocked := 0, 0
	type rres struct {
		n   int
		err error
		buf []byte
	}
	// seed: supplies the requested pieces that are missing; returns false if nothing could be done
	seed := func() bool {
		w.pushGates()
		if !w.park() {
			return false
		}
		prio, _ := w.t.VerifRequested()
		var todo []int
		for i := range prio {
			if !w.t.Pieces.Complete(i) {
				todo = append(todo, int(i))
			}
		}
		if !w.releaseAll() {
			return false
		}
		for _, i := range todo {
			w.verify(i)
			w.t.Have(uint32(i), true)
		}
		return len(todo) > 0
	}
	for k, st := range sc.Steps[1:] {
		w.step = k + 1
		switch st.A {
		case "Seek":
			n, err := r.Seek(st.Off, st.Whence)
			var want int64
			switch st.Whence {
			case 0:
				want = st.Off
			case 1:
				want = pos + st.Off
			case 2:
				want = sc.Length + st.Off
			}
			if want < 0 {
				if err == nil {
					w.viol("C02", "seek-negative", fmt.Sprintf("Seek(%d, %d) to a negative position returned no error", st.Off, st.Whence))
				}
			} else {
				if err != nil || n != want {
					w.viol("C02", "seek-result", fmt.Sprintf("Seek(%d, %d) at position %d returned (%d, %v), io.Seeker requires %d", st.Off, st.Whence, pos, n, err, want))
				}
				pos = want
			}
		case "Read":
			done := make(chan rres, 1)
			buf := make([]byte, st.N)
			// in one Read out of three the piece under the cursor is verified and announced
			// exactly between Torrent.Request's look at the store and its queueing
			yieldCh := make(chan struct{})
			resumeCh := make(chan struct{})
			armed := (sc.ID+k)%3 == 0 && !dead && !cancelled
			var rdGoid int64
			tor.VerifYield = func(point string) {
				if armed && goid() == rdGoid {
					armed = false
					yieldCh <- struct{}{}
					<-resumeCh
				}
			}
			started := make(chan struct{})
			go func() {
				rdGoid = goid()
				close(started)
				n, err := r.Read(buf)
				done <- rres{n, err, buf}
			}()
			<-started
			var res rres
			got := false
			idle := 0
			for tries := 0; tries < 400 && !got; tries++ {
				select {
				case res = <-done:
					got = true
				case <-yieldCh:
					i := int((sc.Offset + pos) / int64(w.psize))
					if i < w.npieces && !w.t.Pieces.Complete(uint32(i)) {
						w.verify(i)
						w.t.Have(uint32(i), true)
						w.pushGates()
						if w.park() {
							w.releaseAll()
						}
					}
					close(resumeCh)
				case <-time.After(3 * time.Millisecond):
					if dead {
						idle++
						if idle > 200 {
							tries = 400
						}
						continue
					}
					blocked++
					if !seed() {
						idle++
					} else {
						idle = 0
					}
					if idle > 100 {
						tries = 400
					}
				}
			}
			if !got {
				select {
				case res = <-done:
					got = true
				case <-time.After(2 * time.Second):
				}
			}
			if !got {
				what := "although the honest seed has supplied every piece it requested"
				if dead || cancelled {
					what = "although the torrent is deleted / the context cancelled"
				}
				w.viol("C02", "read-stalled", fmt.Sprintf("Read(%d bytes) at position %d of [%d,+%d) does not return %s", st.N, pos, sc.Offset, sc.Length, what))
				return
			}
			reads++
			// a Read may return (0, nil) transiently; io.ReadFull-style callers retry: it must not persist
			if res.n == 0 && res.err == nil && pos < sc.Length && st.N > 0 && !dead && !cancelled {
				spin := 0
				for spin < 50 {
					seed()
					n, err := r.Read(buf)
					res = rres{n, err, buf}
					if n != 0 || err != nil {
						break
					}
					spin++
				}
				if spin >= 50 {
					w.viol("C02", "read-spins", fmt.Sprintf("Read at position %d keeps returning (0, nil) while the honest seed serves every request", pos))
					return
				}
			}
			if res.n < 0 || res.n > st.N || int64(res.n) > sc.Length-pos && pos <= sc.Length {
				w.viol("C02", "read-outside-range", fmt.Sprintf("Read(%d) at position %d returned %d bytes, the range has %d left", st.N, pos, res.n, sc.Length-pos))
				return
			}
			if res.n > 0 && !content.Equal(w.seed, sc.Offset+pos, res.buf[:res.n]) {
				w.viol("C02", "read-wrong-bytes", fmt.Sprintf("Read at position %d returned %d bytes that are not the content at offset %d", pos, res.n, sc.Offset+pos))
			}
			npos := pos + int64(res.n)
			switch {
			case pos >= sc.Length:
				if res.err != io.EOF || res.n != 0 {
					w.viol("C02", "eof-missing", fmt.Sprintf("Read at position %d >= length %d returned (%d, %v)", pos, sc.Length, res.n, res.err))
				}
			case res.err == io.EOF && npos != sc.Length:
				w.viol("C02", "eof-early", fmt.Sprintf("EOF reported at position %d, the length is %d", npos, sc.Length))
			case res.err == nil && npos == sc.Length && res.n > 0:
				// io.Reader allows (n, nil) then (0, EOF): check the next read
				n2, err2 := r.Read(make([]byte, 1))
				if n2 != 0 || err2 != io.EOF {
					w.viol("C02", "eof-missing", fmt.Sprintf("at the end of the range Read returned (%d, %v)", n2, err2))
				}
			case res.err != nil && res.err != io.EOF:
				if !dead && !cancelled {
					w.viol("C02", "read-error", fmt.Sprintf("Read at position %d failed: %v", pos, res.err))
				} else if dead && !errors.Is(res.err, tor.ErrTorrentDead) && !errors.Is(res.err, context.Canceled) {
					// any error is fine
				}
			}
			if (dead || cancelled) && pos < sc.Length && res.err == nil && res.n == 0 {
				w.viol("C02", "read-no-error", "Read on a deleted torrent / cancelled context returned (0, nil)")
			}
			pos = npos
			if st.K != "" {
			}
		case "Evict":
			set := map[int]bool{}
			for _, i := range st.S {
				set[i] = true
			}
			w.evict(set)
			for i := range set {
				w.t.Have(uint32(i), false)
			}
		case "Cancel":
			cancel()
			cancelled = true
		case "Kill":
			w.kill()
			dead = true
		}
		out.Applied++
		if len(out.Violations) > 0 || out.Note != "" {
			return
		}
	}
	// C10: when the reader closes, every priority it registered is withdrawn
	if !dead {
		r.Close()
		rclosed = true
		w.pushGates()
		if w.park() {
			prio, _ := w.t.VerifRequested()
			left := 0
			for _, ps := range prio {
				left += len(ps)
			}
			if left > 0 {
				w.viol("C10", "reader-priority-leak", fmt.Sprintf("after the only reader was closed (last position %d, piece %d) %d priorities remain registered: %v", pos, (sc.Offset+pos)/int64(w.psize), left, prio))
			}
			w.releaseAll()
		}
	}
	out.Stats = map[string]int{"reads": reads, "seed_rounds": blocked}
}
