// Package live binds spec/Requests.tla (C10), spec/Lifecycle.tla (C17) and
// spec/Reader.tla (C02) to a real running torrent: tor.AddTorrent's event
// loop, real Torrent.Request / Reader / API calls from real goroutines.
//
// The event loop is stepped with the "loop gate" idiom: a TorGetStats
// command whose reply channel nobody reads parks the loop inside its
// handler; two gates in a row give a race-free quiescent point (receiving
// from the first one happens-after everything the loop did before, and the
// loop is then parked on the second).
package live

import (
	"context"
	"encoding/json"
	"fmt"
	"runtime"
	"sync"
	"time"

	"github.com/jech/storrent/alloc"
	"github.com/jech/storrent/hash"
	"github.com/jech/storrent/peer"
	"github.com/jech/storrent/tor"

	"verifharness/internal/content"
	"verifharness/internal/mktor"
)

const CS = 16384

type Viol struct {
	Prop string `json:"prop"`
	Key  string `json:"key"`
	What string `json:"what"`
	Step int    `json:"step"`
}

type Out struct {
	ID         int            `json:"id"`
	Violations []Viol         `json:"violations,omitempty"`
	Nonconf    []string       `json:"nonconf,omitempty"`
	Applied    int            `json:"applied"`
	Stats      map[string]int `json:"stats,omitempty"`
	Note       string         `json:"note,omitempty"`
}

type Label struct {
	A    string `json:"a"`
	K    string `json:"k"`
	I    int    `json:"i"`
	P    int    `json:"p"`
	Want bool   `json:"want"`
	E    string `json:"e"`
	// lifecycle
	Op   string `json:"op"`
	Stop string `json:"stop"`
	// reader
	Whence int   `json:"whence"`
	Off    int64 `json:"off"`
	N      int   `json:"n"`
	S      []int `json:"s"`
}

type Scenario struct {
	ID    int     `json:"id"`
	Kind  string  `json:"kind"`
	Steps []Label `json:"steps"`
	// reader
	Offset int64 `json:"offset"`
	Length int64 `json:"length"`
	Pieces int   `json:"pieces"`
}

// ---------------------------------------------------------------------------

type world struct {
	t            *tor.Torrent
	ctx          context.Context
	cancel       context.CancelFunc
	seed         uint64
	psize        int
	length       int64
	npieces      int
	hashes       [][]byte
	out          *Out
	step         int
	gates        []chan *peer.TorStats // gates queued and not yet read
	parked       bool                  // the loop is parked on gates[0] after a sync
	mirror       []byte                // what the harness put into the loop's queue and the loop has not passed yet: 'g' gate, 'r' real command
	exclusive    bool                  // the harness is the only producer of commands (then queue lengths are exact)
	verifiedEver map[int]int           // piece -> step at which it was last verified
}

func (w *world) viol(prop, key, what string) {
	if len(w.out.Violations) < 10 {
		w.out.Violations = append(w.out.Violations, Viol{prop, key, what, w.step})
	}
}

func newWorld(id int, npieces int, out *Out) (*world, error) {
	w := &world{out: out, seed: uint64(id)*31 + 11, psize: 2 * CS, npieces: npieces, verifiedEver: map[int]int{}}
	w.length = int64(npieces*w.psize) - 900
	t, err := mktor.New(mktor.Spec{Name: fmt.Sprintf("live-%d", id), PieceLen: int64(w.psize), Length: w.length, Seed: w.seed}, "")
	if err != nil {
		return nil, err
	}
	w.hashes = content.PieceHashes(w.seed, w.length, int64(w.psize))
	w.ctx, w.cancel = context.WithCancel(context.Background())
	t, err = tor.AddTorrent(w.ctx, t)
	if err != nil {
		return nil, err
	}
	w.t = t
	return w, nil
}

func (w *world) verify(i int) {
	pl := int(w.t.Pieces.PieceLength(uint32(i)))
	for b := 0; b < pl; b += CS {
		l := pl - b
		if l > CS {
			l = CS
		}
		w.t.Pieces.AddData(uint32(i), uint32(b), content.Range(w.seed, int64(i)*int64(w.psize)+int64(b), l), 1)
	}
	done, _, _ := w.t.Pieces.Finalise(uint32(i), hash.Hash(w.hashes[i]))
	if done {
		w.verifiedEver[i] = w.step
	}
}

// evict drops piece i from the store (the others are restored at once;
// nothing else runs meanwhile).
func (w *world) evict(set map[int]bool) {
	var keep []int
	for k := 0; k < w.npieces; k++ {
		if !set[k] && w.t.Pieces.Complete(uint32(k)) {
			keep = append(keep, k)
		}
	}
	w.t.Pieces.Expire(0, nil, func(uint32) {})
	for _, k := range keep {
		pl := int(w.t.Pieces.PieceLength(uint32(k)))
		for b := 0; b < pl; b += CS {
			l := pl - b
			if l > CS {
				l = CS
			}
			w.t.Pieces.AddData(uint32(k), uint32(b), content.Range(w.seed, int64(k)*int64(w.psize)+int64(b), l), 1)
		}
		w.t.Pieces.Finalise(uint32(k), hash.Hash(w.hashes[k]))
	}
}

// pushGates queues a pair of gates behind whatever is in the loop's queue.
func (w *world) pushGates() {
	for k := 0; k < 2; k++ {
		ch := make(chan *peer.TorStats)
		w.t.Event <- peer.TorGetStats{Ch: ch}
		w.gates = append(w.gates, ch)
		w.mirror = append(w.mirror, 'g')
	}
}

func (w *world) recvGate() bool {
	select {
	case <-w.gates[0]:
		w.gates = w.gates[1:]
		// the loop has passed everything up to and including this gate
		for len(w.mirror) > 0 {
			x := w.mirror[0]
			w.mirror = w.mirror[1:]
			if x == 'g' {
				break
			}
		}
		return true
	case <-w.t.Done:
		return false
	case <-time.After(10 * time.Second):
		w.out.Note = "the event loop did not reach the gate within 10 s"
		return false
	}
}

// park makes sure the loop is parked at a quiescent point: everything
// queued before the call has been handled.
func (w *world) park() bool {
	if !w.parked {
		if len(w.gates) == 0 {
			w.pushGates()
		}
		// first gate of the pair
		if !w.recvGate() {
			return false
		}
		w.parked = true
		if !w.steady() {
			return false
		}
	}
	return true
}

// steady waits until the loop has taken the gate it is going to park on out
// of the queue: from then on the length of the queue only changes by what
// is put into it.
func (w *world) steady() bool {
	if !w.exclusive || len(w.mirror) == 0 || w.mirror[0] != 'g' {
		return true
	}
	for deadline := time.Now().Add(10 * time.Second); time.Now().Before(deadline); {
		if len(w.t.Event) == len(w.mirror)-1 {
			return true
		}
		time.Sleep(10 * time.Microsecond)
	}
	w.out.Note = fmt.Sprintf("the loop did not park on the gate (queue %d, expected %d)", len(w.t.Event), len(w.mirror)-1)
	return false
}

// stepLoop lets the loop handle exactly the commands up to the next pair
// of gates (one real command, by construction).
func (w *world) stepLoop() bool {
	if !w.parked || len(w.gates) == 0 {
		return false
	}
	// second gate of the current pair: the loop runs on
	if !w.recvGate() {
		return false
	}
	w.parked = false
	if len(w.gates) == 0 {
		return true
	}
	// first gate of the next pair
	if !w.recvGate() {
		return false
	}
	w.parked = true
	return w.steady()
}

// releaseAll lets the loop run through everything queued.
func (w *world) releaseAll() bool {
	for len(w.gates) > 0 {
		if !w.recvGate() {
			return false
		}
	}
	w.parked = false
	return true
}

func (w *world) kill() {
	w.releaseAllNoWait()
	ctx, c := context.WithTimeout(context.Background(), 5*time.Second)
	w.t.Kill(ctx)
	c()
	w.cancel()
}

func (w *world) releaseAllNoWait() {
	gs := w.gates
	w.gates = nil
	for _, g := range gs {
		go func(g chan *peer.TorStats) {
			select {
			case <-g:
			case <-w.t.Done:
			}
		}(g)
	}
}

// ---------------------------------------------------------------------------
// C10: requests

type consumer struct {
	name      string
	resume    chan struct{} // releases the goroutine parked at Request.checked
	atYield   chan struct{} // signalled when the goroutine reaches the yield
	result    chan reqResult
	busy      bool            // an API call is in progress
	held      map[[2]int]int  // (piece, prio) -> count registered
	ch        <-chan struct{} // channel it waits on
	waitPiece int
	waitSince int // step at which the request was queued
	abandoned bool
	// a withdrawal overtook the consumer's own queued want-request
	abandonPending bool
	waitIdle       bool // the wait was started with the idle priority
	waiting        bool
	pi, pp         int // the request being issued
	pwant          bool
	sentStep       int
	atGate         bool // parked at Request.checked, command not queued yet
	askStep        int  // step at which the request looked at the store
}

type qev struct {
	c    *consumer
	want bool
	i    int
	ask  int
	idle bool
}

func peerConf(w *world) (peer.TorConf, error) { return peer.TorConf{}, nil }

type reqResult struct {
	added bool
	ch    <-chan struct{}
	err   error
}

var yieldMu sync.Mutex
var yieldMap = map[int64]*consumer{} // goroutine id -> consumer

func goid() int64 {
	var buf [64]byte
	n := runtime.Stack(buf[:], false)
	var id int64
	for _, c := range buf[len("goroutine "):n] {
		if c < '0' || c > '9' {
			break
		}
		id = id*10 + int64(c-'0')
	}
	return id
}

func yieldHook(point string) {
	yieldMu.Lock()
	c := yieldMap[goid()]
	yieldMu.Unlock()
	if c == nil {
		return
	}
	c.atYield <- struct{}{}
	<-c.resume
}

func runRequests(sc *Scenario, out *Out) {
	w, err := newWorld(sc.ID, 3, out)
	if err != nil {
		out.Note = err.Error()
		return
	}
	defer w.kill()
	w.exclusive = true
	tor.VerifYield = yieldHook
	defer func() { tor.VerifYield = nil }()
	cons := map[string]*consumer{}
	get := func(n string) *consumer {
		c := cons[n]
		if c == nil {
			c = &consumer{name: n, held: map[[2]int]int{}}
			cons[n] = c
		}
		return c
	}
	if !w.park() {
		return
	}
	pendingHave := map[int]bool{}
	var evQ []qev // the real commands in the loop's queue, in order
	for k, st := range sc.Steps {
		w.step = k + 1
		applied := true
		// commands are only queued while the loop is parked
		if !w.parked && !w.park() {
			return
		}
		switch st.A {
		case "ApiRequest":
			c := get(st.K)
			if c.busy {
				applied = false
				break
			}
			c.resume = make(chan struct{})
			c.atYield = make(chan struct{}, 1)
			c.result = make(chan reqResult, 1)
			c.busy = true
			prio := int8(st.P - 1)
			if st.P == 9 {
				prio = tor.IdlePriority // Requests!IdleP
			}
			i, want := st.I, st.Want
			go func() {
				yieldMu.Lock()
				yieldMap[goid()] = c
				yieldMu.Unlock()
				added, ch, err := w.t.Request(uint32(i), prio, true, want)
				yieldMu.Lock()
				delete(yieldMap, goid())
				yieldMu.Unlock()
				c.result <- reqResult{added, ch, err}
			}()
			select {
			case <-c.atYield:
				// checked the store, found the piece incomplete, about to queue
				c.atGate = true
			case r := <-c.result:
				// short-circuit: the piece is complete
				c.busy = false
				if r.ch != nil || r.added {
					w.viol("C10", "request-complete-piece", fmt.Sprintf("Request(%d) on a complete piece returned added=%v ch=%v", i, r.added, r.ch != nil))
				}
				if !w.t.Pieces.Complete(uint32(i)) {
					w.viol("C10", "request-short-circuit", fmt.Sprintf("Request(%d) returned without queueing although the piece is not complete", i))
				}
			case <-time.After(10 * time.Second):
				out.Note = "Request neither reached its yield point nor returned"
				return
			}
			c.pendingKey(st.I, st.P, st.Want)
			c.sentStep = 0
			c.askStep = w.step
		case "ApiSend":
			c := get(st.K)
			if !c.busy || !c.atGate {
				applied = false
				break
			}
			c.atGate = false
			close(c.resume)
			// parked: the loop takes the gate it is parked on out of the queue, and
			// nothing else; the command is queued when the length is what is behind
			// that gate plus one
			w.mirror = append(w.mirror, 'r')
			expect := len(w.mirror) - 1
			ok := false
			for deadline := time.Now().Add(10 * time.Second); time.Now().Before(deadline); {
				if len(w.t.Event) == expect {
					ok = true
					break
				}
				time.Sleep(20 * time.Microsecond)
			}
			if !ok {
				buf := make([]byte, 1<<16)
				n := runtime.Stack(buf, true)
				out.Note = fmt.Sprintf("the request command never reached the queue (queue %d, parked %v, gates %d)\n%s", len(w.t.Event), w.parked, len(w.gates), buf[:n])
				return
			}
			if c.pp != 9 {
				c.held[[2]int{c.pi, c.pp}]++ // an idle request registers no priority
			}
			c.sentStep = w.step
			evQ = append(evQ, qev{c, c.pwant, c.pi, c.askStep, c.pp == 9})
			w.pushGates()
			if !c.pwant {
				// no reply expected: the call returns at once
				select {
				case <-c.result:
					c.busy = false
				case <-time.After(10 * time.Second):
					out.Note = "Request(want=false) did not return"
					return
				}
			}
		case "ApiPrune":
			// a configuration change: the loop prunes the idle entries (and wakes their waiters)
			conf, _ := peerConf(w)
			w.t.Event <- peer.TorSetConf{Conf: conf}
			evQ = append(evQ, qev{})
			w.mirror = append(w.mirror, 's')
			w.pushGates()
		case "ApiWithdraw":
			c := get(st.K)
			key := [2]int{st.I, st.P}
			if c.held[key] == 0 {
				applied = false
				break
			}
			c.held[key]--
			quiet := w.exclusive && w.parked && w.steady()
			qlen := len(w.t.Event)
			w.t.Request(uint32(st.I), int8(st.P-1), false, false)
			if quiet && len(w.t.Event) == qlen {
				// the call returned without telling the loop: the priority it was to
				// withdraw stays in the table (reported at the end as a leak if so)
				out.Nonconf = append(out.Nonconf, fmt.Sprintf("step %d: the withdrawal of piece %d priority %d did not reach the event loop", w.step, st.I, st.P-1))
			} else {
				evQ = append(evQ, qev{})
				w.mirror = append(w.mirror, 'r')
				w.pushGates()
			}
			if c.waiting && c.waitPiece == st.I {
				c.abandoned = true
			}
			if c.busy && c.pwant && c.pi == st.I {
				// withdrawn while its own want-request is still queued: the
				// wait that request will start is abandoned from the outset
				c.abandonPending = true
			}
		case "Loop":
			if len(w.gates) < 2 {
				applied = false
				break
			}
			if !w.stepLoop() {
				return
			}
			// what the loop has just handled, by the harness's own account of the queue
			if len(evQ) == 0 {
				break
			}
			e := evQ[0]
			evQ = evQ[1:]
			if e.c != nil && e.want {
				c := e.c
				select {
				case r := <-c.result:
					c.busy = false
					c.sentStep = 0
					c.ch = r.ch
					c.waiting = r.ch != nil
					c.waitPiece = e.i
					c.waitIdle = e.idle
					c.waitSince = e.ask
					c.abandoned = c.abandonPending
					c.abandonPending = false
					if r.err != nil {
						w.viol("C10", "request-error", fmt.Sprintf("Request returned %v", r.err))
					}
				case <-time.After(10 * time.Second):
					w.viol("C10", "request-hang", "Torrent.Request(want) did not return although the loop has handled its command")
					return
				}
			}
		case "Flip":
			if w.t.Pieces.Complete(uint32(st.I)) {
				applied = false
				break
			}
			w.verify(st.I)
			pendingHave[st.I] = true
		case "FlipQueue":
			if !pendingHave[st.I] {
				applied = false
				break
			}
			delete(pendingHave, st.I)
			w.t.Have(uint32(st.I), true)
			evQ = append(evQ, qev{})
			w.mirror = append(w.mirror, 'r')
			w.pushGates()
		case "Evict":
			if !w.t.Pieces.Complete(uint32(st.I)) || pendingHave[st.I] {
				applied = false
				break
			}
			w.evict(map[int]bool{st.I: true})
			w.t.Have(uint32(st.I), false)
			evQ = append(evQ, qev{})
			w.mirror = append(w.mirror, 'r')
			w.pushGates()
		}
		if applied {
			out.Applied++
		}
		if out.Note != "" || len(out.Violations) > 0 {
			return
		}
	}
	// drain: queue what is pending, let the loop handle everything
	for _, c := range cons {
		if c.busy && c.atGate {
			c.atGate = false
			close(c.resume)
			if c.pp != 9 {
				c.held[[2]int{c.pi, c.pp}]++ // an idle request registers no priority
			}
			c.sentStep = w.step
			evQ = append(evQ, qev{c, c.pwant, c.pi, c.askStep, c.pp == 9})
		}
	}
	for i := range pendingHave {
		w.t.Have(uint32(i), true)
	}
	if !w.releaseAll() {
		return
	}
	for _, e := range evQ {
		if e.c == nil || !e.want {
			continue
		}
		c := e.c
		select {
		case r := <-c.result:
			c.busy = false
			c.ch = r.ch
			c.waiting = r.ch != nil
			c.waitPiece = e.i
			c.waitIdle = e.idle
			c.waitSince = e.ask
			c.abandoned = c.abandonPending
			c.abandonPending = false
		case <-time.After(10 * time.Second):
			w.viol("C10", "request-hang", "Torrent.Request did not return although the loop is running")
			return
		}
	}
	for _, c := range cons {
		if c.busy {
			select {
			case <-c.result:
				c.busy = false
			case <-time.After(10 * time.Second):
				w.viol("C10", "request-hang", "Torrent.Request did not return although the loop is running")
				return
			}
		}
	}
	w.pushGates()
	if !w.park() {
		return
	}
	w.step = len(sc.Steps) + 1
	prio, _ := w.t.VerifRequested()
	// priorities registered = priorities held
	want := map[[2]int]int{}
	for _, c := range cons {
		for k, n := range c.held {
			if n > 0 {
				want[k] += n
			}
		}
	}
	got := map[[2]int]int{}
	for i, ps := range prio {
		for _, p := range ps {
			got[[2]int{int(i), int(p) + 1}]++
		}
	}
	for k, n := range want {
		if got[k] != n {
			w.viol("C10", "priority-leak", fmt.Sprintf("piece %d priority %d: the table holds %d, the consumers hold %d", k[0], k[1]-1, got[k], n))
		}
	}
	for k, n := range got {
		if want[k] != n {
			w.viol("C10", "priority-leak", fmt.Sprintf("piece %d priority %d: the table holds %d, the consumers hold %d", k[0], k[1]-1, n, want[k]))
		}
	}
	for _, c := range cons {
		if !c.waiting {
			continue
		}
		closed := false
		select {
		case <-c.ch:
			closed = true
		default:
		}
		complete := w.t.Pieces.Complete(uint32(c.waitPiece))
		stillHolds := c.waitIdle // a waiter that asked with the idle priority holds nothing, and waits all the same
		for k, n := range c.held {
			if k[0] == c.waitPiece && n > 0 {
				stillHolds = true
			}
		}
		if complete && !closed && stillHolds {
			w.viol("C10", "lost-wakeup", fmt.Sprintf("consumer %s waits on an open channel for piece %d, which is verified and announced", c.name, c.waitPiece))
		}
		// (an idle waiter is legitimately woken when the idle entries are pruned)
		if closed && !c.abandoned && !c.waitIdle && stillHolds && w.verifiedEver[c.waitPiece] < c.waitSince && !complete {
			w.viol("C10", "woken-unverified", fmt.Sprintf("consumer %s was woken for piece %d which has not been verified since it asked (asked at step %d, verified at step %d, abandoned %v, held %v)", c.name, c.waitPiece, c.waitSince, w.verifiedEver[c.waitPiece], c.abandoned, c.held))
		}
	}
	out.Stats = map[string]int{"consumers": len(cons)}
}

func (c *consumer) pendingKey(i, p int, want bool) { c.pi, c.pp, c.pwant = i, p, want }

// extra fields of consumer kept apart for readability
type consumerExtra struct{}

// ---------------------------------------------------------------------------

// Handle is the worker-side entry point.
func Handle(in []byte) any {
	var sc Scenario
	if err := json.Unmarshal(in, &sc); err != nil {
		return &Out{Note: "bad scenario: " + err.Error()}
	}
	out := &Out{ID: sc.ID}
	switch sc.Kind {
	case "requests":
		runRequests(&sc, out)
	case "lifecycle":
		runLifecycle(&sc, out)
	case "killhash":
		runKillHashing(&sc, out)
	case "tworeaders":
		runTwoReaders(&sc, out)
	case "twoblocked":
		runTwoBlocked(&sc, out)
	case "finalise":
		runFinalise(&sc, out)
	case "refused":
		runRefused(&sc, out)
	case "reader":
		runReader(&sc, out)
	default:
		out.Note = "unknown kind " + sc.Kind
	}
	return out
}

var _ = alloc.Bytes
