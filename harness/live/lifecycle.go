package live

import (
	"bytes"
	"context"
	"errors"
	"fmt"
	"io"
	"net"
	"net/netip"
	"runtime"
	"sort"
	"time"

	"github.com/jech/storrent/alloc"
	"github.com/jech/storrent/hash"
	"github.com/jech/storrent/known"
	"github.com/jech/storrent/peer"
	"github.com/jech/storrent/protocol"
	"github.com/jech/storrent/tor"
	"github.com/jech/storrent/tor/piece"

	"verifharness/internal/content"
	"verifharness/internal/mktor"
)

type remoteConn struct {
	c      net.Conn
	closed chan struct{}
}

func newRemote(w *world, k int) (*remoteConn, error) {
	a, b := net.Pipe()
	id := make([]byte, 20)
	id[0], id[1] = 0x77, byte(k)
	err := w.t.NewPeer("", a, netip.MustParseAddrPort(fmt.Sprintf("192.0.2.%d:%d", 10+k, 7000+k)), false,
		protocol.HandshakeResult{Hash: w.t.Hash, Id: hash.Hash(id), Fast: true, Extended: true}, nil)
	r := &remoteConn{c: b, closed: make(chan struct{})}
	go func() {
		io.Copy(io.Discard, b) // returns when the client closes its end
		close(r.closed)
	}()
	return r, err
}

type opResult struct {
	err  error
	desc string
}

// the exported blocking operations of a torrent
var ops = map[string]func(w *world) opResult{
	"GetStats":     func(w *world) opResult { _, err := w.t.GetStats(); return opResult{err, ""} },
	"GetAvailable": func(w *world) opResult { _, err := w.t.GetAvailable(); return opResult{err, ""} },
	"DropPeer":     func(w *world) opResult { _, err := w.t.DropPeer(); return opResult{err, ""} },
	"GetPeer":      func(w *world) opResult { _, err := w.t.GetPeer(hash.Hash(make([]byte, 20))); return opResult{err, ""} },
	"GetPeers":     func(w *world) opResult { _, err := w.t.GetPeers(); return opResult{err, ""} },
	"GetKnown": func(w *world) opResult {
		_, err := w.t.GetKnown(nil, netip.MustParseAddrPort("192.0.2.200:1"))
		return opResult{err, ""}
	},
	"GetKnowns": func(w *world) opResult { _, err := w.t.GetKnowns(); return opResult{err, ""} },
	"GetConf":   func(w *world) opResult { _, err := w.t.GetConf(); return opResult{err, ""} },
	"SetConf":   func(w *world) opResult { return opResult{w.t.SetConf(peer.TorConf{UseTrackers: true}), ""} },
	"RequestWant": func(w *world) opResult {
		_, _, err := w.t.Request(2, 0, true, true)
		return opResult{err, ""}
	},
	"RequestNoWant": func(w *world) opResult {
		_, _, err := w.t.Request(2, 0, true, false)
		return opResult{err, ""}
	},
	"Have":    func(w *world) opResult { return opResult{w.t.Have(0, true), ""} },
	"BadPeer": func(w *world) opResult { return opResult{w.t.BadPeer(1, false), ""} },
	"AddKnown": func(w *world) opResult {
		return opResult{w.t.AddKnown(netip.MustParseAddrPort("192.0.2.201:2"), nil, "", known.Tracker), ""}
	},
	"Announce": func(w *world) opResult {
		err := tor.Announce(w.t.Hash, false)
		if errors.Is(err, io.EOF) {
			err = nil
		}
		return opResult{err, ""}
	},
	"Backlog":    func(w *world) opResult { return opResult{nil, ""} },
	"PeerFaults": func(w *world) opResult { return opResult{nil, ""} },
	"Kill": func(w *world) opResult {
		ctx, c := context.WithTimeout(context.Background(), 8*time.Second)
		defer c()
		return opResult{w.t.Kill(ctx), ""}
	},
	"KillCancelled": func(w *world) opResult {
		ctx, c := context.WithCancel(context.Background())
		c()
		err := w.t.Kill(ctx)
		if errors.Is(err, context.Canceled) {
			err = nil
		}
		return opResult{err, ""}
	},
}

func runLifecycle(sc *Scenario, out *Out) {
	if len(sc.Steps) == 0 {
		out.Note = "no step"
		return
	}
	st := sc.Steps[0]
	op, ok := ops[st.Op]
	if !ok {
		out.Note = "unknown operation " + st.Op
		return
	}
	runtime.GC()
	time.Sleep(20 * time.Millisecond)
	g0 := runtime.NumGoroutine()
	m0 := alloc.Bytes()
	w, err := newWorld(sc.ID, 4, out)
	if err != nil {
		out.Note = err.Error()
		return
	}
	defer w.cancel()
	w.step = 1
	desc := fmt.Sprintf("%s with the deletion %s", st.Op, map[string]string{"dead": "completed before the call", "behind": "queued ahead of the call's command",
		"ahead": "queued behind the call's command", "leaving": "done through the context while the queue is full and peers are leaving"}[st.Stop])
	// two connected peers, one complete piece, one reader blocked on a missing piece
	var remotes []*remoteConn
	npeers := 2
	if st.Op == "Backlog" {
		npeers = 12
	}
	for k := 0; k < npeers; k++ {
		r, err := newRemote(w, k)
		if err != nil {
			out.Note = "NewPeer: " + err.Error()
			return
		}
		remotes = append(remotes, r)
	}
	if st.Op == "Backlog" {
		// the remotes are interested: some of them get unchoked
		for _, r := range remotes {
			r.c.SetWriteDeadline(time.Now().Add(2 * time.Second))
			r.c.Write([]byte{0, 0, 0, 1, 2})
		}
		for n := 0; n < 200 && peer.NumUnchoking() == 0; n++ {
			time.Sleep(10 * time.Millisecond)
		}
	}
	w.verify(0)
	w.t.Have(0, true)
	rd := w.t.NewReader(context.Background(), int64(w.psize)+10, 100)
	readDone := make(chan error, 1)
	go func() {
		_, err := rd.Read(make([]byte, 50))
		readDone <- err
	}()
	// everything so far has been handled
	w.pushGates()
	if !w.park() || !w.releaseAll() {
		if out.Note == "" {
			out.Note = "could not reach the initial quiescent point"
		}
		return
	}
	if st.Op == "PeerFaults" {
		// connections whose writes fail from the start, and connections closed at once by the remote
		for k := 0; k < 60; k++ {
			a, b := net.Pipe()
			if k%2 == 0 {
				b.Close()
			} else {
				a = failConn{a}
				go func() { time.Sleep(time.Duration(k%5) * 100 * time.Microsecond); b.Close() }()
			}
			id := make([]byte, 20)
			id[0], id[1] = 0x55, byte(k)
			w.t.NewPeer("", a, netip.MustParseAddrPort(fmt.Sprintf("192.0.2.%d:%d", 100+k%100, 8000+k)), false,
				protocol.HandshakeResult{Hash: w.t.Hash, Id: hash.Hash(id), Fast: true, Extended: true, Dht: true}, nil)
		}
		// all of them must be gone, and the torrent must keep answering
		gone := false
		for n := 0; n < 250 && !gone; n++ {
			got := make(chan int, 1)
			go func() {
				ps, err := w.t.GetPeers()
				if err != nil {
					got <- -1
				} else {
					got <- len(ps)
				}
			}()
			select {
			case n := <-got:
				gone = n == 2
			case <-time.After(8 * time.Second):
				w.viol("C17", "call-hang:GetPeers", "GetPeers did not return within 8 s after peers whose connections fail at set-up were added")
				return
			}
			time.Sleep(20 * time.Millisecond)
		}
		if !gone {
			ps, _ := w.t.GetPeers()
			w.viol("C17", "zombie-peer", fmt.Sprintf("%d peers whose connections failed during set-up are still registered 5 s later (their goroutines have returned without signalling their exit)", len(ps)-2))
			return
		}
	}
	if ps, _ := w.t.GetPeers(); len(ps) != npeers {
		out.Note = fmt.Sprintf("set-up: %d peers", len(ps))
		return
	}
	killDone := make(chan error, 1)
	kill := func() {
		go func() {
			ctx, c := context.WithTimeout(context.Background(), 10*time.Second)
			defer c()
			killDone <- w.t.Kill(ctx)
		}()
	}
	opDone := make(chan opResult, 1)
	call := func() { go func() { opDone <- op(w) }() }
	var extra *remoteConn
	switch st.Stop {
	case "dead":
		kill()
		select {
		case <-killDone:
			killDone <- nil
		case <-time.After(10 * time.Second):
			w.viol("C17", "kill-hang", "Kill did not return")
			return
		}
		call()
	case "behind":
		w.pushGates()
		if !w.park() {
			return
		}
		// the loop is parked: the deletion command goes in first, the call's command behind it
		w.t.Event <- peer.TorGoAway{}
		if st.Op == "Backlog" {
			// ... and the rest of the queue is filled up
			for full := false; !full; {
				select {
				case w.t.Event <- peer.TorAddKnown{Addr: netip.MustParseAddrPort("192.0.2.250:9"), Kind: known.Tracker}:
				default:
					full = true
				}
			}
		}
		call()
		time.Sleep(2 * time.Millisecond)
		w.releaseAllNoWait()
		kill()
	case "leaving":
		// The queue is full while the torrent is alive, some peers leave on their own (their exit
		// path cannot queue its events and waits), then the torrent is stopped through its context.
		w.pushGates()
		if !w.park() {
			return
		}
		for full := false; !full; {
			select {
			case w.t.Event <- peer.TorAddKnown{Addr: netip.MustParseAddrPort("192.0.2.250:9"), Kind: known.Tracker}:
			default:
				full = true
			}
		}
		for k := 0; k < 4 && k < len(remotes); k++ {
			remotes[k].c.Close()
		}
		time.Sleep(150 * time.Millisecond)
		call()
		w.cancel()
		w.releaseAllNoWait()
		kill()
	case "ahead":
		w.pushGates()
		if !w.park() {
			return
		}
		call()
		time.Sleep(2 * time.Millisecond)
		w.t.Event <- peer.TorGoAway{}
		w.releaseAllNoWait()
		kill()
	}
	_ = extra
	// C17: the call returns
	select {
	case r := <-opDone:
		if r.err != nil && !errors.Is(r.err, tor.ErrTorrentDead) && r.err.Error() != "file does not exist" {
			w.viol("C17", "call-error:"+st.Op, fmt.Sprintf("%s returned %v", desc, r.err))
		}
	case <-time.After(8 * time.Second):
		buf := make([]byte, 1<<16)
		n := runtime.Stack(buf, true)
		w.viol("C17", "call-hang:"+st.Op, desc+" did not return within 8 s")
		out.Note = string(buf[:n])
		return
	}
	select {
	case <-killDone:
	case <-time.After(10 * time.Second):
		w.viol("C17", "kill-hang", "Kill did not return ("+desc+")")
		return
	}
	// C17: deletion is complete
	select {
	case <-w.t.Deleted:
	case <-time.After(5 * time.Second):
		w.viol("C17", "not-deleted", "Deleted is not closed after Kill returned")
		return
	}
	if tor.Get(w.t.Hash) != nil {
		w.viol("C17", "still-listed", "the torrent is still listed after its deletion completed")
	}
	for k, r := range remotes {
		select {
		case <-r.closed:
		case <-time.After(5 * time.Second):
			w.viol("C17", "peer-connection-open", fmt.Sprintf("the connection of peer %d is still open 5 s after the deletion completed (%s)", k, desc))
		}
	}
	select {
	case err := <-readDone:
		if err == nil {
			w.viol("C17", "reader-no-error", "a reader blocked on a missing piece returned without error after the deletion")
		}
	case <-time.After(5 * time.Second):
		w.viol("C17", "reader-hang", "a reader blocked on a missing piece is still blocked 5 s after the deletion completed")
	}
	rd.Close()
	okMem := false
	for n := 0; n < 100; n++ {
		if alloc.Bytes() == m0 {
			okMem = true
			break
		}
		time.Sleep(20 * time.Millisecond)
	}
	if !okMem {
		w.viol("C17", "memory-held", fmt.Sprintf("%d bytes of piece memory still accounted 2 s after the deletion completed", alloc.Bytes()-m0))
	}
	okG := false
	var g int
	for n := 0; n < 150; n++ {
		g = runtime.NumGoroutine()
		if g <= g0 {
			okG = true
			break
		}
		time.Sleep(20 * time.Millisecond)
	}
	if !okG {
		buf := make([]byte, 1<<16)
		n := runtime.Stack(buf, true)
		w.viol("C17", "goroutines-left", fmt.Sprintf("%d goroutines more than before the torrent was added, 3 s after its deletion (%s)", g-g0, desc))
		out.Note = string(buf[:n])
	}
	if peer.NumUnchoking() != 0 {
		w.viol("C16", "unchoke-counter", fmt.Sprintf("NumUnchoking() = %d with no peer left", peer.NumUnchoking()))
	}
	out.Applied = 1
}

// failConn is a connection whose writes fail.
type failConn struct{ net.Conn }

func (c failConn) Write(p []byte) (int, error) {
	return 0, errors.New("write: connection reset by peer")
}

// runKillHashing: Kill while a piece is being hashed.  Lifecycle.tla: the loop
// closes Done, then releases the store (which waits for the piece that is
// busy), then unlists the torrent and closes Deleted; Kill returns after
// Deleted - so when it returns the torrent is unlisted and its memory is back.
func runKillHashing(sc *Scenario, out *Out) {
	viol := func(key, what string) {
		out.Violations = append(out.Violations, Viol{"C17", key, what, 0})
	}
	if alloc.Bytes() != 0 {
		out.Note = fmt.Sprintf("%d bytes allocated before the scenario", alloc.Bytes())
		return
	}
	const ps = 32768
	seed := uint64(sc.ID) + 41
	t, err := mktor.New(mktor.Spec{Name: fmt.Sprintf("kh-%d", sc.ID), PieceLen: ps, Length: 4 * ps, Seed: seed}, "")
	if err != nil {
		out.Note = err.Error()
		return
	}
	ctx, cancel := context.WithCancel(context.Background())
	defer cancel()
	t, err = tor.AddTorrent(ctx, t)
	if err != nil {
		out.Note = err.Error()
		return
	}
	// the piece that will be hashed is not the first one: the deletion sweeps the pieces in order and waits for it,
	// while blocks keep arriving for the pieces it has already visited
	const hp = 2
	for b := 0; b < ps; b += 16384 {
		t.Pieces.AddData(hp, uint32(b), content.Range(seed, int64(hp*ps+b), 16384), 1)
	}
	t.Pieces.AddData(3, 0, content.Range(seed, 3*ps, 16384), 1)
	hashing, release := make(chan struct{}, 1), make(chan struct{})
	piece.VerifYield = func(point string, index uint32) {
		if point == "Finalise.hash" {
			hashing <- struct{}{}
			<-release
		}
	}
	defer func() { piece.VerifYield = nil }()
	fin := make(chan struct{})
	go func() {
		t.Pieces.Finalise(hp, t.PieceHashes[hp])
		close(fin)
	}()
	select {
	case <-hashing:
	case <-time.After(5 * time.Second):
		out.Note = "Finalise did not reach its hashing step"
		close(release)
		return
	}
	killed := make(chan error, 1)
	go func() {
		k, c2 := context.WithTimeout(context.Background(), 20*time.Second)
		defer c2()
		killed <- t.Kill(k)
	}()
	check := func(when string) {
		if tor.Get(t.Hash) != nil {
			viol("kill-returns-before-release", "Kill has returned "+when+" and the torrent is still listed")
		}
		if a := alloc.Bytes(); a != 0 {
			viol("kill-returns-before-release", fmt.Sprintf("Kill has returned %s and %d bytes of piece memory are still allocated", when, a))
		}
	}
	// blocks for pieces 0 and 1 arrive while the deletion waits for the hash
	time.Sleep(150 * time.Millisecond)
	t.Pieces.AddData(0, 0, content.Range(seed, 0, 16384), 1)
	t.Pieces.AddData(1, 16384, content.Range(seed, ps+16384, 16384), 1)
	returned := false
	select {
	case err := <-killed:
		returned = true
		if err == nil {
			check("while a piece was still being hashed")
		}
	case <-time.After(250 * time.Millisecond):
	}
	close(release)
	if !returned {
		select {
		case err := <-killed:
			if err != nil {
				viol("call-error:Kill", fmt.Sprintf("Kill returned %v", err))
			} else {
				check("after the hashing ended")
			}
		case <-time.After(10 * time.Second):
			viol("call-hang:Kill", "Kill did not return within 10 s of the end of the hashing")
		}
	}
	select {
	case <-fin:
	case <-time.After(5 * time.Second):
	}
	for n := 0; n < 500 && alloc.Bytes() != 0; n++ {
		time.Sleep(5 * time.Millisecond)
	}
}

// runTwoReaders (C10, "each priority is withdrawn exactly once"): reader A has
// read a piece that was in memory (it registered nothing for it); the piece is
// evicted; reader B asks for it and waits; A closes.  What A withdraws must be
// what A registered: B's priority for the piece must still be in the table
// once the loop has handled A's withdrawals.
func runTwoReaders(sc *Scenario, out *Out) {
	viol := func(key, what string) {
		out.Violations = append(out.Violations, Viol{"C10", key, what, 0})
	}
	const ps = 32768
	seed := uint64(sc.ID) + 91
	t, err := mktor.New(mktor.Spec{Name: fmt.Sprintf("tr-%d", sc.ID), PieceLen: ps, Length: 4 * ps, Seed: seed}, "")
	if err != nil {
		out.Note = err.Error()
		return
	}
	ctx, cancel := context.WithCancel(context.Background())
	defer cancel()
	t, err = tor.AddTorrent(ctx, t)
	if err != nil {
		out.Note = err.Error()
		return
	}
	defer func() {
		k, c2 := context.WithTimeout(context.Background(), 5*time.Second)
		t.Kill(k)
		c2()
	}()
	give := func(i int) {
		for b := 0; b < ps; b += 16384 {
			t.Pieces.AddData(uint32(i), uint32(b), content.Range(seed, int64(i*ps+b), 16384), 1)
		}
		t.Pieces.Finalise(uint32(i), t.PieceHashes[i])
		t.Have(uint32(i), true)
	}
	parkedDo := func(f func()) {
		g1, g2 := make(chan *peer.TorStats), make(chan *peer.TorStats)
		t.Event <- peer.TorGetStats{Ch: g1}
		t.Event <- peer.TorGetStats{Ch: g2}
		<-g1
		f()
		<-g2
	}
	for _, p := range []int{1, 2} {
		give(p)
		t.GetStats()
		// A reads inside piece p, which is in memory
		a := t.NewReader(context.Background(), int64(p*ps+100), 1000)
		buf := make([]byte, 500)
		if n, err := a.Read(buf); err != nil || n == 0 {
			out.Note = fmt.Sprintf("reader A: %d %v", n, err)
			return
		}
		// the piece is evicted
		t.Pieces.Expire(0, nil, func(i uint32) { t.Have(i, false) })
		t.GetStats()
		// B asks for it and waits
		b := t.NewReader(context.Background(), int64(p*ps+200), 1000)
		bdone := make(chan error, 1)
		go func() {
			_, err := b.Read(make([]byte, 100))
			bdone <- err
		}()
		registered := false
		for n := 0; n < 500 && !registered; n++ {
			parkedDo(func() {
				prio, _ := t.VerifRequested()
				registered = len(prio[uint32(p)]) > 0
			})
			time.Sleep(2 * time.Millisecond)
		}
		if !registered {
			out.Note = "reader B's request never reached the table"
			return
		}
		var before, after []int8
		// A closes while the loop is parked; the loop then handles A's withdrawals and parks again before
		// anything B might do in reaction can be handled
		g1, g2 := make(chan *peer.TorStats), make(chan *peer.TorStats)
		t.Event <- peer.TorGetStats{Ch: g1}
		t.Event <- peer.TorGetStats{Ch: g2}
		<-g1
		prio, _ := t.VerifRequested()
		before = prio[uint32(p)]
		a.Close()
		g3, g4 := make(chan *peer.TorStats), make(chan *peer.TorStats)
		t.Event <- peer.TorGetStats{Ch: g3}
		t.Event <- peer.TorGetStats{Ch: g4}
		<-g2
		<-g3
		prio, _ = t.VerifRequested()
		after = prio[uint32(p)]
		<-g4
		if len(after) < len(before) {
			viol("priority-withdrawn-by-another-consumer", fmt.Sprintf("reader B waits for piece %d with priorities %v registered; after reader A (which had read the piece while it was in memory and registered nothing) closed, the table holds %v", p, before, after))
		}
		// B is still served once the piece arrives
		give(p)
		select {
		case err := <-bdone:
			if err != nil {
				viol("reader-error", fmt.Sprintf("reader B: %v", err))
			}
		case <-time.After(8 * time.Second):
			viol("lost-wakeup", fmt.Sprintf("reader B is still blocked 8 s after piece %d was verified and announced", p))
		}
		b.Close()
		if len(out.Violations) > 0 {
			return
		}
	}
}

// runTwoBlocked: several Readers of one torrent blocked on the same missing
// piece at the same time (Requests.tla: several consumers want one piece; its
// verification wakes all of them).  C02: each blocked read returns the data.
func runTwoBlocked(sc *Scenario, out *Out) {
	viol := func(key, what string) {
		out.Violations = append(out.Violations, Viol{"C02", key, what, 0})
		out.Violations = append(out.Violations, Viol{"C10", key, what, 0})
	}
	const ps = 32768
	seed := uint64(sc.ID) + 191
	t, err := mktor.New(mktor.Spec{Name: fmt.Sprintf("tb-%d", sc.ID), PieceLen: ps, Length: 4*ps - 700, Seed: seed}, "")
	if err != nil {
		out.Note = err.Error()
		return
	}
	ctx, cancel := context.WithCancel(context.Background())
	defer cancel()
	t, err = tor.AddTorrent(ctx, t)
	if err != nil {
		out.Note = err.Error()
		return
	}
	defer func() {
		k, c2 := context.WithTimeout(context.Background(), 5*time.Second)
		t.Kill(k)
		c2()
	}()
	give := func(i int) {
		l := ps
		if i == 3 {
			l = ps - 700
		}
		for b := 0; b < l; b += 16384 {
			n := min(16384, l-b)
			t.Pieces.AddData(uint32(i), uint32(b), content.Range(seed, int64(i*ps+b), n), 1)
		}
		t.Pieces.Finalise(uint32(i), t.PieceHashes[i])
		t.Have(uint32(i), true)
	}
	nreaders := 2 + sc.ID%2
	for _, p := range []int{1, 3} {
		type res struct {
			who  int
			off  int64
			data []byte
			err  error
		}
		done := make(chan res, nreaders)
		var readers []*tor.Reader
		for k := 0; k < nreaders; k++ {
			off := int64(p*ps + 100 + 5000*k)
			r := t.NewReader(context.Background(), off, 3000)
			readers = append(readers, r)
			go func(k int, off int64, r *tor.Reader) {
				buf := make([]byte, 1000)
				n, err := io.ReadFull(r, buf)
				done <- res{k, off, buf[:n], err}
			}(k, off, r)
			// reader k is registered as a waiter before the next one asks
			registered := false
			for n := 0; n < 1000 && !registered; n++ {
				g1, g2 := make(chan *peer.TorStats), make(chan *peer.TorStats)
				t.Event <- peer.TorGetStats{Ch: g1}
				t.Event <- peer.TorGetStats{Ch: g2}
				<-g1
				prio, _ := t.VerifRequested()
				registered = len(prio[uint32(p)]) > k
				<-g2
				if !registered {
					time.Sleep(2 * time.Millisecond)
				}
			}
			if !registered {
				out.Note = fmt.Sprintf("reader %d's request never reached the table", k)
				return
			}
		}
		give(p)
		for k := 0; k < nreaders; k++ {
			select {
			case r := <-done:
				if r.err != nil {
					viol("reader-error", fmt.Sprintf("reader %d of %d blocked on piece %d: %v", r.who, nreaders, p, r.err))
				} else if !bytes.Equal(r.data, content.Range(seed, r.off, len(r.data))) {
					viol("read-wrong-bytes", fmt.Sprintf("reader %d of %d blocked on piece %d returned bytes that are not the torrent's at offset %d", r.who, nreaders, p, r.off))
				}
			case <-time.After(8 * time.Second):
				viol("read-stalled", fmt.Sprintf("%d readers were blocked on piece %d; %d of them are still blocked 8 s after the piece was verified and announced", nreaders, p, nreaders-k))
				k = nreaders
			}
		}
		for _, r := range readers {
			r.Close()
		}
		if len(out.Violations) > 0 {
			return
		}
	}
}

// runFinalise: the torrent's own finalisation path (handleEvent(TorData) ->
// finalisePiece -> Pieces.Finalise -> Have) with a consumer waiting.  The last
// block of a piece is reported twice (a duplicate block, or a request pass that
// finds the piece full), first for corrupt data, then for good data.
// C10: the consumer is woken when, and only when, the piece has been verified.
func runFinalise(sc *Scenario, out *Out) {
	viol := func(key, what string) {
		out.Violations = append(out.Violations, Viol{"C10", key, what, 0})
	}
	const ps = 32768
	seed := uint64(sc.ID) + 291
	t, err := mktor.New(mktor.Spec{Name: fmt.Sprintf("fin-%d", sc.ID), PieceLen: ps, Length: 4*ps - 700, Seed: seed}, "")
	if err != nil {
		out.Note = err.Error()
		return
	}
	ctx, cancel := context.WithCancel(context.Background())
	defer cancel()
	t, err = tor.AddTorrent(ctx, t)
	if err != nil {
		out.Note = err.Error()
		return
	}
	defer func() {
		k, c2 := context.WithTimeout(context.Background(), 5*time.Second)
		t.Kill(k)
		c2()
	}()
	p := 1 + sc.ID%3
	plen := ps
	if p == 3 {
		plen = ps - 700
	}
	dups := 2 + sc.ID%2
	deliver := func(corrupt bool) {
		last := 0
		for b := 0; b < plen; b += 16384 {
			n := min(16384, plen-b)
			data := content.Range(seed, int64(p*ps+b), n)
			if corrupt && b == 0 {
				data[7] ^= 0x55
			}
			t.Pieces.AddData(uint32(p), uint32(b), data, 1)
			last = b
		}
		// what the peer that stored the last block tells the torrent - more than once
		for k := 0; k < dups; k++ {
			t.Event <- peer.TorData{Index: uint32(p), Begin: uint32(last), Length: uint32(min(16384, plen-last)), Complete: true}
		}
	}
	settle := func() {
		// every finalisation started by the loop has ended, and what it reported has been handled
		for n := 0; n < 400; n++ {
			t.GetStats()
			_, _, pcs := t.Pieces.VerifSnapshot()
			hashing := false
			for _, pc := range pcs {
				if pc.State == 2 {
					hashing = true
				}
			}
			if !hashing && n > 2 {
				break
			}
			time.Sleep(5 * time.Millisecond)
		}
		time.Sleep(50 * time.Millisecond)
		t.GetStats()
		t.GetStats()
	}
	_, ch, err := t.Request(uint32(p), 1, true, true)
	if err != nil || ch == nil {
		out.Note = fmt.Sprintf("Request: %v (channel %v)", err, ch != nil)
		return
	}
	deliver(true)
	settle()
	select {
	case <-ch:
		if !t.Pieces.Complete(uint32(p)) {
			viol("woken-unverified", fmt.Sprintf("a consumer waiting for piece %d was woken although the data delivered failed verification and the piece is not there (the last block was reported %d times)", p, dups))
			return
		}
	default:
	}
	deliver(false)
	select {
	case <-ch:
		if !t.Pieces.Complete(uint32(p)) {
			settle()
			if !t.Pieces.Complete(uint32(p)) {
				viol("woken-unverified", fmt.Sprintf("a consumer waiting for piece %d was woken before the piece was verified", p))
			}
		}
	case <-time.After(8 * time.Second):
		viol("lost-wakeup", fmt.Sprintf("a consumer is still waiting 8 s after good data for piece %d was delivered and its last block reported %d times", p, dups))
	}
	settle()
}

// runRefused: the "deleted before the call" stop point of Lifecycle.tla realised another way - a torrent that
// AddTorrent refused because its hash is already listed never runs; every operation on it returns at once with a
// result or "torrent is dead", and the listed torrent is not disturbed.
func runRefused(sc *Scenario, out *Out) {
	w, err := newWorld(sc.ID, 4, out)
	if err != nil {
		out.Note = err.Error()
		return
	}
	defer func() {
		k, c := context.WithTimeout(context.Background(), 5*time.Second)
		w.t.Kill(k)
		c()
		w.cancel()
	}()
	dup, err := mktor.New(mktor.Spec{Name: fmt.Sprintf("live-%d", sc.ID), PieceLen: int64(w.psize), Length: w.length, Seed: w.seed}, "")
	if err != nil {
		out.Note = err.Error()
		return
	}
	if !dup.Hash.Equal(w.t.Hash) {
		out.Note = "the duplicate has another hash"
		return
	}
	got, err := tor.AddTorrent(w.ctx, dup)
	if err == nil || got != nil {
		out.Violations = append(out.Violations, Viol{"C17", "duplicate-accepted", fmt.Sprintf("AddTorrent accepted a second torrent with a listed hash (%v)", err), 0})
		return
	}
	names := make([]string, 0, len(ops))
	for n := range ops {
		if n != "Announce" && n != "Backlog" && n != "PeerFaults" {
			names = append(names, n)
		}
	}
	sort.Strings(names)
	wd := &world{t: dup, out: out, ctx: w.ctx}
	for _, n := range names {
		res := make(chan opResult, 1)
		go func(n string) { res <- ops[n](wd) }(n)
		select {
		case r := <-res:
			if r.err != nil && !errors.Is(r.err, tor.ErrTorrentDead) && r.err.Error() != "file does not exist" {
				out.Violations = append(out.Violations, Viol{"C17", "call-error:" + n, fmt.Sprintf("%s on a torrent that AddTorrent refused (duplicate hash) returned %v", n, r.err), 0})
			}
		case <-time.After(6 * time.Second):
			out.Violations = append(out.Violations, Viol{"C17", "call-hang:" + n, fmt.Sprintf("%s on a torrent that AddTorrent refused (duplicate hash) did not return within 6 s", n), 0})
			return
		}
	}
	// the listed torrent still answers
	if _, err := w.t.GetStats(); err != nil {
		out.Violations = append(out.Violations, Viol{"C17", "listed-torrent-disturbed", fmt.Sprintf("the listed torrent answers %v after the duplicate was refused", err), 0})
	}
	if tor.Get(w.t.Hash) != w.t {
		out.Violations = append(out.Violations, Viol{"C17", "listed-torrent-disturbed", "the listed torrent is no longer the one listed under its hash", 0})
	}
	out.Applied = len(names)
}
