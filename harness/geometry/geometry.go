// Package geometry binds spec/Geometry.tla (C13) to tor.ReadTorrent /
// tor.WriteTorrent: each abstract metainfo record enumerated by TLC is
// encoded with the harness's own bencoder and read by the real code.
package geometry

import (
	"bytes"
	"crypto/sha1"
	"encoding/json"
	"fmt"
	"sort"
	"strconv"
	"strings"

	"github.com/jech/storrent/tor"
	"github.com/jech/storrent/webseed"
)

type Len struct {
	K string `json:"k"`
	V int64  `json:"v"`
}

func (l Len) value() (int64, bool) {
	switch l.K {
	case "n":
		return l.V, true
	case "H62":
		return 1 << 62, true
	case "H63":
		return 1<<63 - 1, true
	}
	return 0, false
}

type File struct {
	Len  Len    `json:"len"`
	Path string `json:"path"`
	Pad  bool   `json:"pad"`
}

type Rec struct {
	Plu    int64  `json:"plu"`
	Plr    int64  `json:"plr"`
	Mode   string `json:"mode"`
	Length Len    `json:"length"`
	Files  []File `json:"files"`
	Table  string `json:"table"`
	Name   string `json:"name"`
	Order  string `json:"order"`
	Extra  string `json:"extra"`
	Outer  int    `json:"outer"`
}

type Geom struct {
	Length    int64   `json:"length"`
	PieceLenU int64   `json:"piecelen_u"`
	PieceLenR int64   `json:"piecelen_r"`
	NPieces   int64   `json:"npieces"`
	Slots     int64   `json:"slots"`
	NHashes   int64   `json:"nhashes"`
	Offsets   []int64 `json:"offsets"`
	Lengths   []int64 `json:"lengths"`
	Padding   []bool  `json:"padding"`
}

type Exp struct {
	Verdict string          `json:"verdict"`
	Geom    json.RawMessage `json:"geom"`
}

type Case struct {
	ID  int `json:"id"`
	C   Rec `json:"c"`
	Exp Exp `json:"exp"`
}

type Viol struct {
	Prop string `json:"prop"`
	Key  string `json:"key"`
	What string `json:"what"`
}

type Obs struct {
	ID         int      `json:"id"`
	Verdict    string   `json:"verdict"` // accept / reject / panic
	Err        string   `json:"err,omitempty"`
	Geom       *Geom    `json:"geom,omitempty"`
	Violations []Viol   `json:"violations,omitempty"`
	Nonconf    []string `json:"nonconf,omitempty"`
	Note       string   `json:"note,omitempty"`
}

type kv struct {
	k string
	v string // already encoded value
}

func bstr(s string) string { return strconv.Itoa(len(s)) + ":" + s }
func bint(n int64) string  { return "i" + strconv.FormatInt(n, 10) + "e" }

func dict(kvs []kv, reversed bool) string {
	sort.Slice(kvs, func(i, j int) bool {
		if reversed {
			return kvs[i].k > kvs[j].k
		}
		return kvs[i].k < kvs[j].k
	})
	var b strings.Builder
	b.WriteString("d")
	for _, e := range kvs {
		b.WriteString(bstr(e.k))
		b.WriteString(e.v)
	}
	b.WriteString("e")
	return b.String()
}

var trackers = []string{"http://tracker1.example/announce", "udp://tracker2.example:6969", "http://tracker3.example:8080/a?x=1"}
var seeds = []string{"http://seed1.example/dir/", "http://seed2.example/other/"}
var hseeds = []string{"http://hs.example/seed.php"}

func list(ss []string) string {
	s := "l"
	for _, x := range ss {
		s += bstr(x)
	}
	return s + "e"
}

// build encodes the record; it returns the whole file and the raw info bytes.
func build(c *Rec) ([]byte, []byte) {
	var info []kv
	pl := c.Plu*16384 + c.Plr
	info = append(info, kv{"piece length", bint(pl)})
	var total int64
	switch c.Mode {
	case "single", "both":
		if v, ok := c.Length.value(); ok {
			info = append(info, kv{"length", bint(v)})
			total = v
		}
	}
	if c.Mode == "multi" || c.Mode == "both" {
		fl := "l"
		total = 0
		for k, f := range c.Files {
			var fk []kv
			v, _ := f.Len.value()
			total += v
			fk = append(fk, kv{"length", bint(v)})
			switch f.Path {
			case "ok":
				if k%2 == 0 {
					fk = append(fk, kv{"path", list([]string{"dir", fmt.Sprintf("f%d.bin", k)})})
				} else {
					fk = append(fk, kv{"path", list([]string{fmt.Sprintf("g %d.bin", k)})})
				}
			case "emptylist":
				fk = append(fk, kv{"path", "le"})
			}
			if f.Pad {
				fk = append(fk, kv{"attr", bstr("p")})
			}
			fl += dict(fk, c.Order == "reversed")
		}
		info = append(info, kv{"files", fl + "e"})
	}
	// the piece table, relative to the number of pieces the length calls for
	n := int64(1)
	if pl > 0 && total > 0 && total < 1<<40 {
		n = (total + pl - 1) / pl
	}
	if total == 0 {
		n = 0
	}
	switch c.Table {
	case "exact":
	case "oneshort":
		n--
	case "onelong":
		n++
	}
	if n < 0 {
		n = 0
	}
	switch c.Table {
	case "absent":
	case "notmult20":
		info = append(info, kv{"pieces", bstr(strings.Repeat("h", int(20*n+1)))})
	default:
		info = append(info, kv{"pieces", bstr(strings.Repeat("0123456789abcdefghij", int(n)))})
	}
	switch c.Name {
	case "ok":
		info = append(info, kv{"name", bstr("the name")})
	case "empty":
		info = append(info, kv{"name", bstr("")})
	}
	switch c.Extra {
	case "private":
		info = append(info, kv{"private", bint(1)})
	case "nested":
		info = append(info, kv{"zzz", "d1:ai1e1:bl1:xee"}, kv{"aaa", bstr("first")})
	}
	raw := dict(info, c.Order == "reversed")
	outer := []kv{{"info", raw}}
	switch c.Outer {
	case 1:
		outer = append(outer, kv{"announce", bstr(trackers[0])})
	case 2:
		outer = append(outer, kv{"announce-list", "l" + list(trackers[:2]) + "e"})
	case 3:
		outer = append(outer, kv{"announce", bstr(trackers[0])}, kv{"announce-list", "l" + list(trackers[:1]) + list(trackers[1:]) + "e"})
	case 4:
		outer = append(outer, kv{"url-list", bstr(seeds[0])})
	case 5:
		outer = append(outer, kv{"url-list", list(seeds)}, kv{"httpseeds", list(hseeds)})
	case 6:
		outer = append(outer, kv{"announce-list", "l" + list(trackers[:2]) + "e"}, kv{"url-list", list(seeds)})
	case 7:
		outer = append(outer, kv{"announce", bstr(trackers[1])}, kv{"comment", bstr("hello")}, kv{"creation date", bint(1700000000)},
			kv{"unknown", "l" + bint(1) + "d1:q" + bint(2) + "ee"})
	case 8: // the first tier is empty, the trackers are in the later ones
		outer = append(outer, kv{"announce-list", "l" + "le" + list(trackers[:1]) + list(trackers[1:2]) + "e"})
	case 10: // web seeds that cannot be used (not http) among usable ones
		outer = append(outer, kv{"url-list", list([]string{"ftp://mirror.example/pub/", seeds[0], "not a url at all"})},
			kv{"httpseeds", list([]string{"udp://seed.example:1/", hseeds[0]})})
	case 9: // the first tier holds only a URL that cannot be parsed
		outer = append(outer, kv{"announce-list", "l" + list([]string{"http://bad host/%zz"}) + list(trackers[:2]) + "e"})
	}
	return []byte(dict(outer, c.Order == "reversed")), []byte(raw)
}

func tiers(t *tor.Torrent) [][]string {
	var r [][]string
	for _, tier := range t.Trackers() {
		var l []string
		for _, tr := range tier {
			l = append(l, tr.URL())
		}
		r = append(r, l)
	}
	return r
}

func wseeds(t *tor.Torrent) []string {
	var r []string
	for _, ws := range t.Webseeds() {
		if ws == nil {
			r = append(r, "<nil web seed>")
			continue
		}
		kind := "getright:"
		if _, ok := ws.(*webseed.Hoffman); ok {
			kind = "hoffman:"
		}
		r = append(r, kind+ws.URL())
	}
	return r
}

func geomOf(t *tor.Torrent) *Geom {
	g := &Geom{Length: t.Pieces.Length(), PieceLenU: int64(t.Pieces.PieceSize()) / 16384, PieceLenR: int64(t.Pieces.PieceSize()) % 16384,
		NPieces: int64(t.Pieces.Num()), Slots: int64(len(t.VerifInFlight())), NHashes: int64(len(t.PieceHashes)),
		Offsets: []int64{}, Lengths: []int64{}, Padding: []bool{}}
	for _, f := range t.Files {
		g.Offsets = append(g.Offsets, f.Offset)
		g.Lengths = append(g.Lengths, f.Length)
		g.Padding = append(g.Padding, f.Padding)
	}
	return g
}

func reasonKey(c *Rec) string {
	switch {
	case c.Plu == 0 || c.Plr != 0:
		return "piece-length"
	case c.Mode == "both" || c.Mode == "neither":
		return "length-files-exclusivity"
	}
	for _, f := range c.Files {
		if v, _ := f.Len.value(); v < 0 {
			return "negative-file-length"
		}
	}
	switch {
	case c.Table != "exact":
		return "piece-table"
	case c.Name != "ok":
		return "name"
	}
	return "other"
}

// Handle is the worker-side entry point.
func Handle(in []byte) any {
	var kind struct {
		Kind string `json:"kind"`
	}
	if json.Unmarshal(in, &kind) == nil && kind.Kind == "magnet" {
		return handleMagnet(in)
	}
	var c Case
	if err := json.Unmarshal(in, &c); err != nil {
		return &Obs{Note: "bad case: " + err.Error()}
	}
	o := &Obs{ID: c.ID}
	file, raw := build(&c.C)
	desc, _ := json.Marshal(c.C)
	viol := func(key, what string) {
		o.Violations = append(o.Violations, Viol{"C13", key, what + " (record " + string(desc) + ")"})
	}
	var t *tor.Torrent
	var err error
	func() {
		defer func() {
			if p := recover(); p != nil {
				o.Verdict = "panic"
				o.Err = fmt.Sprint(p)
			}
		}()
		t, err = tor.ReadTorrent("", bytes.NewReader(file))
	}()
	if o.Verdict == "panic" {
		key := "read-panic"
		if strings.Contains(o.Err, "divide by zero") {
			key += ":divide-by-zero"
		} else if strings.Contains(o.Err, "makeslice") {
			key += ":makeslice"
		}
		viol(key, "tor.ReadTorrent panicked: "+o.Err)
		return o
	}
	if err != nil {
		o.Verdict = "reject"
		o.Err = err.Error()
		if c.Exp.Verdict == "accept" {
			o.Nonconf = append(o.Nonconf, fmt.Sprintf("a valid metainfo was refused (%v): %s", err, desc))
		}
		return o
	}
	o.Verdict = "accept"
	g := geomOf(t)
	o.Geom = g
	// self-consistency of what was accepted (also evaluated by TLC on the observed geometry)
	ps := g.PieceLenU*16384 + g.PieceLenR
	bad := ""
	switch {
	case ps <= 0 || g.PieceLenR != 0:
		bad = fmt.Sprintf("piece length %d is not a positive multiple of 16 KiB", ps)
	case g.Length < 0:
		bad = fmt.Sprintf("negative length %d", g.Length)
	case g.NPieces != (g.Length+ps-1)/ps:
		bad = fmt.Sprintf("%d pieces for length %d and piece length %d", g.NPieces, g.Length, ps)
	case g.NHashes != g.NPieces:
		bad = fmt.Sprintf("piece table of %d hashes for %d pieces", g.NHashes, g.NPieces)
	case g.Slots != (g.Length+16383)/16384:
		bad = fmt.Sprintf("%d in-flight slots for length %d", g.Slots, g.Length)
	}
	if bad == "" && len(g.Offsets) > 0 {
		off := int64(0)
		for k := range g.Offsets {
			if g.Lengths[k] < 0 || g.Offsets[k] != off {
				bad = fmt.Sprintf("file %d has offset %d length %d, expected offset %d", k, g.Offsets[k], g.Lengths[k], off)
				break
			}
			off += g.Lengths[k]
		}
		if bad == "" && off != g.Length {
			bad = fmt.Sprintf("files sum to %d, torrent length %d", off, g.Length)
		}
	}
	if bad != "" {
		viol("inconsistent-geometry:"+reasonKey(&c.C), "an accepted torrent has an inconsistent geometry: "+bad)
	} else if c.Exp.Verdict == "reject" {
		o.Nonconf = append(o.Nonconf, fmt.Sprintf("accepted although the specification rejects (%s): %s", reasonKey(&c.C), desc))
	}
	if c.Exp.Verdict == "accept" {
		var eg Geom
		json.Unmarshal(c.Exp.Geom, &eg)
		if eg.Length != g.Length || eg.PieceLenU != g.PieceLenU || eg.NPieces != g.NPieces || eg.Slots != g.Slots ||
			eg.NHashes != g.NHashes || fmt.Sprint(eg.Offsets) != fmt.Sprint(g.Offsets) || fmt.Sprint(eg.Lengths) != fmt.Sprint(g.Lengths) ||
			fmt.Sprint(eg.Padding) != fmt.Sprint(g.Padding) {
			viol("geometry-differs", fmt.Sprintf("geometry %+v, the specification requires %+v", *g, eg))
		}
	}
	// identity
	h := sha1.Sum(raw)
	if !bytes.Equal(h[:], t.Hash) {
		viol("info-hash", "the info-hash is not the SHA-1 of the info dictionary as it appears in the input")
	}
	var buf bytes.Buffer
	var t2 *tor.Torrent
	func() {
		defer func() {
			if p := recover(); p != nil {
				viol("write-panic", fmt.Sprintf("WriteTorrent/ReadTorrent panicked: %v", p))
			}
		}()
		if err := tor.WriteTorrent(&buf, t); err != nil {
			viol("write-failed", "WriteTorrent: "+err.Error())
			return
		}
		var err error
		t2, err = tor.ReadTorrent("", bytes.NewReader(buf.Bytes()))
		if err != nil {
			viol("reread-failed", "the torrent file served back cannot be read: "+err.Error())
		}
	}()
	if t2 != nil {
		if !bytes.Equal(t2.Hash, t.Hash) {
			viol("roundtrip-hash", "the torrent file served back has another info-hash")
		}
		if fmt.Sprint(tiers(t2)) != fmt.Sprint(tiers(t)) {
			viol("roundtrip-trackers", fmt.Sprintf("trackers %v become %v in the torrent file served back", tiers(t), tiers(t2)))
		}
		if fmt.Sprint(wseeds(t2)) != fmt.Sprint(wseeds(t)) {
			viol("roundtrip-webseeds", fmt.Sprintf("web seeds %v become %v in the torrent file served back", wseeds(t), wseeds(t2)))
		}
	}
	// what the first read learnt must be what the input says
	wantTiers := map[int]string{0: "[]", 1: "[[" + trackers[0] + "]]", 2: "[[" + trackers[0] + " " + trackers[1] + "]]",
		3: "[[" + trackers[0] + "] [" + trackers[1] + " " + trackers[2] + "]]", 4: "[]", 5: "[]",
		6: "[[" + trackers[0] + " " + trackers[1] + "]]", 7: "[[" + trackers[1] + "]]",
		// an empty tier, or one whose only URL cannot be parsed, keeps its place (and is empty)
		8: "[[] [" + trackers[0] + "] [" + trackers[1] + "]]", 9: "[[] [" + trackers[0] + " " + trackers[1] + "]]", 10: "[]"}[c.C.Outer]
	if fmt.Sprint(tiers(t)) != wantTiers {
		viol("trackers-read", fmt.Sprintf("trackers read as %v, the file says %s", tiers(t), wantTiers))
	}
	return o
}
