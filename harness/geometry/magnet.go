package geometry

// Binding of spec/MCMagnet.tla: tor.ReadMagnet on concrete links built from
// the abstract cases.

import (
	"encoding/base32"
	"encoding/hex"
	"encoding/json"
	"fmt"
	"net/url"
	"strings"

	"github.com/jech/storrent/tor"
)

type MagnetCase struct {
	ID   int    `json:"id"`
	Kind string `json:"kind"`
	C    struct {
		Form  string   `json:"form"`
		Xt    []string `json:"xt"`
		Tr    int      `json:"tr"`
		BadTr int      `json:"badtr"`
		Ws    int      `json:"ws"`
		Dn    bool     `json:"dn"`
	} `json:"c"`
	Exp struct {
		Verdict string `json:"verdict"`
		Hash    string `json:"hash"`
		NTr     int    `json:"ntr"`
		NWs     int    `json:"nws"`
		Dn      bool   `json:"dn"`
	} `json:"exp"`
}

var hashA = []byte{0x01, 0x23, 0x45, 0x67, 0x89, 0xab, 0xcd, 0xef, 0x00, 0x11, 0x22, 0x33, 0x44, 0x55, 0x66, 0x77, 0x88, 0x99, 0xaa, 0xbb}
var hashB = []byte{0xff, 0xee, 0xdd, 0xcc, 0xbb, 0xaa, 0x99, 0x88, 0x77, 0x66, 0x55, 0x44, 0x33, 0x22, 0x11, 0x00, 0x12, 0x34, 0x56, 0x78}

// 32 characters that are hex digits and base-32 characters at once
const amb32 = "ABCDEF234567ABCDEF234567ABCDEF23"

var hashC, _ = base32.StdEncoding.DecodeString(amb32)

func xtOf(kind string) string {
	switch kind {
	case "hexA":
		return "urn:btih:" + hex.EncodeToString(hashA)
	case "HEXA":
		return "urn:btih:" + strings.ToUpper(hex.EncodeToString(hashA))
	case "b32A":
		return "urn:btih:" + base32.StdEncoding.EncodeToString(hashA)
	case "hexB":
		return "urn:btih:" + hex.EncodeToString(hashB)
	case "short":
		return "urn:btih:" + hex.EncodeToString(hashA[:19])
	case "sha1urn":
		return "urn:sha1:" + base32.StdEncoding.EncodeToString(hashB)
	case "garbage":
		return "urn:btih:zz-not-a-hash-at-all-zz"
	case "b32pad1":
		return "urn:btih:" + base32.StdEncoding.EncodeToString(hashA[:19]) // 31 characters and one '='
	case "b32pad4":
		return "urn:btih:" + base32.StdEncoding.EncodeToString(hashA[:17]) // 28 characters and "===="
	case "hexlong":
		return "urn:btih:" + hex.EncodeToString(hashA) + "00"
	case "b32short":
		return "urn:btih:" + base32.StdEncoding.EncodeToString(hashA[:15])
	case "amb32":
		return "urn:btih:" + amb32
	}
	return ""
}

func handleMagnet(in []byte) any {
	var c MagnetCase
	if err := json.Unmarshal(in, &c); err != nil {
		return &Obs{Note: "bad case: " + err.Error()}
	}
	o := &Obs{ID: c.ID}
	var link string
	switch c.C.Form {
	case "bare-hex":
		link = hex.EncodeToString(hashA)
	case "bare-b32":
		link = base32.StdEncoding.EncodeToString(hashA)
	case "bare-b32pad":
		link = base32.StdEncoding.EncodeToString(hashA[:19])
	case "bare-hexlong":
		link = hex.EncodeToString(hashA) + "00"
	case "bare-amb32":
		link = amb32
	case "http-url":
		link = "http://example.com/file.torrent?xt=" + url.QueryEscape(xtOf("hexA"))
	case "junk":
		link = "hello, this is not a link"
	case "empty":
		link = ""
	case "magnet-noquery":
		link = "magnet:"
	default:
		v := url.Values{}
		for _, x := range c.C.Xt {
			v.Add("xt", xtOf(x))
		}
		for k := 0; k < c.C.Tr; k++ {
			v.Add("tr", []string{"http://tracker.example/announce", "udp://tracker.example:6969"}[k%2])
		}
		if c.C.BadTr > 0 {
			v.Add("tr", "http://%zz/unparsable")
		}
		if c.C.Ws > 0 {
			v.Add("ws", "http://seed.example/a/")
			v.Add("as", "http://mirror.example/b/")
			v.Add("ws", "ftp://not-http.example/c/")
		}
		if c.C.Dn {
			v.Add("dn", "The Name")
		}
		link = "magnet:?" + v.Encode()
	}
	desc := fmt.Sprintf("%q", link)
	viol := func(key, what string) {
		o.Violations = append(o.Violations, Viol{"C13", key, what + " (link " + desc + ")"})
	}
	var t *tor.Torrent
	var err error
	func() {
		defer func() {
			if p := recover(); p != nil {
				o.Verdict = "panic"
				o.Err = fmt.Sprint(p)
			}
		}()
		t, err = tor.ReadMagnet("", link)
	}()
	if o.Verdict == "panic" {
		viol("magnet-panic", "tor.ReadMagnet panicked: "+o.Err)
		return o
	}
	switch {
	case err != nil:
		o.Verdict = "error"
	case t == nil:
		o.Verdict = "notmagnet"
	default:
		o.Verdict = "torrent"
	}
	if o.Verdict == "torrent" {
		// C13: the info-hash is the one the link carries
		want := map[string][]byte{"A": hashA, "B": hashB, "C": hashC}[c.Exp.Hash]
		if len(t.Hash) != 20 {
			viol("magnet-bad-hash", fmt.Sprintf("the torrent made from the link has an info-hash of %d bytes", len(t.Hash)))
		} else if want != nil && string(t.Hash) != string(want) {
			viol("magnet-wrong-hash", fmt.Sprintf("the torrent made from the link has the info-hash %x, the link's first well-formed btih is %x", t.Hash, want))
		} else if want == nil {
			viol("magnet-wrong-hash", fmt.Sprintf("a torrent with the info-hash %x was made from a link that carries no well-formed btih", t.Hash))
		}
	}
	if o.Verdict != c.Exp.Verdict {
		o.Nonconf = append(o.Nonconf, fmt.Sprintf("link %s: outcome %s (%v), the specification says %s", desc, o.Verdict, err, c.Exp.Verdict))
		return o
	}
	if o.Verdict == "torrent" {
		ntr := 0
		for _, tier := range t.Trackers() {
			ntr += len(tier)
		}
		if ntr != c.Exp.NTr || len(t.Webseeds()) != c.Exp.NWs || (t.Name != "") != c.Exp.Dn {
			o.Nonconf = append(o.Nonconf, fmt.Sprintf("link %s: %d trackers, %d web seeds, name %q; the specification says %d, %d, name present %v",
				desc, ntr, len(t.Webseeds()), t.Name, c.Exp.NTr, c.Exp.NWs, c.Exp.Dn))
		}
	}
	return o
}
