// Package fakepeer provides non-running peers whose mailbox is serviced
// by the harness, so that the torrent-side handlers (which rendezvous with
// peers through GetPex, GetStatus, ...) can be called synchronously.
package fakepeer

import (
	"fmt"
	"net/netip"
	"sync"
	"sync/atomic"

	"github.com/jech/storrent/bitmap"
	"github.com/jech/storrent/peer"
	"github.com/jech/storrent/pex"
	"github.com/jech/storrent/protocol"
	"github.com/jech/storrent/tor/piece"
)

// Peer is a peer created with peer.VerifNew plus the goroutine that
// answers the queries the torrent sends it.
type Peer struct {
	P      *peer.Peer
	Events chan peer.PeerEvent // everything that is not a query, in order
	Tor    chan peer.TorEvent
	Writer chan protocol.Message
	stop   chan struct{}
	busy   atomic.Int32 // events received from the mailbox and not yet disposed of
	// Mu serialises the real handlers of this peer (they are single-threaded in the real Run loop)
	Mu sync.Mutex
	// Metadata: metadata requests of the torrent are given to the real handler (auto mode)
	Metadata bool
	Panic    string // a panic of that handler
}

// Idle reports whether everything sent to the peer's mailbox has been
// answered or forwarded.
func (fp *Peer) Idle() bool {
	// order matters: an event leaves the channel before busy is raised, so
	// look at busy, then the channel, then busy again
	if fp.busy.Load() != 0 || len(fp.P.Event) != 0 {
		return false
	}
	return fp.busy.Load() == 0 && len(fp.P.Event) == 0
}

// New creates a serviced fake peer.  Queries are answered from the real
// peer state through the real handler (peer.VerifHandleEvent); other events
// are forwarded to Events for the harness to apply when it chooses.
func New(pieces *piece.Pieces, info []byte, my bitmap.Bitmap, addr netip.AddrPort,
	caps protocol.HandshakeResult, forward bool) *Peer {
	fp := &Peer{
		Events: make(chan peer.PeerEvent, 4096),
		Tor:    make(chan peer.TorEvent, 4096),
		Writer: make(chan protocol.Message, 64),
		stop:   make(chan struct{}),
	}
	fp.P = peer.VerifNew(pieces, info, my, addr, caps, fp.Tor, fp.Writer)
	if forward {
		// manual mode: the harness consumes the mailbox itself with Pop
		return fp
	}
	go func() {
		for {
			select {
			case e := <-fp.P.Event:
				fp.busy.Add(1)
				switch q := e.(type) {
				case peer.PeerGetPex:
					close(q.Ch)
				case peer.PeerGetStatus, peer.PeerGetStats, peer.PeerGetFast, peer.PeerGetBitmap, peer.PeerGetHave:
					// answered by the real handler from the real state
					fp.Mu.Lock()
					peer.VerifHandleEvent(fp.P, e)
					fp.Mu.Unlock()
				case peer.PeerGetMetadata:
					// the torrent asks this peer for a metadata block: the real handler decides whether and what to write
					if fp.Metadata {
						fp.Mu.Lock()
						func() {
							defer func() {
								if p := recover(); p != nil {
									fp.Panic = fmt.Sprint(p)
								}
							}()
							peer.VerifHandleEvent(fp.P, e)
						}()
						fp.Mu.Unlock()
					}
				default:
					if forward {
						fp.Events <- e
					}
				}
				fp.busy.Add(-1)
			case <-fp.stop:
				return
			}
		}
	}()
	return fp
}

// Pop takes the oldest command out of the peer's mailbox (manual mode).
func (fp *Peer) Pop() (peer.PeerEvent, bool) {
	select {
	case e := <-fp.P.Event:
		return e, true
	default:
		return nil, false
	}
}

// Len is the number of commands waiting in the mailbox (manual mode).
func (fp *Peer) Len() int { return len(fp.P.Event) }

func (fp *Peer) Stop() {
	close(fp.stop)
	peer.VerifStopTimers(fp.P)
}

var _ = pex.Peer{}
