// Package benc is a small independent bencoding parser/encoder (BEP 3),
// written for the harness; it shares no code with storrent or its
// dependencies.
package benc

import (
	"bytes"
	"errors"
	"fmt"
	"sort"
	"strconv"
)

// Value is one of: int64, *big (string for integers out of range), []byte, []Value (list), *Dict.
type Value interface{}

type Dict struct {
	Keys []string // in the order of appearance
	Vals map[string]Value
	Raw  map[string][]byte // raw encoding of each value
}

var ErrSyntax = errors.New("bencoding syntax error")

// Parse parses one value at the start of b and returns it with the number
// of bytes it occupies.
func Parse(b []byte) (Value, int, error) {
	return parse(b, 0, 0)
}

func parse(b []byte, pos int, depth int) (Value, int, error) {
	if depth > 2000 {
		return nil, 0, errors.New("too deep")
	}
	if pos >= len(b) {
		return nil, 0, ErrSyntax
	}
	switch c := b[pos]; {
	case c == 'i':
		end := bytes.IndexByte(b[pos:], 'e')
		if end < 0 {
			return nil, 0, ErrSyntax
		}
		s := string(b[pos+1 : pos+end])
		n, err := strconv.ParseInt(s, 10, 64)
		if err != nil {
			if _, err2 := strconv.ParseUint(s, 10, 64); err2 != nil && len(s) < 20 {
				return nil, 0, ErrSyntax
			}
			return "int:" + s, pos + end + 1, nil
		}
		return n, pos + end + 1, nil
	case c >= '0' && c <= '9':
		colon := bytes.IndexByte(b[pos:], ':')
		if colon < 0 {
			return nil, 0, ErrSyntax
		}
		n, err := strconv.ParseInt(string(b[pos:pos+colon]), 10, 64)
		if err != nil || n < 0 || int64(pos+colon+1)+n > int64(len(b)) {
			return nil, 0, ErrSyntax
		}
		start := pos + colon + 1
		return append([]byte{}, b[start:start+int(n)]...), start + int(n), nil
	case c == 'l':
		var l []Value
		p := pos + 1
		for {
			if p >= len(b) {
				return nil, 0, ErrSyntax
			}
			if b[p] == 'e' {
				return l, p + 1, nil
			}
			v, np, err := parse(b, p, depth+1)
			if err != nil {
				return nil, 0, err
			}
			l = append(l, v)
			p = np
		}
	case c == 'd':
		d := &Dict{Vals: map[string]Value{}, Raw: map[string][]byte{}}
		p := pos + 1
		for {
			if p >= len(b) {
				return nil, 0, ErrSyntax
			}
			if b[p] == 'e' {
				return d, p + 1, nil
			}
			k, np, err := parse(b, p, depth+1)
			if err != nil {
				return nil, 0, err
			}
			ks, ok := k.([]byte)
			if !ok {
				return nil, 0, ErrSyntax
			}
			v, np2, err := parse(b, np, depth+1)
			if err != nil {
				return nil, 0, err
			}
			d.Keys = append(d.Keys, string(ks))
			d.Vals[string(ks)] = v
			d.Raw[string(ks)] = b[np:np2]
			p = np2
		}
	}
	return nil, 0, ErrSyntax
}

// Canonical reports whether the keys of d are strictly increasing.
func (d *Dict) Canonical() bool {
	return sort.SliceIsSorted(d.Keys, func(i, j int) bool { return d.Keys[i] < d.Keys[j] }) && func() bool {
		for i := 1; i < len(d.Keys); i++ {
			if d.Keys[i] == d.Keys[i-1] {
				return false
			}
		}
		return true
	}()
}

// Equal compares two parsed values.
func Equal(a, b Value) bool {
	switch x := a.(type) {
	case int64:
		y, ok := b.(int64)
		return ok && x == y
	case string:
		y, ok := b.(string)
		return ok && x == y
	case []byte:
		y, ok := b.([]byte)
		return ok && bytes.Equal(x, y)
	case []Value:
		y, ok := b.([]Value)
		if !ok || len(x) != len(y) {
			return false
		}
		for i := range x {
			if !Equal(x[i], y[i]) {
				return false
			}
		}
		return true
	case *Dict:
		y, ok := b.(*Dict)
		if !ok || len(x.Vals) != len(y.Vals) {
			return false
		}
		for k, v := range x.Vals {
			w, ok := y.Vals[k]
			if !ok || !Equal(v, w) {
				return false
			}
		}
		return true
	}
	return a == nil && b == nil
}

// IsZero reports whether v is a "zero" value an encoder may omit.
func IsZero(v Value) bool {
	switch x := v.(type) {
	case int64:
		return x == 0
	case []byte:
		return len(x) == 0
	case []Value:
		return len(x) == 0
	case *Dict:
		return len(x.Vals) == 0
	}
	return false
}

// Enc is a tiny encoder: Int, Str, and builders for lists and dicts.
type Enc struct{ bytes.Buffer }

func (e *Enc) Int(n int64) *Enc   { fmt.Fprintf(e, "i%de", n); return e }
func (e *Enc) Str(s string) *Enc  { fmt.Fprintf(e, "%d:%s", len(s), s); return e }
func (e *Enc) Bytes(b []byte) *Enc { fmt.Fprintf(e, "%d:", len(b)); e.Write(b); return e }
func (e *Enc) Raw(s string) *Enc  { e.WriteString(s); return e }
