package isolate

import "syscall"

var sigquit = syscall.SIGQUIT
