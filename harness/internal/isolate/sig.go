package isolate

import "syscall"

var sigquit = syscall.SIGQUIT

// limitMemory caps the address space of a worker, so that a run-away
// allocation in the code under test kills that worker (which the parent
// reports) instead of exhausting the machine.
func limitMemory() {
	lim := syscall.Rlimit{Cur: 12 << 30, Max: 12 << 30}
	syscall.Setrlimit(syscall.RLIMIT_AS, &lim)
}
