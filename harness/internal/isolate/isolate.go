// Package isolate runs scenarios in worker sub-processes so that a panic,
// a fatal signal or a hang inside the code under test is observed by the
// parent instead of killing the whole run.
//
// Protocol: the parent writes one JSON scenario per line to the worker's
// stdin; the worker answers with exactly one line of JSON on stdout.
package isolate

import (
	"bufio"
	"bytes"
	"encoding/json"
	"fmt"
	"io"
	"os"
	"os/exec"
	"sync"
	"time"
)

// Result is what the parent records for each scenario.
type Result struct {
	Index  int             `json:"index"`
	Out    json.RawMessage `json:"out,omitempty"`
	Crash  bool            `json:"crash,omitempty"`
	Hang   bool            `json:"hang,omitempty"`
	Stderr string          `json:"stderr,omitempty"`
}

// Worker is the worker-side loop.
func Worker(handle func(in []byte) any) {
	limitMemory()
	r := bufio.NewReaderSize(os.Stdin, 1<<20)
	w := bufio.NewWriter(os.Stdout)
	for {
		line, err := r.ReadBytes('\n')
		if len(line) > 1 {
			out := handle(line)
			b, jerr := json.Marshal(out)
			if jerr != nil {
				fmt.Fprintf(os.Stderr, "marshal: %v\n", jerr)
				os.Exit(3)
			}
			w.Write(b)
			w.WriteByte('\n')
			w.Flush()
		}
		if err != nil {
			return
		}
	}
}

type ring struct {
	mu   sync.Mutex
	head []byte // the first bytes written (a panic message comes first)
	buf  []byte // the last bytes written
}

func (r *ring) Write(p []byte) (int, error) {
	r.mu.Lock()
	if len(r.head) < 6000 {
		n := 6000 - len(r.head)
		if n > len(p) {
			n = len(p)
		}
		r.head = append(r.head, p[:n]...)
		r.buf = append(r.buf, p[n:]...)
	} else {
		r.buf = append(r.buf, p...)
	}
	if len(r.buf) > 10000 {
		r.buf = r.buf[len(r.buf)-10000:]
	}
	r.mu.Unlock()
	return len(p), nil
}

func (r *ring) String() string {
	r.mu.Lock()
	defer r.mu.Unlock()
	if len(r.buf) == 0 {
		return string(r.head)
	}
	return string(r.head) + "\n[...]\n" + string(r.buf)
}

type proc struct {
	cmd   *exec.Cmd
	in    io.WriteCloser
	out   *bufio.Reader
	errb  *ring
	lines chan []byte
}

func start(args []string, env []string) (*proc, error) {
	cmd := exec.Command(os.Args[0], args...)
	cmd.Env = append(os.Environ(), env...)
	in, err := cmd.StdinPipe()
	if err != nil {
		return nil, err
	}
	out, err := cmd.StdoutPipe()
	if err != nil {
		return nil, err
	}
	p := &proc{cmd: cmd, in: in, errb: &ring{}, lines: make(chan []byte, 1)}
	cmd.Stderr = p.errb
	if err := cmd.Start(); err != nil {
		return nil, err
	}
	p.out = bufio.NewReaderSize(out, 1<<20)
	go func() {
		for {
			line, err := p.out.ReadBytes('\n')
			if len(line) > 0 && err == nil {
				p.lines <- line
			}
			if err != nil {
				close(p.lines)
				return
			}
		}
	}()
	return p, nil
}

func (p *proc) kill() {
	p.in.Close()
	p.cmd.Process.Kill()
	p.cmd.Wait()
}

// Run feeds every scenario to worker processes (started with workerArgs)
// and calls sink, in scenario order of completion, with the results.
func Run(scenarios [][]byte, workerArgs []string, env []string, parallel int,
	timeout time.Duration, sink func(Result)) error {
	if parallel < 1 {
		parallel = 1
	}
	var mu sync.Mutex
	next := 0
	var wg sync.WaitGroup
	var firstErr error
	for w := 0; w < parallel; w++ {
		wg.Add(1)
		go func() {
			defer wg.Done()
			var p *proc
			defer func() {
				if p != nil {
					p.kill()
				}
			}()
			for {
				mu.Lock()
				i := next
				next++
				mu.Unlock()
				if i >= len(scenarios) {
					return
				}
				if p == nil {
					var err error
					p, err = start(workerArgs, env)
					if err != nil {
						mu.Lock()
						firstErr = err
						mu.Unlock()
						return
					}
				}
				line := bytes.TrimRight(scenarios[i], "\n")
				_, werr := p.in.Write(append(append([]byte{}, line...), '\n'))
				res := Result{Index: i}
				if werr != nil {
					res.Crash = true
				} else {
					select {
					case out, ok := <-p.lines:
						if ok {
							res.Out = json.RawMessage(bytes.TrimSpace(out))
						} else {
							res.Crash = true
						}
					case <-time.After(timeout):
						res.Hang = true
						// ask the Go runtime for a goroutine dump
						p.cmd.Process.Signal(sigquit)
						time.Sleep(300 * time.Millisecond)
					}
				}
				if res.Crash || res.Hang {
					if res.Crash {
						p.in.Close()
						done := make(chan struct{})
						go func() { p.cmd.Wait(); close(done) }()
						select {
						case <-done:
						case <-time.After(2 * time.Second):
							p.cmd.Process.Kill()
						}
					} else {
						p.kill()
					}
					res.Stderr = p.errb.String()
					p = nil
				}
				mu.Lock()
				sink(res)
				mu.Unlock()
			}
		}()
	}
	wg.Wait()
	return firstErr
}
