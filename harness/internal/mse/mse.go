// Package mse is an independent implementation of Message Stream
// Encryption (the BitTorrent protocol encryption handshake), written for
// the harness from the MSE specification: 768-bit Diffie-Hellman, the
// req1/req2/req3 hashes, RC4 with the first 1024 bytes discarded, keyA /
// keyB derivation.  It shares no code with storrent's crypto package.
package mse

import (
	"bytes"
	"crypto/rc4"
	"crypto/sha1"
	"encoding/binary"
	"errors"
	"io"
	"math/big"
)

var prime, _ = new(big.Int).SetString("FFFFFFFFFFFFFFFFC90FDAA22168C234C4C6628B80DC1CD129024E088A67CC74020BBEA63B139B22514A08798E3404DDEF9519B3CD3A431B302B0A6DF25F14374FE1356D6D51C245E485B576625E7EC6F44C42E9A63A36210000000000090563", 16)
var two = big.NewInt(2)

func H(parts ...[]byte) []byte {
	h := sha1.New()
	for _, p := range parts {
		h.Write(p)
	}
	return h.Sum(nil)
}

// Keys holds the two RC4 streams of one party.
type Keys struct {
	Enc, Dec *rc4.Cipher
}

func stream(label string, s, skey []byte) *rc4.Cipher {
	c, _ := rc4.NewCipher(H([]byte(label), s, skey))
	d := make([]byte, 1024)
	c.XORKeyStream(d, d)
	return c
}

// Public returns G^x mod P as 96 bytes.
func Public(x *big.Int) []byte {
	y := new(big.Int).Exp(two, x, prime)
	b := make([]byte, 96)
	y.FillBytes(b)
	return b
}

// Secret returns Y^x mod P as 96 bytes.
func Secret(y []byte, x *big.Int) []byte {
	s := new(big.Int).Exp(new(big.Int).SetBytes(y), x, prime)
	b := make([]byte, 96)
	s.FillBytes(b)
	return b
}

func pad(n int, seed byte) []byte {
	p := make([]byte, n)
	for i := range p {
		p[i] = byte(i*7) ^ seed ^ 0x5a
	}
	return p
}

// ClientParams are the choices an initiator makes.
type ClientParams struct {
	X       *big.Int
	PadA    int
	PadC    int
	Provide uint32
	IA      []byte
	SKey    []byte
}

// ClientFirst is message 1: Ya, PadA.
func ClientFirst(p *ClientParams) []byte {
	return append(Public(p.X), pad(p.PadA, 1)...)
}

// ClientSecond is message 3, given the responder's public key; it also
// returns the initiator's keys.  The returned offsets are the ends of the
// fields (relative to the start of this message), for cut-point planning.
func ClientSecond(p *ClientParams, yb []byte) ([]byte, *Keys, []int) {
	s := Secret(yb, p.X)
	k := &Keys{Enc: stream("keyA", s, p.SKey), Dec: stream("keyB", s, p.SKey)}
	var out []byte
	var ends []int
	out = append(out, H([]byte("req1"), s)...)
	ends = append(ends, len(out))
	r2 := H([]byte("req2"), p.SKey)
	r3 := H([]byte("req3"), s)
	for i := range r2 {
		r2[i] ^= r3[i]
	}
	out = append(out, r2...)
	ends = append(ends, len(out))
	var plain []byte
	plain = append(plain, make([]byte, 8)...) // VC
	plain = binary.BigEndian.AppendUint32(plain, p.Provide)
	plain = binary.BigEndian.AppendUint16(plain, uint16(p.PadC))
	ends = append(ends, len(out)+8, len(out)+12, len(out)+14)
	plain = append(plain, make([]byte, p.PadC)...)
	ends = append(ends, len(out)+len(plain))
	plain = binary.BigEndian.AppendUint16(plain, uint16(len(p.IA)))
	ends = append(ends, len(out)+len(plain))
	plain = append(plain, p.IA...)
	ends = append(ends, len(out)+len(plain))
	enc := make([]byte, len(plain))
	k.Enc.XORKeyStream(enc, plain)
	out = append(out, enc...)
	return out, k, ends
}

// ClientFinish reads the responder's reply from r (after its public key and
// pad, which may be up to 512 bytes): synchronises on ENCRYPT(VC), returns
// crypto_select.  Bytes read beyond the reply stay in the returned buffer,
// already decrypted with k.Dec if the selection is RC4.
func ClientFinish(r io.Reader, k *Keys, have []byte) (uint32, []byte, error) {
	vc := make([]byte, 8)
	k.Dec.XORKeyStream(vc, vc)
	buf := append([]byte{}, have...)
	tmp := make([]byte, 4096)
	for {
		if i := bytes.Index(buf, vc); i >= 0 {
			buf = buf[i+8:]
			break
		}
		if len(buf) > 8+512+8 {
			return 0, nil, errors.New("mse: VC not found")
		}
		n, err := r.Read(tmp)
		buf = append(buf, tmp[:n]...)
		if n == 0 && err != nil {
			return 0, nil, err
		}
	}
	for len(buf) < 6 {
		n, err := r.Read(tmp)
		buf = append(buf, tmp[:n]...)
		if n == 0 && err != nil {
			return 0, nil, err
		}
	}
	hdr := make([]byte, 6)
	k.Dec.XORKeyStream(hdr, buf[:6])
	buf = buf[6:]
	sel := binary.BigEndian.Uint32(hdr)
	padD := int(binary.BigEndian.Uint16(hdr[4:]))
	for len(buf) < padD {
		n, err := r.Read(tmp)
		buf = append(buf, tmp[:n]...)
		if n == 0 && err != nil {
			return 0, nil, err
		}
	}
	junk := make([]byte, padD)
	k.Dec.XORKeyStream(junk, buf[:padD])
	buf = buf[padD:]
	if sel == 2 {
		k.Dec.XORKeyStream(buf, buf)
	}
	return sel, buf, nil
}

// ServerParams are the choices a responder makes.
type ServerParams struct {
	X      *big.Int
	PadB   int
	PadD   int
	Select uint32 // 0: choose RC4 if provided, else plaintext
	SKeys  [][]byte
}

// ServerResult is what the responder learnt.
type ServerResult struct {
	SKey    []byte
	Provide uint32
	IA      []byte
	Keys    *Keys
	Select  uint32
	Rest    []byte // bytes received beyond IA (still encrypted if any)
}

// ServerRun plays the responder on rw: reads Ya, sends Yb+PadB, reads the
// initiator's second message, sends the reply (with PadD).
func ServerRun(rw io.ReadWriter, p *ServerParams) (*ServerResult, error) {
	buf := make([]byte, 0, 4096)
	tmp := make([]byte, 4096)
	fill := func(n int) error {
		for len(buf) < n {
			k, err := rw.Read(tmp)
			buf = append(buf, tmp[:k]...)
			if k == 0 && err != nil {
				return err
			}
		}
		return nil
	}
	if err := fill(96); err != nil {
		return nil, err
	}
	ya := append([]byte{}, buf[:96]...)
	buf = buf[96:]
	if _, err := rw.Write(append(Public(p.X), pad(p.PadB, 2)...)); err != nil {
		return nil, err
	}
	s := Secret(ya, p.X)
	req1 := H([]byte("req1"), s)
	for {
		if i := bytes.Index(buf, req1); i >= 0 {
			buf = buf[i+20:]
			break
		}
		if len(buf) > 512+20 {
			return nil, errors.New("mse: req1 not found")
		}
		k, err := rw.Read(tmp)
		buf = append(buf, tmp[:k]...)
		if k == 0 && err != nil {
			return nil, err
		}
	}
	if err := fill(20); err != nil {
		return nil, err
	}
	r3 := H([]byte("req3"), s)
	res := &ServerResult{}
	for _, sk := range p.SKeys {
		r2 := H([]byte("req2"), sk)
		ok := true
		for i := range r2 {
			if r2[i]^r3[i] != buf[i] {
				ok = false
			}
		}
		if ok {
			res.SKey = sk
		}
	}
	buf = buf[20:]
	if res.SKey == nil {
		return nil, errors.New("mse: unknown skey")
	}
	res.Keys = &Keys{Enc: stream("keyB", s, res.SKey), Dec: stream("keyA", s, res.SKey)}
	if err := fill(14); err != nil {
		return nil, err
	}
	hdr := make([]byte, 14)
	res.Keys.Dec.XORKeyStream(hdr, buf[:14])
	buf = buf[14:]
	if !bytes.Equal(hdr[:8], make([]byte, 8)) {
		return nil, errors.New("mse: bad VC")
	}
	res.Provide = binary.BigEndian.Uint32(hdr[8:])
	padC := int(binary.BigEndian.Uint16(hdr[12:]))
	if err := fill(padC + 2); err != nil {
		return nil, err
	}
	junk := make([]byte, padC+2)
	res.Keys.Dec.XORKeyStream(junk, buf[:padC+2])
	buf = buf[padC+2:]
	lenIA := int(binary.BigEndian.Uint16(junk[padC:]))
	if err := fill(lenIA); err != nil {
		return nil, err
	}
	res.IA = make([]byte, lenIA)
	res.Keys.Dec.XORKeyStream(res.IA, buf[:lenIA])
	res.Rest = append([]byte{}, buf[lenIA:]...)
	sel := p.Select
	if sel == 0 {
		if res.Provide&2 != 0 {
			sel = 2
		} else {
			sel = 1
		}
	}
	res.Select = sel
	var plain []byte
	plain = append(plain, make([]byte, 8)...)
	plain = binary.BigEndian.AppendUint32(plain, sel)
	plain = binary.BigEndian.AppendUint16(plain, uint16(p.PadD))
	plain = append(plain, make([]byte, p.PadD)...)
	enc := make([]byte, len(plain))
	res.Keys.Enc.XORKeyStream(enc, plain)
	if _, err := rw.Write(enc); err != nil {
		return nil, err
	}
	return res, nil
}
