// Package content provides the ground-truth torrent content used by the
// harnesses: a position-dependent pseudo-random function, so that stale,
// shifted, uninitialised or foreign bytes can never pass for the right ones.
package content

import (
	"crypto/sha1"
)

// At returns the true content byte at torrent offset off for seed.
func At(seed uint64, off int64) byte {
	x := uint64(off)/8*0x9E3779B97F4A7C15 + seed*0xD1B54A32D192ED03 + 0x632BE59BD9B4E019
	x ^= x >> 29
	x *= 0xBF58476D1CE4E5B9
	x ^= x >> 32
	b := byte(x >> (8 * (uint64(off) % 8)))
	if uint64(off)%8 == 0 {
		b |= 1 // no 8-byte block is all zero
	}
	return b
}

// Fill writes the true content of [off, off+len(p)) into p.
func Fill(seed uint64, off int64, p []byte) {
	for i := range p {
		p[i] = At(seed, off+int64(i))
	}
}

// Range returns the true content of [off, off+n).
func Range(seed uint64, off int64, n int) []byte {
	p := make([]byte, n)
	Fill(seed, off, p)
	return p
}

// Equal reports whether p is exactly the true content at off.
func Equal(seed uint64, off int64, p []byte) bool {
	for i := range p {
		if p[i] != At(seed, off+int64(i)) {
			return false
		}
	}
	return true
}

// PieceHashes returns the SHA-1 of each piece of a torrent of the given
// length and piece size.
func PieceHashes(seed uint64, length int64, psize int64) [][]byte {
	var hs [][]byte
	for off := int64(0); off < length; off += psize {
		n := psize
		if off+n > length {
			n = length - off
		}
		h := sha1.Sum(Range(seed, off, int(n)))
		hs = append(hs, h[:])
	}
	return hs
}
