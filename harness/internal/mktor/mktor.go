// Package mktor builds real torrents (with correct piece hashes over the
// PRF content) for the harnesses.
package mktor

import (
	"bytes"
	"crypto/sha1"
	"fmt"
	"strings"

	"github.com/jech/storrent/tor"

	"verifharness/internal/content"
)

type File struct {
	Path   []string
	Length int64
	Pad    bool
}

// Spec describes a torrent.
type Spec struct {
	Name     string
	PieceLen int64
	Length   int64  // single-file
	Files    []File // multi-file
	Seed     uint64
	Trackers []string
	Webseeds []string
	// BEP 17 seeds ("httpseeds")
	HTTPSeeds []string
	// HashOnly: when not nil, only these pieces get their true hash (the others a
	// dummy one): for very long torrents of which only a few pieces are ever used
	HashOnly []int
	// UTF8Paths: file paths go into the path.utf-8 key (which storrent prefers), beside a harmless legacy path
	UTF8Paths bool
}

func bstr(s string) string { return fmt.Sprintf("%d:%s", len(s), s) }

// Bytes returns the .torrent file and the raw info dictionary.
func Bytes(s Spec) ([]byte, []byte) {
	total := s.Length
	if len(s.Files) > 0 {
		total = 0
		for _, f := range s.Files {
			total += f.Length
		}
	}
	var hashes strings.Builder
	hasPad := false
	for _, f := range s.Files {
		hasPad = hasPad || f.Pad
	}
	if s.HashOnly != nil {
		only := map[int64]bool{}
		for _, i := range s.HashOnly {
			only[int64(i)] = true
		}
		n := (total + s.PieceLen - 1) / s.PieceLen
		dummy := make([]byte, 20)
		for i := int64(0); i < n; i++ {
			if !only[i] {
				hashes.Write(dummy)
				continue
			}
			lo := i * s.PieceLen
			hi := lo + s.PieceLen
			if hi > total {
				hi = total
			}
			h := sha1.Sum(content.Range(s.Seed, lo, int(hi-lo)))
			hashes.Write(h[:])
		}
	} else if !hasPad {
		for _, h := range content.PieceHashes(s.Seed, total, s.PieceLen) {
			hashes.Write(h)
		}
	} else {
		// padding files hold zeros
		buf := make([]byte, total)
		var off int64
		for _, f := range s.Files {
			if !f.Pad {
				content.Fill(s.Seed, off, buf[off:off+f.Length])
			}
			off += f.Length
		}
		for o := int64(0); o < total; o += s.PieceLen {
			e := o + s.PieceLen
			if e > total {
				e = total
			}
			h := sha1.Sum(buf[o:e])
			hashes.Write(h[:])
		}
	}
	var info strings.Builder
	info.WriteString("d")
	if len(s.Files) > 0 {
		info.WriteString("5:filesl")
		for _, f := range s.Files {
			info.WriteString("d")
			if f.Pad {
				info.WriteString("4:attr1:p")
			}
			if s.UTF8Paths {
				fmt.Fprintf(&info, "6:lengthi%de4:pathl%se10:path.utf-8l", f.Length, bstr(fmt.Sprintf("legacy-%d", len(info.String()))))
			} else {
				fmt.Fprintf(&info, "6:lengthi%de4:pathl", f.Length)
			}
			for _, c := range f.Path {
				info.WriteString(bstr(c))
			}
			info.WriteString("ee")
		}
		info.WriteString("e")
	} else {
		fmt.Fprintf(&info, "6:lengthi%de", total)
	}
	fmt.Fprintf(&info, "4:name%s12:piece lengthi%de6:pieces%se", bstr(s.Name), s.PieceLen, bstr(hashes.String()))
	var out strings.Builder
	out.WriteString("d")
	if len(s.Trackers) > 0 {
		out.WriteString("8:announce" + bstr(s.Trackers[0]))
		out.WriteString("13:announce-listl")
		for _, t := range s.Trackers {
			out.WriteString("l" + bstr(t) + "e")
		}
		out.WriteString("e")
	}
	if len(s.HTTPSeeds) > 0 {
		out.WriteString("9:httpseedsl")
		for _, w := range s.HTTPSeeds {
			out.WriteString(bstr(w))
		}
		out.WriteString("e")
	}
	out.WriteString("4:info" + info.String())
	if len(s.Webseeds) > 0 {
		out.WriteString("8:url-listl")
		for _, w := range s.Webseeds {
			out.WriteString(bstr(w))
		}
		out.WriteString("e")
	}
	out.WriteString("e")
	return []byte(out.String()), []byte(info.String())
}

// New reads the torrent with the real tor.ReadTorrent.
func New(s Spec, proxy string) (*tor.Torrent, error) {
	file, _ := Bytes(s)
	return tor.ReadTorrent(proxy, bytes.NewReader(file))
}
