package piecestore

import (
	"fmt"
	"math/rand"
	"runtime"
	"sync"
	"sync/atomic"
	"time"

	"github.com/jech/storrent/alloc"
	"github.com/jech/storrent/hash"
	"github.com/jech/storrent/tor/piece"

	"verifharness/internal/content"
)

// StressSpec describes a free-running run: real goroutines, no gate.  The
// only oracles are those that need no model: every byte ReadAt returns is
// the true content at that offset, the process survives (a read of a freed
// mmap'd buffer is a fault, seen by the parent), and once Del() has
// returned and everything is quiescent nothing is accounted any more.
type StressSpec struct {
	Seed   int64 `json:"seed"`
	Millis int   `json:"millis"`
	PSize  int   `json:"psize"`
	Pieces int   `json:"pieces"`
	Del    bool  `json:"del"` // delete the store in the middle of the run
}

type StressOut struct {
	ID         int    `json:"id"`
	Violations []Viol `json:"violations,omitempty"`
	Reads      int64  `json:"reads"`
	ReadsData  int64  `json:"reads_data"`
	Adds       int64  `json:"adds"`
	Finalised  int64  `json:"finalised"`
	Evictions  int64  `json:"evictions"`
}

func stressRun(sc *Scenario) any {
	piece.VerifYield = nil
	ss := sc.Stress
	out := &StressOut{ID: sc.ID}
	var vmu sync.Mutex
	viol := func(prop, key, what string) {
		vmu.Lock()
		if len(out.Violations) < 10 {
			out.Violations = append(out.Violations, Viol{prop, key, what, 0})
		}
		vmu.Unlock()
	}
	seed := uint64(ss.Seed)*977 + 3
	psize := ss.PSize
	np := ss.Pieces
	length := int64(np)*int64(psize) - 5000
	ps := &piece.Pieces{}
	base := alloc.Bytes()
	ps.MetadataComplete(uint32(psize), length)
	hashes := content.PieceHashes(seed, length, int64(psize))
	stop := make(chan struct{})
	var wg sync.WaitGroup
	stopped := func() bool {
		select {
		case <-stop:
			return true
		default:
			return false
		}
	}
	plen := func(i int) int { return int(ps.PieceLength(uint32(i))) }
	// writers: fill pieces block by block (some corrupt), finalise
	for g := 0; g < 3; g++ {
		wg.Add(1)
		go func(g int) {
			defer wg.Done()
			r := rand.New(rand.NewSource(ss.Seed*10 + int64(g)))
			for !stopped() {
				i := r.Intn(np)
				bad := r.Intn(8) == 0
				pl := plen(i)
				for b := 0; b < pl; b += CS {
					l := pl - b
					if l > CS {
						l = CS
					}
					data := content.Range(seed, int64(i)*int64(psize)+int64(b), l)
					if bad && b == 0 {
						data[5] ^= 0x40
					}
					ps.AddData(uint32(i), uint32(b), data, 3)
					atomic.AddInt64(&out.Adds, 1)
				}
				done, _, _ := ps.Finalise(uint32(i), hash.Hash(hashes[i]))
				if done {
					atomic.AddInt64(&out.Finalised, 1)
				}
			}
		}(g)
	}
	// readers
	for g := 0; g < 4; g++ {
		wg.Add(1)
		go func(g int) {
			defer wg.Done()
			r := rand.New(rand.NewSource(ss.Seed*10 + 5 + int64(g)))
			buf := make([]byte, psize)
			for !stopped() {
				i := r.Intn(np)
				if !ps.Complete(uint32(i)) && r.Intn(16) != 0 {
					// mostly read what can be read
					runtime.Gosched()
					continue
				}
				off := int64(i)*int64(psize) + int64(r.Intn(plen(i)/2))
				n, _ := ps.ReadAt(buf, off)
				atomic.AddInt64(&out.Reads, 1)
				if n > 0 {
					atomic.AddInt64(&out.ReadsData, 1)
					if !content.Equal(seed, off, buf[:n]) {
						viol("C01", "read-wrong-bytes", fmt.Sprintf("free-running: ReadAt(off=%d) returned %d bytes that are not the torrent's content", off, n))
					}
				}
			}
		}(g)
	}
	// evictor
	wg.Add(1)
	go func() {
		defer wg.Done()
		r := rand.New(rand.NewSource(ss.Seed*10 + 9))
		for !stopped() {
			n := ps.Expire(int64(r.Intn(np))*int64(psize), nil, func(uint32) {})
			atomic.AddInt64(&out.Evictions, int64(n))
			time.Sleep(time.Duration(200+r.Intn(1500)) * time.Microsecond)
		}
	}()
	d := time.Duration(ss.Millis) * time.Millisecond
	if ss.Del {
		time.Sleep(d / 2)
		ps.Del()
		// nothing is held once Del() has returned, while blocks keep arriving
		for k := 0; k < 50; k++ {
			_, count, pcs := ps.VerifSnapshot()
			held := 0
			for _, p := range pcs {
				if p.HasData {
					held++
				}
			}
			if held > 0 || count != 0 {
				viol("C03", "held-after-del", fmt.Sprintf("free-running: %d pieces hold a buffer (count %d) after Del() returned", held, count))
				break
			}
			time.Sleep(d / 100)
		}
	} else {
		time.Sleep(d)
	}
	close(stop)
	wg.Wait()
	ps.Del()
	if left := alloc.Bytes() - base; left != 0 {
		viol("C03", "leak-after-del", fmt.Sprintf("free-running: %d bytes still accounted after Del() and quiescence", left))
	}
	return out
}
