package piecestore

import (
	"fmt"
	"math/rand"
	"os"

	"github.com/jech/storrent/alloc"
	"github.com/jech/storrent/tor/piece"
)

// randomOp draws an operation from the alphabet of MCPieceStore.tla
// (MCOpsFull), for the geometry nch.
func randomOp(r *rand.Rand, nch []int) Op {
	np := len(nch)
	o := Op{K: "-", Q: "-", Sh: "-"}
	switch x := r.Intn(100); {
	case x < 40:
		o.K = "add"
		o.I = r.Intn(np)
		o.Sh = "ok"
		o.Q = "good"
		if r.Intn(5) == 0 {
			o.Q = "bad"
		}
		o.C = r.Intn(nch[o.I])
		o.N = 1 + r.Intn(2)
		if r.Intn(12) == 0 {
			o.Sh = []string{"odd", "beyond", "short"}[r.Intn(3)]
			o.C, o.N, o.Q = 0, 1, "good"
		}
	case x < 60:
		o.K = "fin"
		o.I = r.Intn(np)
		o.Q = "right"
		if r.Intn(6) == 0 {
			o.Q = "wrong"
		}
	case x < 70:
		o.K = "exp"
		o.N = r.Intn(np)
	case x < 74:
		o.K = "del"
	case x < 88:
		o.K = "read"
		o.I = r.Intn(np + 1)
		if o.I < np {
			o.C = r.Intn(nch[o.I])
		}
	case x < 96:
		o.K = "touch"
		o.I = r.Intn(np)
	default:
		o.K = "age"
	}
	return o
}

var beginName = map[string]string{"add": "AddBegin", "fin": "FinBegin", "exp": "ExpBegin", "del": "DelBegin",
	"read": "Read", "touch": "Touch", "age": "Age"}

var stepName = map[string]string{"AddCrit": "AddCrit", "FinLock": "FinLock", "FinHash": "FinHash", "FinCommit": "FinCommit",
	"ExpBytes": "ExpBytes", "ExpOne": "ExpOne", "DelWait": "DelWake", "DelRelock": "DelRelock"}

// randomRun drives the real store with a seeded random choice of
// operations and a seeded random gate scheduler; the log is validated
// afterwards by TLC against PieceStoreTrace.tla.
func randomRun(sc *Scenario) any {
	out := &Out{ID: sc.ID}
	rs := sc.Random
	r := rand.New(rand.NewSource(rs.Seed))
	piece.VerifYield = yield
	w := newWorld(rs.NCh, sc.Geom, uint64(rs.Seed)*31+5, rs.Threads)
	w.out = out
	w.avail = availFor(len(rs.NCh))
	init := State{Rank: make([]int, len(rs.NCh)), Cont: map[string]map[string]string{}, Hasbuf: map[string]bool{}, Pstate: map[string]string{}}
	for i := range init.Rank {
		init.Rank[i] = i
	}
	if err := w.setup(init); err != nil {
		out.Note = err.Error()
		return out
	}
	out.Events = append(out.Events, Event{T: "-", A: "reset", S: w.observe()})
	left := map[string]int{}
	for _, n := range rs.Threads {
		left[n] = rs.Ops
	}
	for step := 1; step < 400; step++ {
		w.stepNo = step
		// threads that can move
		var can []*thread
		for _, n := range w.names {
			th := w.threads[n]
			switch {
			case th.pc == "idle" && left[n] > 0:
				can = append(can, th)
			case th.pc == "done" && left[n] > 0 && th.op.K != "del":
				can = append(can, th)
			case th.live && th.pc == "DelWait":
				_, _, ps := w.ps.VerifSnapshot()
				if ps[th.index].State != 2 {
					can = append(can, th)
				}
			case th.live:
				can = append(can, th)
			}
		}
		if len(can) == 0 {
			break
		}
		th := can[r.Intn(len(can))]
		var lab Label
		var op *Op
		switch th.pc {
		case "done":
			th.pc = "idle"
			th.op = Op{K: "-", Q: "-", Sh: "-"}
			th.ret = Ret{Err: "-"}
			lab = Label{th.name, "Recycle"}
		case "idle":
			o := randomOp(r, rs.NCh)
			left[th.name]--
			op = &o
			lab = Label{th.name, beginName[o.K]}
			if !w.stepThread(lab, op) {
				lab.A = ""
			}
		default:
			lab = Label{th.name, stepName[th.pc]}
			if !w.stepThread(lab, nil) {
				lab.A = ""
			}
		}
		if w.hangDump != "" {
			fmt.Fprintf(os.Stderr, "HANG in random scenario %d step %d (%s %s)\n%s\n", sc.ID, step, lab.T, lab.A, w.hangDump)
			select {}
		}
		if lab.A == "" {
			break
		}
		out.Events = append(out.Events, Event{T: lab.T, A: lab.A, Op: op, S: w.observe()})
		out.StepsDone = step
		if len(out.Violations) > 0 {
			break
		}
	}
	w.drain()
	if leftb := alloc.Bytes() - w.base; leftb != 0 && len(out.Violations) == 0 && len(out.Nonconf) == 0 {
		w.viol("C03", "leak-after-del", fmt.Sprintf("%d bytes still accounted after every operation returned and Del() was called", leftb))
	}
	return out
}
