// Package piecestore binds spec/PieceStore.tla to tor/piece (binding B1 of
// DESIGN.md): real goroutines execute the real operations and are parked at
// the verifYield points; a controller releases exactly one goroutine from
// one yield point to the next, which is one action of the specification.
package piecestore

import (
	"encoding/json"
	"fmt"
	"math/rand"
	"os"
	"runtime"
	"sort"
	"strconv"
	"strings"
	"sync"
	"syscall"
	"time"

	"github.com/jech/storrent/alloc"
	"github.com/jech/storrent/hash"
	"github.com/jech/storrent/mono"
	"github.com/jech/storrent/tor/piece"

	"verifharness/internal/content"
)

const CS = 16384

type Op struct {
	K  string `json:"k"`
	I  int    `json:"i"`
	C  int    `json:"c"`
	N  int    `json:"n"`
	Q  string `json:"q"`
	Sh string `json:"sh"`
}

type Ret struct {
	N   int      `json:"n"`
	B   bool     `json:"b"`
	Err string   `json:"err"`
	Qs  []string `json:"qs"`
	Ev  []int    `json:"ev"`
	Cb  []int    `json:"cb"`
}

type State struct {
	Pstate  map[string]string            `json:"pstate"`
	Hasbuf  map[string]bool              `json:"hasbuf"`
	Cont    map[string]map[string]string `json:"cont"`
	Deleted bool                         `json:"deleted"`
	Count   int                          `json:"count"`
	Rank    []int                        `json:"rank"`
	Nold    int                          `json:"nold"`
	Pc      map[string]string            `json:"pc"`
	Op      map[string]Op                `json:"op"`
	Ret     map[string]Ret               `json:"ret"`
	Uaf     bool                         `json:"uaf"`
	Crashed bool                         `json:"crashed"`
}

type Label struct {
	T string `json:"t"`
	A string `json:"a"`
}

type Step struct {
	A Label `json:"a"`
	S State `json:"s"`
}

type Scenario struct {
	ID    int    `json:"id"`
	Geom  string `json:"geom"` // "heap" or "mmap"
	Init  State  `json:"init"`
	Steps []Step `json:"steps"`
	// random mode: the harness chooses operations and schedule itself
	Random *RandomSpec `json:"random,omitempty"`
	// stress mode: free-running goroutines, no gate
	Stress *StressSpec `json:"stress,omitempty"`
	// a store that holds more than 4 GiB
	Far bool `json:"far,omitempty"`
}

type RandomSpec struct {
	Seed    int64    `json:"seed"`
	NCh     []int    `json:"nch"`
	Threads []string `json:"threads"`
	Ops     int      `json:"ops"` // operations per thread
}

type Viol struct {
	Prop string `json:"prop"`
	Key  string `json:"key"`
	What string `json:"what"`
	Step int    `json:"step"`
}

type Event struct {
	T  string `json:"t"`
	A  string `json:"a"`
	Op *Op    `json:"op,omitempty"`
	S  State  `json:"s"`
}

type Out struct {
	ID         int      `json:"id"`
	Events     []Event  `json:"events"`
	Violations []Viol   `json:"violations,omitempty"`
	Nonconf    []string `json:"nonconf,omitempty"`
	StepsDone  int      `json:"steps_done"`
	Note       string   `json:"note,omitempty"`
}

// ---------------------------------------------------------------------------
// gate

type status struct {
	point string
	index uint32
	done  bool
	ret   Ret
}

type thread struct {
	name   string
	resume chan struct{}
	status chan status
	op     Op
	pc     string
	ret    Ret
	index  uint32 // piece index at the current yield point
	live   bool   // goroutine exists
	cb     []int
	ev     []int
}

var current *thread

func yield(point string, index uint32) {
	th := current
	if th == nil {
		return
	}
	th.status <- status{point: point, index: index}
	<-th.resume
}

var pcOf = map[string]string{
	"AddData.lock":    "AddCrit",
	"Finalise.lock":   "FinLock",
	"Finalise.hash":   "FinHash",
	"Finalise.relock": "FinCommit",
	"Expire.bytes":    "ExpBytes",
	"Expire.piece":    "ExpOne",
	"del.wait":        "DelWait",
	"del.relock":      "DelRelock",
}

// ---------------------------------------------------------------------------
// world

type world struct {
	ps       *piece.Pieces
	nch      []int // abstract chunks per piece
	unit     int   // real chunks per abstract chunk
	psize    int
	length   int64
	seed     uint64
	hashes   [][]byte
	base     int64 // alloc.Bytes() before anything was allocated
	threads  map[string]*thread
	names    []string
	avail    []uint16
	delDone  bool
	out      *Out
	stepNo   int
	rank     []int
	nold     int
	hangDump string
}

func (w *world) plen(i int) int { return int(w.ps.PieceLength(uint32(i))) }

// abstract chunk c of piece i covers [lo, hi) inside the piece
func (w *world) chunkRange(i, c int) (int, int) {
	lo := c * w.unit * CS
	hi := (c + 1) * w.unit * CS
	if pl := w.plen(i); hi > pl {
		hi = pl
	}
	return lo, hi
}

func (w *world) off(i int) int64 { return int64(i) * int64(w.psize) }

var clockOnce sync.Once

func newWorld(nch []int, geom string, seed uint64, names []string) *world {
	// mono.Now() starts at 1 s: leave room for access times in the past
	clockOnce.Do(func() { mono.VerifAdvance(1000 * time.Second) })
	w := &world{nch: nch, seed: seed, names: names}
	w.unit = 1
	if geom == "mmap" {
		w.unit = 4
	}
	maxc := 0
	for _, n := range nch {
		if n > maxc {
			maxc = n
		}
	}
	w.psize = maxc * w.unit * CS
	np := len(nch)
	// the last chunk of the torrent is short
	w.length = int64(np-1)*int64(w.psize) + int64(nch[np-1]*w.unit*CS) - 1000
	w.ps = &piece.Pieces{}
	w.ps.MetadataComplete(uint32(w.psize), w.length)
	w.hashes = content.PieceHashes(seed, w.length, int64(w.psize))
	w.threads = map[string]*thread{}
	for _, n := range names {
		w.threads[n] = &thread{name: n, pc: "idle", ret: Ret{Err: "-"}, op: Op{K: "-", Q: "-", Sh: "-"}}
	}
	w.base = alloc.Bytes()
	return w
}

func (w *world) viol(prop, key, what string) {
	if len(w.out.Violations) < 20 {
		w.out.Violations = append(w.out.Violations, Viol{prop, key, what, w.stepNo})
	}
}

func (w *world) nonconf(format string, a ...any) {
	if len(w.out.Nonconf) < 20 {
		w.out.Nonconf = append(w.out.Nonconf, fmt.Sprintf("step %d: ", w.stepNo)+fmt.Sprintf(format, a...))
	}
}

func (w *world) block(i, c, n int, q string) []byte {
	lo, _ := w.chunkRange(i, c)
	// the in-piece part has the exact length, anything beyond the end of
	// the piece is filler of full chunk size
	total := 0
	for k := c; k < c+n; k++ {
		if k < w.nch[i] {
			l, h := w.chunkRange(i, k)
			total += h - l
		} else {
			total += w.unit * CS
		}
	}
	data := content.Range(w.seed, w.off(i)+int64(lo), total)
	if q == "bad" {
		for o := 0; o < total; o += CS {
			data[o] ^= 0xff
		}
	}
	return data
}

func errClass(err error) string {
	switch {
	case err == nil:
		return "-"
	case err == piece.ErrDeleted:
		return "deleted"
	case err == piece.ErrHashMismatch:
		return "mismatch"
	case err.Error() == "adding data at odd offset":
		return "odd"
	case err.Error() == "adding data beyond end of piece":
		return "beyond"
	case err == syscall.ENOMEM || strings.Contains(err.Error(), "cannot allocate memory"):
		return "nomem"
	}
	return "other:" + err.Error()
}

// exec runs one operation on the real store; it is called on the
// operation's own goroutine.
func (w *world) exec(th *thread) Ret {
	o := th.op
	r := Ret{Err: "-"}
	switch o.K {
	case "add":
		var begin uint32
		var data []byte
		switch o.Sh {
		case "ok", "nomem":
			lo, _ := w.chunkRange(o.I, o.C)
			begin = uint32(lo)
			data = w.block(o.I, o.C, o.N, o.Q)
		case "odd":
			begin = 1
			data = content.Range(w.seed, w.off(o.I)+1, CS)
		case "beyond":
			begin = uint32(w.nch[o.I] * w.unit * CS)
			data = content.Range(w.seed, w.off(o.I), CS)
		case "short":
			l := w.plen(o.I)
			if l > CS {
				l = CS
			}
			data = content.Range(w.seed, w.off(o.I), l-1)
		}
		n, complete, err := w.ps.AddData(uint32(o.I), begin, data, 7)
		r.Err = errClass(err)
		r.B = complete
		// the model counts abstract chunks consumed
		r.N = -1
		if o.Sh == "ok" || o.Sh == "nomem" {
			want := 0
			cnt := 0
			for k := o.C; k < o.C+o.N && k < w.nch[o.I]; k++ {
				l, h := w.chunkRange(o.I, k)
				want += h - l
				cnt++
				if int(n) == want {
					r.N = cnt
				}
			}
			if n == 0 {
				r.N = 0
			}
		} else if n == 0 {
			r.N = 0
		}
	case "fin":
		h := w.hashes[o.I]
		if o.Q == "wrong" {
			h = append([]byte{}, h...)
			h[0] ^= 1
		}
		done, _, err := w.ps.Finalise(uint32(o.I), hash.Hash(h))
		r.B = done
		r.Err = errClass(err)
	case "exp":
		th.cb = nil
		n := w.ps.Expire(int64(o.N)*int64(w.psize), w.avail, func(index uint32) {
			th.cb = append(th.cb, int(index))
		})
		r.N = n
		r.Cb = th.cb
	case "del":
		w.ps.Del()
	case "read":
		if o.I >= len(w.nch) {
			buf := make([]byte, 16)
			n, err := w.ps.ReadAt(buf, w.length)
			r.N = n
			if err != nil && err.Error() == "EOF" {
				r.Err = "eof"
			} else {
				r.Err = errClass(err)
			}
			break
		}
		lo, _ := w.chunkRange(o.I, o.C)
		buf := make([]byte, w.plen(o.I)-lo)
		n, err := w.ps.ReadAt(buf, w.off(o.I)+int64(lo))
		r.Err = errClass(err)
		r.N, r.Qs = w.classify(o.I, o.C, lo, buf[:n])
		if n > 0 && n != len(buf) {
			r.N = -n
		}
	case "touch":
		mono.VerifAdvance(time.Second)
		r.B = w.ps.UpdateTime(uint32(o.I))
	case "age":
		mono.VerifAdvance(8000 * time.Second)
	}
	return r
}

// classify turns bytes read from piece i starting at abstract chunk c into
// (number of abstract chunks, set of content classes).
func (w *world) classify(i, c, lo int, p []byte) (int, []string) {
	if len(p) == 0 {
		return 0, []string{}
	}
	good, bad := false, false
	n := 0
	for k := c; k < w.nch[i]; k++ {
		l, h := w.chunkRange(i, k)
		if l-lo >= len(p) {
			break
		}
		end := h - lo
		if end > len(p) {
			end = len(p)
		}
		if content.Equal(w.seed, w.off(i)+int64(l), p[l-lo:end]) {
			good = true
		} else {
			bad = true
		}
		n++
	}
	qs := []string{}
	if bad {
		qs = append(qs, "bad")
	}
	if good {
		qs = append(qs, "good")
	}
	return n, qs
}

// run releases thread th until its next yield point or its return.
// noMem lowers the address-space limit of the process to what it uses now, so
// that the next anonymous mapping (a piece buffer of 128 KiB or more) is
// refused by the kernel; the returned function restores the limit.
func noMem() func() {
	var old syscall.Rlimit
	if syscall.Getrlimit(syscall.RLIMIT_AS, &old) != nil {
		return func() {}
	}
	b, err := os.ReadFile("/proc/self/statm")
	if err != nil {
		return func() {}
	}
	var pages uint64
	fmt.Sscanf(string(b), "%d", &pages)
	lim := old
	lim.Cur = pages*uint64(os.Getpagesize()) + 32<<10
	if syscall.Setrlimit(syscall.RLIMIT_AS, &lim) != nil {
		return func() {}
	}
	return func() { syscall.Setrlimit(syscall.RLIMIT_AS, &old) }
}

func (w *world) run(th *thread) bool {
	current = th
	if th.op.K == "add" && th.op.Sh == "nomem" && th.pc == "AddCrit" && w.psize >= 128<<10 {
		// the allocation this step may need is refused
		defer noMem()()
	}
	th.resume <- struct{}{}
	select {
	case st := <-th.status:
		current = nil
		if st.done {
			th.pc = "done"
			th.ret = st.ret
			th.live = false
		} else {
			pc, ok := pcOf[st.point]
			if !ok {
				w.nonconf("unknown yield point %q", st.point)
				return false
			}
			th.pc = pc
			th.index = st.index
		}
		return true
	case <-time.After(10 * time.Second):
		buf := make([]byte, 1<<16)
		n := runtime.Stack(buf, true)
		w.hangDump = string(buf[:n])
		return false
	}
}

func (w *world) begin(th *thread, o Op) bool {
	th.op = o
	th.resume = make(chan struct{})
	th.status = make(chan status)
	th.live = true
	go func() {
		<-th.resume
		r := w.exec(th)
		th.status <- status{done: true, ret: r}
	}()
	return w.run(th)
}

// ---------------------------------------------------------------------------
// observation

func (w *world) observe() State {
	deleted, count, ps := w.ps.VerifSnapshot()
	s := State{
		Pstate: map[string]string{}, Hasbuf: map[string]bool{}, Cont: map[string]map[string]string{},
		Deleted: deleted, Count: count, Pc: map[string]string{}, Op: map[string]Op{}, Ret: map[string]Ret{},
		Rank: append([]int{}, w.rank...), Nold: w.nold,
	}
	var bufTotal int64
	nbuf := 0
	for i, p := range ps {
		k := strconv.Itoa(i)
		switch p.State {
		case 0:
			s.Pstate[k] = "none"
		case 1:
			s.Pstate[k] = "complete"
		case 2:
			s.Pstate[k] = "busy"
		default:
			s.Pstate[k] = fmt.Sprintf("state%d", p.State)
		}
		s.Hasbuf[k] = p.HasData
		if p.HasData {
			bufTotal += int64(p.DataLen)
			nbuf++
			if p.DataLen != w.plen(i) {
				w.viol("C03", "buffer-size", fmt.Sprintf("piece %d has a buffer of %d bytes, piece length %d", i, p.DataLen, w.plen(i)))
			}
		}
		data := w.ps.VerifData(uint32(i))
		cm := map[string]string{}
		for c := 0; c < w.nch[i]; c++ {
			lo, hi := w.chunkRange(i, c)
			set, unset := 0, 0
			for rc := lo / CS; rc*CS < hi; rc++ {
				if rc < len(p.Bits) && p.Bits[rc] {
					set++
				} else {
					unset++
				}
			}
			cls := "none"
			if set > 0 && unset > 0 {
				cls = "mixed"
			} else if set > 0 {
				if data != nil && hi <= len(data) && content.Equal(w.seed, w.off(i)+int64(lo), data[lo:hi]) {
					cls = "good"
				} else {
					cls = "bad"
				}
			}
			cm[strconv.Itoa(c)] = cls
		}
		s.Cont[k] = cm

		// C01 probe: what a reader or an uploading peer would get now
		for c := 0; c < w.nch[i]; c++ {
			lo, hi := w.chunkRange(i, c)
			buf := make([]byte, hi-lo)
			n, _ := w.ps.ReadAt(buf, w.off(i)+int64(lo))
			if n > 0 {
				if p.State != 1 {
					w.viol("C01", "read-noncomplete", fmt.Sprintf("ReadAt returned %d bytes of piece %d which is not complete (state %s)", n, i, s.Pstate[k]))
				}
				if !content.Equal(w.seed, w.off(i)+int64(lo), buf[:n]) {
					w.viol("C01", "read-wrong-bytes", fmt.Sprintf("ReadAt returned bytes of piece %d chunk %d that are not the torrent's content at that offset", i, c))
				}
				if w.delDone {
					w.viol("C01", "read-after-del", fmt.Sprintf("ReadAt returned data of piece %d after Del() returned", i))
				}
			}
		}
	}
	// C03 accounting, real vs real
	if got := alloc.Bytes() - w.base; got != bufTotal {
		w.viol("C03", "alloc-accounting", fmt.Sprintf("alloc.Bytes() reports %d bytes, the pieces hold buffers of %d bytes in total", got, bufTotal))
	}
	if count != nbuf {
		w.viol("C03", "count-accounting", fmt.Sprintf("Count() = %d but %d pieces hold a buffer", count, nbuf))
	}
	if w.delDone && nbuf > 0 {
		w.viol("C03", "held-after-del", fmt.Sprintf("%d pieces hold a buffer after Del() returned", nbuf))
	}
	for _, n := range w.names {
		th := w.threads[n]
		s.Pc[n] = th.pc
		s.Op[n] = th.op
		r := th.ret
		if r.Qs == nil {
			r.Qs = []string{}
		}
		if r.Ev == nil {
			r.Ev = []int{}
		}
		if r.Cb == nil {
			r.Cb = []int{}
		}
		s.Ret[n] = r
	}
	return s
}

func sortedCopy(a []string) []string {
	b := append([]string{}, a...)
	sort.Strings(b)
	return b
}

func eqInts(a, b []int) bool {
	if len(a) != len(b) {
		return false
	}
	for i := range a {
		if a[i] != b[i] {
			return false
		}
	}
	return true
}

func eqStrs(a, b []string) bool {
	a, b = sortedCopy(a), sortedCopy(b)
	if len(a) != len(b) {
		return false
	}
	for i := range a {
		if a[i] != b[i] {
			return false
		}
	}
	return true
}

// compare checks the observed state against the state the specification
// predicts.  Property observables give violations, the rest is conformance.
func (w *world) compare(obs, exp State) {
	for i := range w.nch {
		k := strconv.Itoa(i)
		if obs.Pstate[k] != exp.Pstate[k] {
			w.nonconf("piece %d state %s, specification %s", i, obs.Pstate[k], exp.Pstate[k])
		}
		if obs.Hasbuf[k] != exp.Hasbuf[k] {
			w.nonconf("piece %d hasbuf %v, specification %v", i, obs.Hasbuf[k], exp.Hasbuf[k])
		}
		for c := 0; c < w.nch[i]; c++ {
			ck := strconv.Itoa(c)
			if obs.Cont[k][ck] != exp.Cont[k][ck] {
				w.nonconf("piece %d chunk %d holds %s, specification %s", i, c, obs.Cont[k][ck], exp.Cont[k][ck])
			}
		}
	}
	if obs.Deleted != exp.Deleted {
		w.nonconf("deleted %v, specification %v", obs.Deleted, exp.Deleted)
	}
	if obs.Count != exp.Count {
		w.nonconf("count %d, specification %d", obs.Count, exp.Count)
	}
	for _, n := range w.names {
		if obs.Pc[n] != exp.Pc[n] {
			w.nonconf("thread %s at %s, specification %s", n, obs.Pc[n], exp.Pc[n])
		}
		if obs.Pc[n] == "done" && exp.Pc[n] == "done" {
			or, er := obs.Ret[n], exp.Ret[n]
			o := obs.Op[n]
			if o.K == "exp" {
				// which pieces were evicted and reported is what C03 is about
				if len(w.out.Nonconf) > 0 {
					// the run has left the specification's behaviour: its expectations no longer apply
					continue
				}
				if !eqInts(or.Ev, er.Ev) {
					w.viol("C03", "expire-order", fmt.Sprintf("eviction pass (target %d pieces) evicted %v, least-recently-used order requires %v", o.N, or.Ev, er.Ev))
				}
				if !eqInts(or.Cb, er.Cb) {
					w.viol("C03", "expire-callback", fmt.Sprintf("eviction pass reported %v as dropped complete pieces, expected %v", or.Cb, er.Cb))
				}
				if or.N != er.N {
					w.nonconf("Expire returned %d, specification %d", or.N, er.N)
				}
				continue
			}
			if or.N != er.N || or.B != er.B || or.Err != er.Err || !eqStrs(or.Qs, er.Qs) {
				w.nonconf("thread %s op %v returned %+v, specification %+v", n, o, or, er)
			}
		}
	}
}

// ---------------------------------------------------------------------------
// set-up of the initial condition with the real API (ungated)

func (w *world) setup(init State) error {
	np := len(w.nch)
	for i := 0; i < np; i++ {
		k := strconv.Itoa(i)
		full := true
		any := false
		for c := 0; c < w.nch[i]; c++ {
			cls := init.Cont[k][strconv.Itoa(c)]
			if cls == "none" {
				full = false
				continue
			}
			any = true
			lo, _ := w.chunkRange(i, c)
			_, _, err := w.ps.AddData(uint32(i), uint32(lo), w.block(i, c, 1, cls), 7)
			if err != nil {
				return fmt.Errorf("setup AddData: %v", err)
			}
		}
		if init.Hasbuf[k] && !any {
			// allocated but empty: a block shorter than a chunk
			l := w.plen(i)
			if l > CS {
				l = CS
			}
			w.ps.AddData(uint32(i), 0, content.Range(w.seed, w.off(i), l-1), 7)
		}
		if init.Pstate[k] == "complete" {
			if !full {
				return fmt.Errorf("setup: complete but not full")
			}
			done, _, err := w.ps.Finalise(uint32(i), hash.Hash(w.hashes[i]))
			if !done || err != nil {
				return fmt.Errorf("setup Finalise: %v %v", done, err)
			}
		}
	}
	// distinct access times, oldest first in rank order; the first Nold
	// pieces were last accessed more than two hours ago
	if init.Nold > 0 {
		mono.VerifAdvance(9000 * time.Second)
	}
	now := mono.Now()
	for pos, i := range init.Rank {
		age := len(init.Rank) - pos
		if pos < init.Nold {
			age += 8000
		}
		w.ps.VerifSetTime(uint32(i), now-mono.Time(age))
	}
	mono.VerifAdvance(time.Second)
	w.rank = append([]int{}, init.Rank...)
	w.nold = init.Nold
	return nil
}

func (w *world) noteOp(o Op, done bool) {
	switch o.K {
	case "touch":
		pos := -1
		for k, i := range w.rank {
			if i == o.I {
				pos = k
			}
		}
		if pos >= 0 {
			if pos < w.nold {
				w.nold--
			}
			w.rank = append(append(w.rank[:pos:pos], w.rank[pos+1:]...), o.I)
		}
	case "age":
		w.nold = len(w.nch)
	}
}

func nchOf(s State) []int {
	n := make([]int, len(s.Cont))
	for k, v := range s.Cont {
		i, _ := strconv.Atoi(k)
		n[i] = len(v)
	}
	return n
}

func threadNames(s State) []string {
	var names []string
	for n := range s.Pc {
		names = append(names, n)
	}
	sort.Strings(names)
	return names
}

// stepThread performs the action named lab on the real code.
func (w *world) stepThread(lab Label, o *Op) bool {
	th := w.threads[lab.T]
	if th == nil {
		w.nonconf("unknown thread %q", lab.T)
		return false
	}
	beginActs := map[string]string{"AddBegin": "add", "FinBegin": "fin", "ExpBegin": "exp", "DelBegin": "del",
		"Read": "read", "Touch": "touch", "Age": "age"}
	if kind, ok := beginActs[lab.A]; ok {
		if o == nil || o.K != kind || th.pc != "idle" {
			w.nonconf("cannot begin %s on thread %s (pc %s)", lab.A, lab.T, th.pc)
			return false
		}
		evBefore := w.hasbufs()
		ok := w.begin(th, *o)
		if ok {
			w.noteOp(*o, th.pc == "done")
			w.noteEvictions(th, evBefore)
			if o.K == "del" && th.pc == "done" {
				w.delDone = true
			}
		}
		return ok
	}
	want := map[string]string{"AddCrit": "AddCrit", "FinLock": "FinLock", "FinHash": "FinHash", "FinCommit": "FinCommit",
		"ExpBytes": "ExpBytes", "ExpOne": "ExpOne", "DelWake": "DelWait", "DelRelock": "DelRelock"}[lab.A]
	if want == "" || th.pc != want || !th.live {
		w.nonconf("action %s not possible: thread %s is at %s", lab.A, lab.T, th.pc)
		return false
	}
	if lab.A == "DelWake" && w.ps.Complete(th.index) == false {
		// releasing the spin loop while the piece is busy would only spin
		_, _, ps := w.ps.VerifSnapshot()
		if ps[th.index].State == 2 {
			w.nonconf("DelWake: piece %d still busy in the implementation", th.index)
			return false
		}
	}
	evBefore := w.hasbufs()
	ok := w.run(th)
	if ok {
		w.noteEvictions(th, evBefore)
		if th.op.K == "del" && th.pc == "done" {
			w.delDone = true
		}
	}
	return ok
}

func (w *world) hasbufs() []bool {
	_, _, ps := w.ps.VerifSnapshot()
	b := make([]bool, len(ps))
	for i := range ps {
		b[i] = ps[i].HasData
	}
	return b
}

// noteEvictions records which pieces lost their buffer during a step of an
// eviction pass (Expire only reports a count).
func (w *world) noteEvictions(th *thread, before []bool) {
	if th.op.K != "exp" {
		return
	}
	after := w.hasbufs()
	for i := range before {
		if before[i] && !after[i] {
			th.ev = append(th.ev, i)
		}
	}
	if th.pc == "done" {
		th.ret.Ev = th.ev
		th.ev = nil
	}
}

// drain lets every still-parked goroutine run to completion so that the
// worker can be reused for the next scenario.
func (w *world) drain() {
	for round := 0; round < 200; round++ {
		progress := false
		for _, n := range w.names {
			th := w.threads[n]
			if !th.live {
				continue
			}
			if th.pc == "DelWait" {
				_, _, ps := w.ps.VerifSnapshot()
				if ps[th.index].State == 2 {
					continue
				}
			}
			if !w.run(th) {
				return
			}
			progress = true
		}
		if !progress {
			break
		}
	}
	w.ps.Del()
}

// Replay is the worker-side handler.
func Replay(in []byte) any {
	var sc Scenario
	if err := json.Unmarshal(in, &sc); err != nil {
		return Out{Note: "bad scenario: " + err.Error()}
	}
	if sc.Random != nil {
		return randomRun(&sc)
	}
	if sc.Stress != nil {
		return stressRun(&sc)
	}
	if sc.Far {
		return farRun(&sc)
	}
	out := &Out{ID: sc.ID}
	nch := nchOf(sc.Init)
	names := threadNames(sc.Init)
	piece.VerifYield = yield
	w := newWorld(nch, sc.Geom, uint64(sc.ID)*7919+1, names)
	w.out = out
	w.avail = availFor(len(nch))
	if err := w.setup(sc.Init); err != nil {
		out.Note = err.Error()
		return out
	}
	obs := w.observe()
	w.compare(obs, sc.Init)
	out.Events = append(out.Events, Event{T: "-", A: "reset", S: obs})
	if len(out.Nonconf) > 0 {
		out.Note = "initial condition could not be established"
		w.drain()
		return out
	}
	for k, st := range sc.Steps {
		w.stepNo = k + 1
		var o *Op
		if op, ok := st.S.Op[st.A.T]; ok {
			o = &op
		}
		ok := w.stepThread(st.A, o)
		if w.hangDump != "" {
			fmt.Fprintf(os.Stderr, "HANG in scenario %d step %d (%s %s)\n%s\n", sc.ID, k+1, st.A.T, st.A.A, w.hangDump)
			// the goroutine is stuck inside the store: let the parent see a hang
			select {}
		}
		if !ok {
			break
		}
		obs := w.observe()
		ev := Event{T: st.A.T, A: st.A.A, S: obs}
		if o != nil && w.threads[st.A.T].op == *o {
			ev.Op = o
		}
		out.Events = append(out.Events, ev)
		w.compare(obs, st.S)
		out.StepsDone = k + 1
		if len(out.Nonconf) > 0 {
			// The run has left the specification's behaviour.  Where the specification says an operation has
			// returned while the real one is parked at a yield point, the real one is let run on (the closest real
			// schedule), and the store is looked at again.
			for _, n := range w.names {
				th := w.threads[n]
				if st.S.Pc[n] != "done" || !th.live || th.pc == "done" || th.pc == "idle" {
					continue
				}
				for r := 0; r < 8 && th.live && th.pc != "done" && th.pc != "DelWait"; r++ {
					if !w.run(th) {
						break
					}
				}
				if th.op.K == "del" && th.pc == "done" {
					w.delDone = true
				}
				w.observe()
			}
		}
		// A difference with the specification's state is reported (once) and the schedule is played on as long as
		// it can be driven: what the properties forbid is decided on the real store's state after every step.
		if len(out.Violations) > 0 {
			break
		}
	}
	w.drain()
	if left := alloc.Bytes() - w.base; left != 0 && len(out.Violations) == 0 && len(out.Nonconf) == 0 {
		w.viol("C03", "leak-after-del", fmt.Sprintf("%d bytes still accounted after every operation returned and Del() was called", left))
	}
	return out
}

func availFor(np int) []uint16 {
	// must equal MCAvail2 / MCAvail3 of MCPieceStore.tla
	if np == 2 {
		return []uint16{1, 0}
	}
	a := make([]uint16, np)
	for i := range a {
		if i%2 == 1 {
			a[i] = 1
		}
	}
	return a
}

var _ = rand.Int

// farRun: one store that holds more than 4 GiB (260 mapped pieces of 16 MiB; only one block of each is touched, so
// little memory is really used).  C03 at that size: what the store reports equals what the allocator counts, an
// eviction pass brings it down to its target, deletion gives everything back.
func farRun(sc *Scenario) any {
	out := &Out{ID: sc.ID}
	viol := func(key, what string) {
		out.Violations = append(out.Violations, Viol{"C03", key, what, 0})
	}
	const psize = 16 << 20
	const np = 260
	base := alloc.Bytes()
	ps := &piece.Pieces{}
	ps.MetadataComplete(psize, int64(np)*psize)
	blk := content.Range(uint64(sc.ID)+3, 0, CS)
	for i := 0; i < np; i++ {
		if _, _, err := ps.AddData(uint32(i), 0, blk, 1); err != nil {
			// the machine does not give us that much address space: no verdict from this scenario
			out.Nonconf = append(out.Nonconf, fmt.Sprintf("far store not established: AddData(%d): %v", i, err))
			ps.Del()
			return out
		}
	}
	held := alloc.Bytes() - base
	if held != int64(np)*psize {
		out.Note = fmt.Sprintf("the allocator counts %d bytes for %d pieces of %d", held, np, psize)
		ps.Del()
		return out
	}
	if got := ps.Bytes(); got != held {
		viol("store-accounting", fmt.Sprintf("the store reports %d bytes while it holds %d pieces of %d bytes (%d bytes, as the allocator counts)", got, np, psize, held))
	}
	target := int64(64) * psize
	var dropped int
	ps.Expire(target, nil, func(uint32) { dropped++ })
	if left := alloc.Bytes() - base; left > target {
		viol("not-down-to-low-mark", fmt.Sprintf("an eviction pass with a target of %d bytes left %d bytes allocated (the store held %d)", target, left, held))
	}
	if got, left := ps.Bytes(), alloc.Bytes()-base; got != left {
		viol("store-accounting", fmt.Sprintf("after the eviction pass the store reports %d bytes, the allocator counts %d", got, left))
	}
	ps.Del()
	if left := alloc.Bytes() - base; left != 0 {
		viol("leak-after-del", fmt.Sprintf("%d bytes still accounted after Del()", left))
	}
	return out
}
