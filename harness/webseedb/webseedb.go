// Package webseedb binds spec/Webseed.tla (C14) to tor.fileChunks, the
// web-seed writer (tor.NewWriter), webseed.GetRight.Get against a local
// scripted HTTP server, and the full fetch path (maybeWebseed) of a running
// torrent.
package webseedb

import (
	"bytes"
	"context"
	"encoding/json"
	"fmt"
	"io"
	"net"
	"net/http"
	"runtime"
	"strconv"
	"strings"
	"sync"
	"time"

	"github.com/jech/storrent/config"
	"github.com/jech/storrent/peer"
	"github.com/jech/storrent/tor"
	"github.com/jech/storrent/webseed"

	"verifharness/internal/content"
	"verifharness/internal/mktor"
)

const CS = 16384
const U = 8192 // the unit of Webseed.tla

type Chunk struct {
	F   int   `json:"f"`
	Off int64 `json:"off"`
	Len int64 `json:"len"`
}

type Case struct {
	Kind string `json:"kind"` // "files", "writer", "get", "full"
	ID   int    `json:"id"`
	// files
	Lens   []int64 `json:"lens"`
	O      int64   `json:"o"`
	L      int64   `json:"l"`
	Chunks []Chunk `json:"chunks"`
	Pads   []bool  `json:"pads"`
	// writer
	RLen   int64  `json:"rlen"`   // bytes of the writer's range
	Begin  int64  `json:"begin"`  // offset in the piece
	Segs   []int  `json:"segs"`   // sizes of the successive Write / read segments
	Via    string `json:"via"`    // "write" / "readfrom"
	Extra  int    `json:"extra"`  // bytes the stream carries beyond the range
	BusyAt int    `json:"busyat"` // segment before which the piece becomes complete (-1: never)
	// get
	Server string `json:"server"` // behaviour class
	Off    int64  `json:"off"`
	Len    int64  `json:"len"`
	FLen   int64  `json:"flen"`
	// full
	Layout string `json:"layout"`
}

type Viol struct {
	Prop string `json:"prop"`
	Key  string `json:"key"`
	What string `json:"what"`
}

type Out struct {
	ID         int      `json:"id"`
	Violations []Viol   `json:"violations,omitempty"`
	Nonconf    []string `json:"nonconf,omitempty"`
	Observed   string   `json:"observed,omitempty"`
	Note       string   `json:"note,omitempty"`
}

func (o *Out) viol(key, what string) {
	if len(o.Violations) < 8 {
		o.Violations = append(o.Violations, Viol{"C14", key, what})
	}
}

func (o *Out) violp(prop, key, what string) {
	o.Violations = append(o.Violations, Viol{prop, key, what})
}

// ---------------------------------------------------------------------------
// part 1: fileChunks

func runFiles(c *Case, out *Out) {
	var files []mktor.File
	for k, l := range c.Lens {
		pad := k < len(c.Pads) && c.Pads[k]
		files = append(files, mktor.File{Path: []string{"d", fmt.Sprintf("f%d", k)}, Length: l * U, Pad: pad})
	}
	t, err := mktor.New(mktor.Spec{Name: "fc", PieceLen: 4 * U, Files: files, Seed: uint64(c.ID)}, "")
	if err != nil {
		out.Note = "torrent: " + err.Error()
		return
	}
	o, l := c.O*U, c.L*U
	index, offset := uint32(o/(4*U)), uint32(o%(4*U))
	var got []tor.VerifFileChunk
	func() {
		defer func() {
			if p := recover(); p != nil {
				out.viol("filechunks-panic", fmt.Sprintf("fileChunks panicked: %v (files %v range %d+%d)", p, c.Lens, o, l))
			}
		}()
		got = tor.VerifFileChunks(t, index, offset, uint32(l))
	}()
	desc := fmt.Sprintf("files of %v units of 8 KiB, range [%d, +%d)", c.Lens, o, l)
	// model-free: the chunks tile the range exactly once, in file order, inside their files
	pos := o
	for _, g := range got {
		k := -1
		for j := range files {
			if strings.Join(files[j].Path, "/") == strings.Join(g.Path, "/") {
				k = j
			}
		}
		if k < 0 {
			out.viol("filechunks-unknown-file", fmt.Sprintf("chunk names an unknown file %v (%s)", g.Path, desc))
			return
		}
		var fo int64
		for j := 0; j < k; j++ {
			fo += files[j].Length
		}
		if g.Length <= 0 || g.Offset < 0 || g.Offset+g.Length > files[k].Length || fo+g.Offset != pos || g.FileLength != files[k].Length {
			out.viol("filechunks-mapping", fmt.Sprintf("chunk (file %d, offset %d, length %d) does not continue the range at torrent offset %d (%s)", k, g.Offset, g.Length, pos, desc))
			return
		}
		pos += g.Length
	}
	if pos != o+l {
		out.viol("filechunks-coverage", fmt.Sprintf("the chunks cover [%d, %d), the range ends at %d (%s)", o, pos, o+l, desc))
	}
	// conformance with the specification's sequence
	if len(got) != len(c.Chunks) {
		out.Nonconf = append(out.Nonconf, fmt.Sprintf("%s: %d chunks, specification %d", desc, len(got), len(c.Chunks)))
	}
}

// runFarFiles: the same model-free tiling oracle on a torrent longer than
// 4 GiB (two files: 4 GiB + 512 KiB, then 3 MiB; pieces of 1 MiB), for pieces
// on both sides of offset 2^32.
func runFarFiles(c *Case, out *Out) {
	const ps = 1 << 20
	files := []mktor.File{{Path: []string{"d", "big"}, Length: 1<<32 + 512*1024}, {Path: []string{"d", "tail"}, Length: 3 << 20}}
	t, err := mktor.New(mktor.Spec{Name: "far", PieceLen: ps, Files: files, Seed: uint64(c.ID), HashOnly: []int{}}, "")
	if err != nil {
		out.Note = "torrent: " + err.Error()
		return
	}
	total := files[0].Length + files[1].Length
	for _, rg := range [][3]int64{{0, 0, ps}, {4095, 0, ps}, {4096, 0, ps}, {4096, 16384, 32768}, {4096, 512*1024 - 16384, 65536}, {4097, 0, ps}, {4098, 0, ps}, {4098, ps - 16384, 16384}} {
		index, offset, l := uint32(rg[0]), uint32(rg[1]), rg[2]
		o := int64(index)*ps + int64(offset)
		if o+l > total {
			l = total - o
		}
		var got []tor.VerifFileChunk
		func() {
			defer func() {
				if p := recover(); p != nil {
					out.viol("filechunks-panic", fmt.Sprintf("fileChunks panicked: %v (piece %d offset %d length %d of a torrent of %d bytes)", p, index, offset, l, total))
				}
			}()
			got = tor.VerifFileChunks(t, index, offset, uint32(l))
		}()
		desc := fmt.Sprintf("files of 2^32+512 KiB and 3 MiB, piece %d offset %d length %d (torrent offset 2^32%+d)", index, offset, l, o-(1<<32))
		pos := o
		for _, g := range got {
			k := 0
			if strings.Join(g.Path, "/") == "d/tail" {
				k = 1
			}
			fo := int64(k) * files[0].Length
			if g.Length <= 0 || g.Offset < 0 || g.Offset+g.Length > files[k].Length || fo+g.Offset != pos || g.FileLength != files[k].Length {
				out.viol("filechunks-mapping", fmt.Sprintf("chunk (file %d, offset %d, length %d) does not continue the range at torrent offset %d (%s)", k, g.Offset, g.Length, pos, desc))
				return
			}
			pos += g.Length
		}
		if pos != o+l {
			out.viol("filechunks-coverage", fmt.Sprintf("the chunks cover [%d, %d), the range ends at %d (%s)", o, pos, o+l, desc))
		}
	}
}

// ---------------------------------------------------------------------------
// part 2: the writer

type segReader struct {
	data []byte
	segs []int
	k    int
	pos  int
}

func (r *segReader) Read(p []byte) (int, error) {
	if r.pos >= len(r.data) {
		return 0, io.EOF
	}
	n := len(r.data) - r.pos
	if r.k < len(r.segs) && r.segs[r.k] < n {
		n = r.segs[r.k]
	}
	r.k++
	if n > len(p) {
		n = len(p)
	}
	copy(p, r.data[r.pos:r.pos+n])
	r.pos += n
	return n, nil
}

func runWriter(c *Case, out *Out) {
	seed := uint64(c.ID)*3 + 1
	psize := int64(8 * CS)
	length := 2*psize - 3000 // the last block of piece 1 is short
	t, err := mktor.New(mktor.Spec{Name: "wr", PieceLen: psize, Length: length, Seed: seed}, "")
	if err != nil {
		out.Note = err.Error()
		return
	}
	t.Event = make(chan peer.TorEvent, 4096)
	t.Done = make(chan struct{})
	index := uint32(1)
	begin := c.Begin
	rlen := c.RLen
	if begin+rlen > length-psize {
		rlen = length - psize - begin
	}
	desc := fmt.Sprintf("writer for piece 1 [%d, +%d) fed %v via %s with %d extra bytes", begin, rlen, c.Segs, c.Via, c.Extra)
	w := tor.NewWriter(t, index, uint32(begin), uint32(rlen))
	base := int64(index)*psize + begin
	stream := content.Range(seed, base, int(rlen)+c.Extra)
	busyDone := false
	makeBusy := func() {
		// the piece becomes complete through other channels
		for b := int64(0); b < length-psize; b += CS {
			l := length - psize - b
			if l > CS {
				l = CS
			}
			t.Pieces.AddData(index, uint32(b), content.Range(seed, int64(index)*psize+b, int(l)), 1)
		}
		busyDone = true
	}
	func() {
		defer func() {
			if p := recover(); p != nil {
				out.viol("writer-panic", fmt.Sprintf("the writer panicked: %v (%s)", p, desc))
			}
		}()
		if c.Via == "write" {
			pos := 0
			for k, n := range c.Segs {
				if k == c.BusyAt {
					makeBusy()
				}
				if pos >= len(stream) {
					break
				}
				if pos+n > len(stream) {
					n = len(stream) - pos
				}
				m, _ := w.Write(stream[pos : pos+n])
				if m < 0 || m > n {
					out.viol("writer-count", fmt.Sprintf("Write of %d bytes returned %d (%s)", n, m, desc))
				}
				pos += n
			}
		} else {
			if c.BusyAt == 0 {
				makeBusy()
			}
			w.ReadFrom(&segReader{data: stream, segs: c.Segs})
		}
		w.Close()
	}()
	if len(out.Violations) > 0 {
		return
	}
	// what was reported
	var data, drop int64
	for {
		select {
		case e := <-t.Event:
			switch x := e.(type) {
			case peer.TorData:
				data += int64(x.Length)
				if x.Index != index || int64(x.Begin) < begin || int64(x.Begin)+int64(x.Length) > begin+rlen {
					out.viol("writer-report-outside-range", fmt.Sprintf("TorData{%d, %d, %d} outside the range (%s)", x.Index, x.Begin, x.Length, desc))
				}
			case peer.TorDrop:
				drop += int64(x.Length)
			}
			continue
		default:
		}
		break
	}
	if data+drop != rlen {
		out.viol("writer-release", fmt.Sprintf("%d bytes reported stored + %d dropped, %d were reserved (%s)", data, drop, rlen, desc))
	}
	// what is in the store: inside the range the right bytes, outside nothing (unless we put it there)
	_, _, ps := t.Pieces.VerifSnapshot()
	buf := t.Pieces.VerifData(index)
	for b := 0; b < ps[index].Chunks; b++ {
		lo := int64(b) * CS
		hi := lo + CS
		if hi > length-psize {
			hi = length - psize
		}
		if !ps[index].Bits[b] {
			continue
		}
		inRange := lo >= begin && hi <= begin+rlen
		if !inRange && !busyDone {
			out.viol("writer-beyond-range", fmt.Sprintf("block %d of the piece, outside the writer's range, was stored (%s)", b, desc))
			continue
		}
		if !content.Equal(seed, int64(index)*psize+lo, buf[lo:hi]) {
			out.viol("writer-wrong-place", fmt.Sprintf("block %d of the piece does not hold the bytes of the stream that belong there (%s)", b, desc))
		}
	}
	for b := 0; b < ps[0].Chunks; b++ {
		if ps[0].Bits[b] {
			out.viol("writer-beyond-range", "a block of another piece was stored ("+desc+")")
		}
	}
	out.Observed = fmt.Sprintf("data=%d drop=%d", data, drop)
}

// ---------------------------------------------------------------------------
// part 3: GetRight.Get against a scripted server

type recorder struct {
	bytes.Buffer
}

func serveClass(cls string, file []byte) http.HandlerFunc {
	return func(w http.ResponseWriter, r *http.Request) {
		var o, e int64
		fmt.Sscanf(r.Header.Get("Range"), "bytes=%d-%d", &o, &e)
		fl := int64(len(file))
		if e >= fl {
			e = fl - 1
		}
		body := file[o : e+1]
		cr := func(a, b, t int64) string { return fmt.Sprintf("bytes %d-%d/%d", a, b, t) }
		hj := func(raw string) {
			conn, _, _ := w.(http.Hijacker).Hijack()
			conn.Write([]byte(raw))
			conn.Close()
		}
		switch cls {
		case "honest":
			w.Header().Set("Content-Range", cr(o, e, fl))
			w.WriteHeader(206)
			w.Write(body)
		case "200-whole":
			w.WriteHeader(200)
			w.Write(file)
		case "200-nolength":
			hj("HTTP/1.1 200 OK\r\nConnection: close\r\n\r\n" + string(file))
		case "shifted":
			w.Header().Set("Content-Range", cr(o+1, e+1, fl))
			w.WriteHeader(206)
			w.Write(file[o+1 : min(e+2, fl)])
		case "malformed-range":
			w.Header().Set("Content-Range", "bytes banana")
			w.WriteHeader(206)
			w.Write(body)
		case "no-content-range":
			w.WriteHeader(206)
			w.Write(body)
		case "star-total":
			w.Header().Set("Content-Range", fmt.Sprintf("bytes %d-%d/*", o, e))
			w.WriteHeader(206)
			w.Write(body)
		case "wrong-total":
			w.Header().Set("Content-Range", cr(o, e, fl+7))
			w.WriteHeader(206)
			w.Write(body)
		case "416":
			w.Header().Set("Content-Range", fmt.Sprintf("bytes */%d", fl))
			w.WriteHeader(416)
		case "404":
			w.WriteHeader(404)
		case "500":
			w.WriteHeader(500)
			w.Write([]byte("oops"))
		case "short-range":
			// a legal 206 that covers less than was asked
			e2 := o + (e-o)/2
			w.Header().Set("Content-Range", cr(o, e2, fl))
			w.WriteHeader(206)
			w.Write(file[o : e2+1])
		case "truncated-body":
			hj(fmt.Sprintf("HTTP/1.1 206 Partial Content\r\nContent-Range: %s\r\nContent-Length: %d\r\nConnection: close\r\n\r\n", cr(o, e, fl), len(body)) + string(body[:len(body)/2]))
		case "overlong-body":
			// announces the range asked for, delivers more (no Content-Length: the body ends with the connection)
			hj(fmt.Sprintf("HTTP/1.1 206 Partial Content\r\nContent-Range: %s\r\nConnection: close\r\n\r\n", cr(o, e, fl)) + string(body) + strings.Repeat("X", 40000))
		case "long-range":
			// a 206 announcing (and delivering) more than was asked
			e2 := min(e+20000, fl-1)
			w.Header().Set("Content-Range", cr(o, e2, fl))
			w.WriteHeader(206)
			w.Write(file[o : e2+1])
		case "reset":
			hj(fmt.Sprintf("HTTP/1.1 206 Partial Content\r\nContent-Range: %s\r\nContent-Length: %d\r\n\r\n", cr(o, e, fl), len(body)) + string(body[:7]))
		}
	}
}

var mustFail = map[string]bool{"shifted": true, "malformed-range": true, "no-content-range": true, "wrong-total": true, "416": true, "404": true, "500": true}

func runGet(c *Case, out *Out) {
	seed := uint64(c.ID) + 99
	file := content.Range(seed, 0, int(c.FLen))
	ln, err := net.Listen("tcp4", "127.0.0.1:0")
	if err != nil {
		out.Note = err.Error()
		return
	}
	srv := &http.Server{Handler: serveClass(c.Server, file)}
	go srv.Serve(ln)
	defer srv.Close()
	ws := webseed.New("http://"+ln.Addr().String()+"/base/", true).(*webseed.GetRight)
	var rec recorder
	ctx, cancel := context.WithTimeout(context.Background(), 10*time.Second)
	defer cancel()
	var n int64
	func() {
		defer func() {
			if p := recover(); p != nil {
				out.viol("get-panic", fmt.Sprintf("GetRight.Get panicked: %v (server %s)", p, c.Server))
			}
		}()
		n, err = ws.Get(ctx, "", "name", []string{"f"}, c.FLen, c.Off, c.Len, &rec)
	}()
	desc := fmt.Sprintf("server behaviour %s, file of %d bytes, range [%d, +%d)", c.Server, c.FLen, c.Off, c.Len)
	got := rec.Bytes()
	out.Observed = fmt.Sprintf("n=%d err=%v delivered=%d", n, err, len(got))
	if c.Off == 0 && (c.Server == "shifted") {
		// nothing special
	}
	// C14: only bytes of the requested range, in order, never beyond it
	if int64(len(got)) > c.Len {
		out.viol("get-beyond-range", fmt.Sprintf("%d bytes were delivered to the writer for a range of %d (%s)", len(got), c.Len, desc))
	} else if c.Off+int64(len(got)) > c.FLen || !bytes.Equal(got, file[c.Off:c.Off+int64(len(got))]) {
		out.viol("get-wrong-bytes", fmt.Sprintf("the %d bytes delivered are not the first bytes of the requested range (%s)", len(got), desc))
	}
	if mustFail[c.Server] && !(c.Server == "shifted" && false) {
		if err == nil && len(got) > 0 {
			out.Nonconf = append(out.Nonconf, fmt.Sprintf("%s: accepted (%d bytes), the specification refuses", desc, len(got)))
		}
	}
	if ws.Count() != 0 {
		out.viol("get-count", "the web seed's count of running fetches is not released ("+desc+")")
	}
}

// ---------------------------------------------------------------------------
// part 3b: Hoffman.Get (BEP 17) against scripted servers.  The seed is asked
// for ?piece=N&ranges=a-b; this client sends b = a+length and accepts a body
// of exactly length bytes.

func hoffmanClass(cls string, psize int64, torrent []byte) http.HandlerFunc {
	return func(w http.ResponseWriter, r *http.Request) {
		var piece, a, b int64
		fmt.Sscanf(r.URL.Query().Get("piece"), "%d", &piece)
		fmt.Sscanf(r.URL.Query().Get("ranges"), "%d-%d", &a, &b)
		start := piece*psize + a
		n := b - a // what this client means
		if start < 0 || start >= int64(len(torrent)) {
			w.WriteHeader(404)
			return
		}
		avail := torrent[start:]
		take := func(k int64) []byte {
			if k > int64(len(avail)) {
				k = int64(len(avail))
			}
			return avail[:k]
		}
		hj := func(raw string, body []byte) {
			conn, _, _ := w.(http.Hijacker).Hijack()
			conn.Write([]byte(raw))
			conn.Write(body)
			conn.Close()
		}
		switch cls {
		case "h-exact":
			w.Header().Set("Content-Length", fmt.Sprint(n))
			w.Write(take(n))
		case "h-inclusive": // a BEP 17 server reading the range as inclusive
			w.Header().Set("Content-Length", fmt.Sprint(n+1))
			w.Write(take(n + 1))
		case "h-nolength-excess":
			hj("HTTP/1.1 200 OK\r\nConnection: close\r\n\r\n", append(append([]byte{}, take(n)...), bytes.Repeat([]byte("Z"), 40000)...))
		case "h-nolength-short":
			hj("HTTP/1.1 200 OK\r\nConnection: close\r\n\r\n", take(n/2))
		case "h-short-length":
			w.Header().Set("Content-Length", fmt.Sprint(n/2))
			w.Write(take(n / 2))
		case "h-truncated": // announces n, sends half, closes
			hj(fmt.Sprintf("HTTP/1.1 200 OK\r\nContent-Length: %d\r\nConnection: close\r\n\r\n", n), take(n/2))
		case "h-overlong": // announces n, sends more
			hj(fmt.Sprintf("HTTP/1.1 200 OK\r\nContent-Length: %d\r\nConnection: close\r\n\r\n", n), append(append([]byte{}, take(n)...), bytes.Repeat([]byte("Z"), 9000)...))
		case "h-206":
			w.Header().Set("Content-Length", fmt.Sprint(n))
			w.WriteHeader(206)
			w.Write(take(n))
		case "h-503":
			w.WriteHeader(503)
			w.Write(take(n))
		case "h-bad-length":
			hj("HTTP/1.1 200 OK\r\nContent-Length: banana\r\nConnection: close\r\n\r\n", take(n))
		case "h-reset":
			hj("", nil)
		case "h-whole-piece": // a seed that ignores "ranges" and always sends the piece, honestly announced
			whole := torrent[piece*psize:]
			if int64(len(whole)) > psize {
				whole = whole[:psize]
			}
			w.Header().Set("Content-Length", fmt.Sprint(len(whole)))
			w.Write(whole)
		case "h-whole-torrent": // ... or the whole content
			w.Header().Set("Content-Length", fmt.Sprint(len(torrent)))
			w.Write(torrent)
		default:
			w.WriteHeader(500)
		}
	}
}

func runHGet(c *Case, out *Out) {
	seed := uint64(c.ID) + 199
	const psize = 65536
	torrent := content.Range(seed, 0, int(c.FLen))
	ln, err := net.Listen("tcp4", "127.0.0.1:0")
	if err != nil {
		out.Note = err.Error()
		return
	}
	srv := &http.Server{Handler: hoffmanClass(c.Server, psize, torrent)}
	go srv.Serve(ln)
	defer srv.Close()
	ws, ok := webseed.New("http://"+ln.Addr().String()+"/seed.php", false).(*webseed.Hoffman)
	if !ok {
		out.Note = "webseed.New did not return a Hoffman seed"
		return
	}
	var rec recorder
	ctx, cancel := context.WithTimeout(context.Background(), 10*time.Second)
	defer cancel()
	index, offset := uint32(c.Off/psize), uint32(c.Off%psize)
	var n int64
	func() {
		defer func() {
			if p := recover(); p != nil {
				out.viol("get-panic", fmt.Sprintf("Hoffman.Get panicked: %v (server %s)", p, c.Server))
			}
		}()
		n, err = ws.Get(ctx, "", []byte("01234567890123456789"), index, offset, uint32(c.Len), &rec)
	}()
	desc := fmt.Sprintf("Hoffman seed, server behaviour %s, torrent of %d bytes, piece %d range [%d, +%d)", c.Server, c.FLen, index, offset, c.Len)
	got := rec.Bytes()
	out.Observed = fmt.Sprintf("n=%d err=%v delivered=%d", n, err, len(got))
	if int64(len(got)) > c.Len {
		out.viol("get-beyond-range", fmt.Sprintf("%d bytes were delivered to the writer for a range of %d (%s)", len(got), c.Len, desc))
	} else if c.Off+int64(len(got)) > c.FLen || !bytes.Equal(got, torrent[c.Off:c.Off+int64(len(got))]) {
		out.viol("get-wrong-bytes", fmt.Sprintf("the %d bytes delivered are not the first bytes of the requested range (%s)", len(got), desc))
	}
	if ws.Count() != 0 {
		out.viol("get-count", "the web seed's count of running fetches is not released ("+desc+")")
	}
}

// ---------------------------------------------------------------------------
// part 4: full path on a running torrent

type fileServer struct {
	mu      sync.Mutex
	files   map[string][]byte
	mode    string
	reqs    []string
	started time.Time
}

func (fs *fileServer) ServeHTTP(w http.ResponseWriter, r *http.Request) {
	fs.mu.Lock()
	fs.reqs = append(fs.reqs, r.URL.Path+" "+r.Header.Get("Range"))
	file, ok := fs.files[r.URL.Path]
	mode := fs.mode
	fs.mu.Unlock()
	if !ok {
		w.WriteHeader(404)
		return
	}
	var o, e int64
	fmt.Sscanf(r.Header.Get("Range"), "bytes=%d-%d", &o, &e)
	fl := int64(len(file))
	if e >= fl {
		e = fl - 1
	}
	if o > e {
		w.Header().Set("Content-Range", fmt.Sprintf("bytes */%d", fl))
		w.WriteHeader(416)
		return
	}
	switch mode {
	case "short-range":
		if e-o > 100 {
			e = o + (e-o)/3
		}
	case "overlong-body":
		conn, _, _ := w.(http.Hijacker).Hijack()
		conn.Write([]byte(fmt.Sprintf("HTTP/1.1 206 Partial Content\r\nContent-Range: bytes %d-%d/%d\r\nConnection: close\r\n\r\n", o, e, fl)))
		conn.Write(file[o : e+1])
		conn.Write(bytes.Repeat([]byte("Y"), 50000))
		conn.Close()
		return
	}
	w.Header().Set("Content-Range", fmt.Sprintf("bytes %d-%d/%d", o, e, fl))
	w.Header().Set("Content-Length", strconv.FormatInt(e-o+1, 10))
	w.WriteHeader(206)
	w.Write(file[o : e+1])
}

func runFull(c *Case, out *Out) {
	seed := uint64(c.ID) + 7
	var spec mktor.Spec
	switch c.Layout {
	case "multi":
		spec = mktor.Spec{Name: "ws", PieceLen: 4 * CS, Seed: seed, Files: []mktor.File{
			{Path: []string{"a.bin"}, Length: 50000}, {Path: []string{".pad", "0"}, Length: 15536, Pad: true},
			{Path: []string{"d", "b.bin"}, Length: 3000}, {Path: []string{"d", "c.bin"}, Length: 100000}, {Path: []string{"e.bin"}, Length: 70001}}}
	case "big":
		spec = mktor.Spec{Name: "big.bin", PieceLen: 128 * CS, Length: 3*128*CS - 5000, Seed: seed}
	default:
		spec = mktor.Spec{Name: "one.bin", PieceLen: 4 * CS, Length: 5*4*CS - 700, Seed: seed}
	}
	ln, err := net.Listen("tcp4", "127.0.0.1:0")
	if err != nil {
		out.Note = err.Error()
		return
	}
	fs := &fileServer{files: map[string][]byte{}, mode: c.Server}
	total := spec.Length
	if len(spec.Files) > 0 {
		var off int64
		for _, f := range spec.Files {
			if !f.Pad {
				fs.files["/base/"+spec.Name+"/"+strings.Join(f.Path, "/")] = content.Range(seed, off, int(f.Length))
			}
			off += f.Length
		}
		total = off
	} else {
		fs.files["/base/"+spec.Name] = content.Range(seed, 0, int(total))
	}
	srv := &http.Server{Handler: fs}
	go srv.Serve(ln)
	defer srv.Close()
	spec.Webseeds = []string{"http://" + ln.Addr().String() + "/base/"}
	t, err := mktor.New(spec, "")
	if err != nil {
		out.Note = "torrent: " + err.Error()
		return
	}
	config.SetIdleRate(0)
	ctx, cancel := context.WithCancel(context.Background())
	defer cancel()
	t, err = tor.AddTorrent(ctx, t)
	if err != nil {
		out.Note = err.Error()
		return
	}
	defer func() {
		k, c2 := context.WithTimeout(context.Background(), 5*time.Second)
		t.Kill(k)
		c2()
	}()
	config.PrefetchRate = 2e6
	if err := t.SetConf(peer.TorConf{UseWebseeds: true}); err != nil {
		out.Note = "SetConf: " + err.Error()
		return
	}
	np := t.Pieces.Num()
	// pad files are part of the content the pieces are hashed over: zeros
	desc := fmt.Sprintf("layout %s, server %s", c.Layout, c.Server)
	// ask for every piece, as a reader would
	var chans []<-chan struct{}
	for i := 0; i < np; i++ {
		_, ch, err := t.Request(uint32(i), 1, true, true)
		if err != nil {
			out.Note = "Request: " + err.Error()
			return
		}
		chans = append(chans, ch)
	}
	honest := c.Server == "honest"
	limit := 25 * time.Second
	if !honest {
		limit = 3 * time.Second
	}
	deadline := time.Now().Add(limit)
	complete := 0
	for i, ch := range chans {
		if ch == nil {
			complete++
			continue
		}
		select {
		case <-ch:
			complete++
		case <-time.After(time.Until(deadline)):
			if honest {
				out.viol("full-stalled", fmt.Sprintf("piece %d was not fetched from an honest web seed within 25 s (%s); requests: %v", i, desc, fs.reqs))
				return
			}
		}
	}
	// quiescence: no fetch running, then everything reserved has been released
	ws := t.Webseeds()[0]
	for n := 0; n < 100 && ws.Count() > 0; n++ {
		time.Sleep(20 * time.Millisecond)
	}
	cancelAll := func() {
		for i := 0; i < np; i++ {
			t.Request(uint32(i), 1, false, false)
		}
	}
	cancelAll()
	// stop the scheduler from starting new fetches, then look
	t.SetConf(peer.TorConf{UseWebseeds: false})
	for n := 0; n < 200 && ws.Count() > 0; n++ {
		time.Sleep(20 * time.Millisecond)
	}
	time.Sleep(100 * time.Millisecond)
	g1, g2 := make(chan *peer.TorStats), make(chan *peer.TorStats)
	t.Event <- peer.TorGetStats{Ch: g1}
	t.Event <- peer.TorGetStats{Ch: g2}
	<-g1
	inflight := t.VerifInFlight()
	<-g2
	for chunk, f := range inflight {
		if f != 0 {
			out.viol("full-inflight-leak", fmt.Sprintf("block %d is still marked in flight (%d) after every fetch has ended (%s); requests: %v", chunk, f, desc, fs.reqs))
			break
		}
	}
	// nothing wrong was stored
	_, _, ps := t.Pieces.VerifSnapshot()
	truth := make([]byte, total)
	if len(spec.Files) > 0 {
		var off int64
		for _, f := range spec.Files {
			if !f.Pad {
				content.Fill(seed, off, truth[off:off+f.Length])
			}
			off += f.Length
		}
	} else {
		content.Fill(seed, 0, truth)
	}
	for i := range ps {
		data := t.Pieces.VerifData(uint32(i))
		for b, set := range ps[i].Bits {
			if !set {
				continue
			}
			lo := int64(b) * CS
			hi := min(lo+CS, int64(ps[i].DataLen))
			off := int64(i)*spec.PieceLen + lo
			if !bytes.Equal(data[lo:hi], truth[off:off+(hi-lo)]) {
				out.viol("full-wrong-place", fmt.Sprintf("piece %d block %d holds bytes that do not belong there (%s); requests: %v", i, b, desc, fs.reqs))
				return
			}
		}
	}
	out.Observed = fmt.Sprintf("complete=%d/%d requests=%d", complete, np, len(fs.reqs))
	if honest && complete != np {
		out.viol("full-stalled", fmt.Sprintf("%d of %d pieces fetched from an honest web seed (%s)", complete, np, desc))
	}
}

// runKillFetch: a torrent whose only source is a web seed that accepts the
// request and then stalls (before the headers, or in the middle of the body) is
// deleted while the fetch is outstanding.  C17: once the deletion has completed
// the fetch is over - its request is closed and its goroutine has returned.
func runKillFetch(c *Case, out *Out) {
	seed := uint64(c.ID) + 77
	spec := mktor.Spec{Name: "kf.bin", PieceLen: 4 * CS, Length: 3*4*CS - 300, Seed: seed}
	ln, err := net.Listen("tcp4", "127.0.0.1:0")
	if err != nil {
		out.Note = err.Error()
		return
	}
	arrived := make(chan struct{}, 16)
	closed := make(chan struct{}, 16)
	srv := &http.Server{Handler: http.HandlerFunc(func(w http.ResponseWriter, r *http.Request) {
		if c.Server == "stall-mid-body" {
			n := 4 * CS
			if c.Layout == "hoffman" {
				var a, b int
				fmt.Sscanf(r.URL.Query().Get("ranges"), "%d-%d", &a, &b)
				n = b - a
				w.Header().Set("Content-Length", fmt.Sprint(n))
			} else {
				var o, e int64
				fmt.Sscanf(r.Header.Get("Range"), "bytes=%d-%d", &o, &e)
				n = int(e - o + 1)
				w.Header().Set("Content-Range", fmt.Sprintf("bytes %d-%d/%d", o, e, spec.Length))
				w.Header().Set("Content-Length", fmt.Sprint(n))
				w.WriteHeader(206)
			}
			w.Write(make([]byte, n/2))
			w.(http.Flusher).Flush()
		}
		arrived <- struct{}{}
		<-r.Context().Done()
		closed <- struct{}{}
	})}
	go srv.Serve(ln)
	defer srv.Close()
	url := "http://" + ln.Addr().String()
	if c.Layout == "hoffman" {
		spec.HTTPSeeds = []string{url + "/seed.php"}
	} else {
		spec.Webseeds = []string{url + "/base/"}
	}
	t, err := mktor.New(spec, "")
	if err != nil {
		out.Note = "torrent: " + err.Error()
		return
	}
	if len(t.Webseeds()) != 1 {
		out.Note = fmt.Sprintf("%d web seeds", len(t.Webseeds()))
		return
	}
	config.SetIdleRate(0)
	config.PrefetchRate = 2e6
	ctx, cancel := context.WithCancel(context.Background())
	defer cancel()
	t, err = tor.AddTorrent(ctx, t)
	if err != nil {
		out.Note = err.Error()
		return
	}
	killed := false
	defer func() {
		if !killed {
			k, c2 := context.WithTimeout(context.Background(), 5*time.Second)
			t.Kill(k)
			c2()
		}
	}()
	if err := t.SetConf(peer.TorConf{UseWebseeds: true}); err != nil {
		out.Note = "SetConf: " + err.Error()
		return
	}
	if _, _, err := t.Request(0, 1, true, true); err != nil {
		out.Note = "Request: " + err.Error()
		return
	}
	desc := fmt.Sprintf("%s seed, server %s", c.Layout, c.Server)
	select {
	case <-arrived:
	case <-time.After(20 * time.Second):
		out.Note = "no fetch was started within 20 s (" + desc + ")"
		return
	}
	k, c2 := context.WithTimeout(context.Background(), 10*time.Second)
	err = t.Kill(k)
	c2()
	killed = true
	if err != nil {
		out.violp("C17", "kill-hang", fmt.Sprintf("Kill: %v (%s)", err, desc))
		return
	}
	select {
	case <-t.Deleted:
	case <-time.After(5 * time.Second):
		out.violp("C17", "not-deleted", "Deleted is not closed after Kill returned ("+desc+")")
		return
	}
	select {
	case <-closed:
	case <-time.After(4 * time.Second):
		out.violp("C17", "webseed-fetch-left", "the request to the web seed is still open 4 s after the deletion of the torrent completed: the fetch (and its goroutine) outlives the torrent ("+desc+")")
		return
	}
	// ... and the fetch's goroutine has returned
	left := ""
	for n := 0; n < 150; n++ {
		buf := make([]byte, 1<<18)
		st := string(buf[:runtime.Stack(buf, true)])
		left = ""
		for _, g := range strings.Split(st, "\n\n") {
			if strings.Contains(g, "storrent/webseed.") || strings.Contains(g, "storrent/tor.webseed") {
				left = g
			}
		}
		if left == "" {
			break
		}
		time.Sleep(20 * time.Millisecond)
	}
	if left != "" {
		out.violp("C17", "goroutines-left", "a web-seed goroutine of the torrent is still running 3 s after its deletion completed ("+desc+"): "+strings.SplitN(left, "\n", 3)[1])
	}
	out.Observed = "fetch closed with the torrent"
}

// Handle is the worker-side entry point.
func Handle(in []byte) any {
	var c Case
	if err := json.Unmarshal(in, &c); err != nil {
		return &Out{Note: "bad case: " + err.Error()}
	}
	out := &Out{ID: c.ID}
	switch c.Kind {
	case "killfetch":
		runKillFetch(&c, out)
	case "files":
		runFiles(&c, out)
	case "farfiles":
		runFarFiles(&c, out)
	case "writer":
		runWriter(&c, out)
	case "hget":
		runHGet(&c, out)
	case "get":
		runGet(&c, out)
	case "full":
		runFull(&c, out)
	default:
		out.Note = "unknown kind"
	}
	return out
}
