// vh is the conformance harness of /verif: one sub-command per binding.
//
//	vh <binding> -in scenarios.ndjson -out results.ndjson [-parallel n] [-timeout s]
//	vh <binding> -worker
package main

import (
	"bufio"
	"encoding/json"
	"flag"
	"fmt"
	"os"
	"strings"
	"time"
	"verifharness/c11x"
	"verifharness/cryptob"

	"verifharness/geometry"
	"verifharness/gexpire"
	"verifharness/httpb"
	"verifharness/internal/isolate"
	"verifharness/live"
	"verifharness/metadata"
	"verifharness/peerfsm"
	"verifharness/piecestore"
	"verifharness/privacyb"
	"verifharness/sched"
	"verifharness/trackerb"
	"verifharness/upload"
	"verifharness/webseedb"
	"verifharness/wire"
)

var bindings = map[string]func(in []byte) any{
	"piecestore": piecestore.Replay,
	"webseed":    webseedb.Handle,
	"http":       httpb.Handle,
	"gexpire":    gexpire.Handle,
	"privacy":    privacyb.Handle,
	"crypto":     cryptob.Handle,
	"live":       live.Handle,
	"peerfsm":    peerfsm.Replay,
	"upload":     upload.Replay,
	"c11x":       c11x.Handle,
	"sched":      sched.Replay,
	"tracker":    trackerb.Handle,
	"geometry":   geometry.Handle,
	"metadata":   metadata.Replay,
	"wire":       wire.Handle,
}

func main() {
	if len(os.Args) < 2 {
		fmt.Fprintln(os.Stderr, "usage: vh <binding> ...")
		os.Exit(2)
	}
	name := os.Args[1]
	h, ok := bindings[name]
	if !ok {
		fmt.Fprintf(os.Stderr, "unknown binding %q\n", name)
		os.Exit(2)
	}
	fs := flag.NewFlagSet(name, flag.ExitOnError)
	worker := fs.Bool("worker", false, "run as worker")
	in := fs.String("in", "", "scenario file (ndjson)")
	out := fs.String("out", "", "result file (ndjson)")
	parallel := fs.Int("parallel", 8, "worker processes")
	timeout := fs.Int("timeout", 30, "per-scenario watchdog in seconds")
	fs.Parse(os.Args[2:])
	if *worker {
		isolate.Worker(h)
		return
	}
	f, err := os.Open(*in)
	if err != nil {
		fmt.Fprintln(os.Stderr, err)
		os.Exit(2)
	}
	var scenarios [][]byte
	rd := bufio.NewReaderSize(f, 1<<20)
	for {
		line, err := rd.ReadBytes('\n')
		if len(line) > 1 {
			scenarios = append(scenarios, line)
		}
		if err != nil {
			break
		}
	}
	f.Close()
	of, err := os.Create(*out)
	if err != nil {
		fmt.Fprintln(os.Stderr, err)
		os.Exit(2)
	}
	w := bufio.NewWriterSize(of, 1<<20)
	n, crashes, hangs := 0, 0, 0
	harnessFault := ""
	err = isolate.Run(scenarios, []string{name, "-worker"}, nil, *parallel,
		time.Duration(*timeout)*time.Second, func(r isolate.Result) {
			b, _ := json.Marshal(r)
			w.Write(b)
			w.WriteByte('\n')
			n++
			if r.Crash {
				crashes++
				if f := faultInHarness(r.Stderr); f != "" && harnessFault == "" {
					harnessFault = f
				}
			}
			if r.Hang {
				hangs++
			}
		})
	w.Flush()
	of.Close()
	if err != nil {
		fmt.Fprintln(os.Stderr, err)
		os.Exit(2)
	}
	fmt.Printf("scenarios=%d crashes=%d hangs=%d\n", n, crashes, hangs)
	if harnessFault != "" {
		// a panic raised by the harness's own code (not under a frame of the code under test) is a dead
		// driver, never a verdict about the code
		fmt.Fprintf(os.Stderr, "the harness itself panicked: %s\n", harnessFault)
		os.Exit(3)
	}
}

// faultInHarness looks at the stack of the panicking goroutine: if, going down from the panic, a frame of the
// harness comes before any frame of the code under test, the panic is the harness's own.
func faultInHarness(stderr string) string {
	i := strings.Index(stderr, "\ngoroutine ")
	if i < 0 || !strings.Contains(stderr[:i], "panic:") {
		return ""
	}
	first := ""
	for _, l := range strings.Split(stderr[:i], "\n") {
		if strings.HasPrefix(l, "panic:") {
			first = l
		}
	}
	stack := stderr[i+1:]
	if j := strings.Index(stack, "\n\n"); j >= 0 {
		stack = stack[:j]
	}
	for _, l := range strings.Split(stack, "\n") {
		if strings.HasPrefix(l, "\t") || strings.HasPrefix(l, "goroutine ") {
			continue
		}
		if strings.HasPrefix(l, "github.com/jech/storrent/") {
			return ""
		}
		if strings.HasPrefix(l, "verifharness/") {
			return first + " at " + l
		}
	}
	return ""
}
