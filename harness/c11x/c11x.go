// Package c11x binds spec/Advert.tla and spec/Pex.tla (C11) to the real
// peer code: the initial advertisement is read off the wire from a real
// peer.Run over net.Pipe; peer-exchange deltas are obtained by stepping the
// real handlers and reading the messages they write.
package c11x

import (
	"context"
	"encoding/binary"
	"encoding/json"
	"fmt"
	"io"
	"net"
	"net/netip"
	"sort"
	"sync/atomic"
	"time"

	"github.com/jech/storrent/bitmap"
	"github.com/jech/storrent/hash"
	"github.com/jech/storrent/known"
	"github.com/jech/storrent/peer"
	"github.com/jech/storrent/pex"
	"github.com/jech/storrent/protocol"
	"github.com/jech/storrent/tor"
	"github.com/jech/storrent/tor/piece"

	"verifharness/internal/mktor"
	"verifharness/wire"
)

type AdvMsg struct {
	K     string `json:"k"`
	I     int    `json:"i"`
	Bytes int    `json:"bytes"`
	Bits  []int  `json:"bits"`
}

type Label struct {
	A  string `json:"a"`
	X  string `json:"x"`
	F  int    `json:"f"` // flags of an addition
	Ok bool   `json:"ok"`
}

type PexState struct {
	Pending    []string `json:"pending"`
	PendingDel []string `json:"pendingDel"`
	Sent       []string `json:"sent"`
	Told       []string `json:"told"`
	Present    []string `json:"present"`
}

type Step struct {
	A Label    `json:"a"`
	S PexState `json:"s"`
}

type Case struct {
	Kind string `json:"kind"` // "advert", "pex"
	ID   int    `json:"id"`
	// advert
	N    int      `json:"n"`
	Held []int    `json:"held"`
	Fast bool     `json:"fast"`
	Adv  []AdvMsg `json:"adv"`
	// pex
	Steps []Step `json:"steps"`
	Mult  int    `json:"mult"` // each abstract address stands for this many peers (same host, consecutive ports); 0 = 1
	// blockname
	C struct {
		Cpp   int `json:"cpp"`
		Block int `json:"block"`
	} `json:"c"`
	Exp struct {
		Index       int64 `json:"index"`
		BeginBlocks int64 `json:"beginBlocks"`
		Length      int64 `json:"length"`
	} `json:"exp"`
	NBlocks int64 `json:"nblocks"`
	Tail    int64 `json:"tail"`
	// liveframe
	Sub  int    `json:"sub"`
	Body string `json:"body"`
	// mailbox
	Cap int      `json:"cap"`
	Mb  []MbStep `json:"mb"`
}

type MbStep struct {
	A    string `json:"a"`
	NBox int    `json:"nbox"`
	NBl  int    `json:"nbl"`
}

type Viol struct {
	Prop string `json:"prop"`
	Key  string `json:"key"`
	What string `json:"what"`
}

type Out struct {
	ID         int      `json:"id"`
	Violations []Viol   `json:"violations,omitempty"`
	Nonconf    []string `json:"nonconf,omitempty"`
	Observed   []AdvMsg `json:"observed,omitempty"`
	Note       string   `json:"note,omitempty"`
}

type frame struct {
	id      int // -1 keep-alive
	payload []byte
}

func readFrames(c net.Conn, idle time.Duration) []frame {
	var fs []frame
	for {
		c.SetReadDeadline(time.Now().Add(idle))
		var hdr [4]byte
		if _, err := io.ReadFull(c, hdr[:]); err != nil {
			return fs
		}
		n := binary.BigEndian.Uint32(hdr[:])
		if n == 0 {
			fs = append(fs, frame{id: -1})
			continue
		}
		c.SetReadDeadline(time.Now().Add(2 * time.Second))
		body := make([]byte, n)
		if _, err := io.ReadFull(c, body); err != nil {
			return fs
		}
		fs = append(fs, frame{int(body[0]), body[1:]})
	}
}

func runAdvert(c *Case, out *Out) {
	ps := &piece.Pieces{}
	ps.MetadataComplete(16384, int64(c.N)*16384-100)
	bm := bitmap.New(c.N)
	for _, i := range c.Held {
		bm.Set(i)
	}
	a, b := net.Pipe()
	id := make([]byte, 20)
	p := peer.New("", a, netip.MustParseAddrPort("192.0.2.77:6881"), false,
		protocol.HandshakeResult{Hash: hash.Hash(make([]byte, 20)), Id: hash.Hash(id), Fast: c.Fast})
	p.Pieces = ps
	torEvent := make(chan peer.TorEvent, 1024)
	torDone := make(chan struct{})
	done := make(chan struct{})
	go func() {
		peer.Run(p, torEvent, torDone, []byte("info"), bm, nil)
		close(done)
	}()
	frames := readFrames(b, 150*time.Millisecond)
	close(torDone)
	go io.Copy(io.Discard, b)
	select {
	case <-done:
	case <-time.After(5 * time.Second):
		out.Note = "peer.Run did not exit"
	}
	b.Close()
	desc := fmt.Sprintf("n=%d held=%v fast=%v", c.N, c.Held, c.Fast)
	viol := func(key, what string) {
		out.Violations = append(out.Violations, Viol{"C11", key, what + " (" + desc + ")"})
	}
	for _, f := range frames {
		switch f.id {
		case 5:
			m := AdvMsg{K: "Bitfield", Bytes: len(f.payload), Bits: []int{}}
			for i := 0; i < len(f.payload)*8; i++ {
				if f.payload[i/8]&(0x80>>uint(i%8)) != 0 {
					m.Bits = append(m.Bits, i)
				}
			}
			out.Observed = append(out.Observed, m)
			if len(f.payload) != (c.N+7)/8 {
				viol("bitfield-length", fmt.Sprintf("bitfield of %d bytes for %d pieces, BEP 3 requires %d", len(f.payload), c.N, (c.N+7)/8))
			}
			for _, i := range m.Bits {
				if i >= c.N {
					viol("bitfield-spare-bits", fmt.Sprintf("spare bit %d set", i))
					break
				}
			}
		case 4:
			if len(f.payload) == 4 {
				i := int(binary.BigEndian.Uint32(f.payload))
				out.Observed = append(out.Observed, AdvMsg{K: "Have", I: i})
				if i >= c.N {
					viol("have-out-of-range", fmt.Sprintf("Have %d", i))
				}
			}
		case 14:
			out.Observed = append(out.Observed, AdvMsg{K: "HaveAll"})
			if !c.Fast {
				viol("fast-message-without-fast", "HaveAll sent to a peer without the fast extension")
			}
		case 15:
			out.Observed = append(out.Observed, AdvMsg{K: "HaveNone"})
			if !c.Fast {
				viol("fast-message-without-fast", "HaveNone sent to a peer without the fast extension")
			}
		case -1:
		default:
			out.Observed = append(out.Observed, AdvMsg{K: fmt.Sprintf("id%d", f.id)})
		}
	}
	// what the remote concludes must be the set we hold
	concl := map[int]bool{}
	for _, m := range out.Observed {
		switch m.K {
		case "HaveAll":
			for i := 0; i < c.N; i++ {
				concl[i] = true
			}
		case "HaveNone":
			concl = map[int]bool{}
		case "Have":
			concl[m.I] = true
		case "Bitfield":
			concl = map[int]bool{}
			for _, i := range m.Bits {
				concl[i] = true
			}
		}
	}
	var got []int
	for i := range concl {
		if i < c.N {
			got = append(got, i)
		}
	}
	sort.Ints(got)
	if fmt.Sprint(got) != fmt.Sprint(append([]int{}, c.Held...)) && !(len(got) == 0 && len(c.Held) == 0) {
		viol("advert-wrong-set", fmt.Sprintf("the advertisement tells the remote we hold %v", got))
	}
	// conformance with the specification's choice of messages
	exp, _ := json.Marshal(normAdv(c.Adv))
	obs, _ := json.Marshal(normAdv(out.Observed))
	if string(exp) != string(obs) {
		out.Nonconf = append(out.Nonconf, fmt.Sprintf("%s: sent %s, specification %s", desc, obs, exp))
	}
}

func normAdv(a []AdvMsg) []AdvMsg {
	r := []AdvMsg{}
	for _, m := range a {
		if m.Bits == nil {
			m.Bits = []int{}
		}
		r = append(r, m)
	}
	return r
}

// ---------------------------------------------------------------------------

var addrs = map[string]netip.AddrPort{
	"a": netip.MustParseAddrPort("192.0.2.1:1001"),
	"b": netip.MustParseAddrPort("192.0.2.2:1002"),
	"c": netip.MustParseAddrPort("[2001:db8::3]:1003"),
}

// names maps concrete peers to the abstract addresses of the specification
// (by host: with Mult > 1 an abstract address is a group of peers), without
// repetitions.
func names(ps []pex.Peer) []string {
	seen := map[string]bool{}
	r := []string{}
	for _, p := range ps {
		n := "?" + p.Addr.String()
		for k, a := range addrs {
			if a.Addr() == p.Addr.Addr() {
				n = k
			}
		}
		if !seen[n] {
			seen[n] = true
			r = append(r, n)
		}
	}
	sort.Strings(r)
	return r
}

func group(name string, mult int, flags byte) []pex.Peer {
	if mult < 1 {
		mult = 1
	}
	var r []pex.Peer
	for k := 0; k < mult; k++ {
		a := addrs[name]
		r = append(r, pex.Peer{Addr: netip.AddrPortFrom(a.Addr(), a.Port()+uint16(k)), Flags: flags})
	}
	return r
}

func setEq(a, b []string) bool {
	x := append([]string{}, a...)
	y := append([]string{}, b...)
	sort.Strings(x)
	sort.Strings(y)
	return fmt.Sprint(x) == fmt.Sprint(y)
}

func runPex(c *Case, out *Out) {
	ps := &piece.Pieces{}
	ps.MetadataComplete(16384, 16384*4)
	writer := make(chan protocol.Message, 256)
	p := peer.VerifNew(ps, []byte("info"), bitmap.New(4), netip.MustParseAddrPort("192.0.2.50:6881"),
		protocol.HandshakeResult{Hash: hash.Hash(make([]byte, 20)), Id: hash.Hash(make([]byte, 20)), Extended: true},
		make(chan peer.TorEvent, 64), writer)
	peer.VerifSetExt(p, 7, 0, 0)
	told := map[string]bool{}
	present := map[string]bool{}
	viol := func(step int, key, what string) {
		out.Violations = append(out.Violations, Viol{"C11", key, fmt.Sprintf("%s (step %d of %v)", what, step, labels(c.Steps))})
	}
	toldC := map[string]bool{} // the remote's view, peer by peer
	apply := func(step int, m protocol.ExtendedPex) {
		if len(m.Added) > 50 || len(m.Dropped) > 50 {
			viol(step, "pex-message-too-large", fmt.Sprintf("a peer-exchange message carries %d additions and %d departures", len(m.Added), len(m.Dropped)))
		}
		for _, q := range m.Added {
			n := q.Addr.String()
			if toldC[n] {
				viol(step, "pex-announced-twice", "peer "+n+" is announced although the remote already has it")
			}
			toldC[n] = true
		}
		for _, q := range m.Dropped {
			n := q.Addr.String()
			if !toldC[n] {
				viol(step, "pex-drop-unannounced", "peer "+n+" is dropped although it was never announced")
			}
			delete(toldC, n)
		}
		// the abstract view: an address is told when all the peers it stands for are
		for name := range addrs {
			all := true
			for _, q := range group(name, c.Mult, 0) {
				if !toldC[q.Addr.String()] {
					all = false
				}
			}
			if all {
				told[name] = true
			} else {
				delete(told, name)
			}
		}
	}
	toldList := func() []string {
		r := []string{}
		for n := range told {
			r = append(r, n)
		}
		sort.Strings(r)
		return r
	}
	for k, st := range c.Steps {
		switch st.A.A {
		case "Add":
			present[st.A.X] = true
			peer.VerifHandleEvent(p, peer.PeerPex{Peers: group(st.A.X, c.Mult, byte(st.A.F)), Add: true})
		case "Del":
			delete(present, st.A.X)
			peer.VerifHandleEvent(p, peer.PeerPex{Peers: group(st.A.X, c.Mult, 0), Add: false})
		case "Send":
			if !st.A.Ok {
				// make the write fail: a full writer channel is "congested"; sendPex
				// itself refuses to run when more than half full, so fill it between
				// the congestion test and the write is impossible: use a closed
				// writerDone instead (not reachable through the shims) -- skipped
				continue
			}
			peer.VerifSendPex(p)
			for {
				select {
				case m := <-writer:
					if x, ok := m.(protocol.ExtendedPex); ok {
						apply(k+1, x)
					}
					continue
				default:
				}
				break
			}
		}
		s := peer.VerifState(p, 4)
		if len(out.Nonconf) == 0 {
			if !setEq(names(s.PexPending), st.S.Pending) || !setEq(names(s.PexDel), st.S.PendingDel) || !setEq(names(s.PexSent), st.S.Sent) {
				out.Nonconf = append(out.Nonconf, fmt.Sprintf("step %d (%v): pending %v del %v sent %v, specification %v %v %v", k+1, st.A,
					names(s.PexPending), names(s.PexDel), names(s.PexSent), st.S.Pending, st.S.PendingDel, st.S.Sent))
				continue
			}
			if !setEq(toldList(), st.S.Told) {
				out.Nonconf = append(out.Nonconf, fmt.Sprintf("step %d (%v): remote's view %v, specification %v", k+1, st.A, toldList(), st.S.Told))
			}
		}
	}
	// every departure (and arrival) is eventually reported: flush
	for k := 0; k < 4; k++ {
		peer.VerifSendPex(p)
		for len(writer) > 0 {
			if x, ok := (<-writer).(protocol.ExtendedPex); ok {
				apply(len(c.Steps)+1, x)
			}
		}
	}
	var pres []string
	for n := range present {
		pres = append(pres, n)
	}
	nPresent := 0
	for n := range present {
		for _, q := range group(n, c.Mult, 0) {
			nPresent++
			if !toldC[q.Addr.String()] && len(out.Violations) == 0 {
				viol(len(c.Steps), "pex-view-diverges", "after every pending delta was sent the remote has never been told of "+q.Addr.String()+", which is present")
			}
		}
	}
	if len(toldC) != nPresent && len(out.Violations) == 0 {
		viol(len(c.Steps), "pex-view-diverges", fmt.Sprintf("after every pending delta was sent the remote believes in %d peers, %d are present (a departure was never reported)", len(toldC), nPresent))
	}
	if !setEq(toldList(), pres) && len(out.Violations) == 0 {
		viol(len(c.Steps), "pex-view-diverges", fmt.Sprintf("after every pending delta was sent the remote believes %v, the peers present are %v", toldList(), names2(pres)))
	}
}

func names2(a []string) []string { sort.Strings(a); return a }

func labels(steps []Step) []string {
	var r []string
	for _, s := range steps {
		if s.A.A == "Send" {
			r = append(r, "Send")
		} else {
			r = append(r, s.A.A+"("+s.A.X+")")
		}
	}
	return r
}

// runBlockName: spec/BlockName.tla.  The torrent asks an unchoked peer that has
// every piece for one block, by its number; the Request (and, when the torrent
// changes its mind, the Cancel) read off the peer's writer must name that block.
func runBlockName(c *Case, out *Out) {
	ps := &piece.Pieces{}
	total := c.NBlocks*16384 + c.Tail
	expBegin := c.Exp.BeginBlocks * 16384
	ps.MetadataComplete(uint32(c.C.Cpp)*16384, total)
	n := ps.Num()
	wr := make(chan protocol.Message, 64)
	id := make([]byte, 20)
	id[0] = 9
	p := peer.VerifNew(ps, []byte("info"), bitmap.New(n), netip.MustParseAddrPort("192.0.2.9:6881"),
		protocol.HandshakeResult{Hash: hash.Hash(make([]byte, 20)), Id: hash.Hash(id), Fast: true}, make(chan peer.TorEvent, 4096), wr)
	desc := fmt.Sprintf("pieces of %d blocks, torrent of %d bytes, block %d", c.C.Cpp, total, c.C.Block)
	viol := func(key, what string) {
		out.Violations = append(out.Violations, Viol{"C11", key, what + " (" + desc + ")"})
	}
	step := func(what string, f func() error) bool {
		var err error
		func() {
			defer func() {
				if r := recover(); r != nil {
					err = fmt.Errorf("panic: %v", r)
					viol("blockname-panic", what+" panicked: "+fmt.Sprint(r))
				}
			}()
			err = f()
		}()
		if err != nil && len(out.Violations) == 0 {
			out.Note = what + ": " + err.Error()
		}
		return err == nil
	}
	if !step("HaveAll", func() error { return peer.VerifHandleMessage(p, protocol.HaveAll{}) }) ||
		!step("Unchoke", func() error { return peer.VerifHandleMessage(p, protocol.Unchoke{}) }) ||
		!step("PeerRequest", func() error { return peer.VerifHandleEvent(p, peer.PeerRequest{Chunks: []uint32{uint32(c.C.Block)}}) }) {
		return
	}
	var req *protocol.Request
	drain := func() (cancels []protocol.Cancel) {
		for {
			select {
			case m := <-wr:
				switch x := m.(type) {
				case protocol.Request:
					if req != nil {
						viol("request-duplicate", fmt.Sprintf("a second Request{%d,%d,%d} for one block", x.Index, x.Begin, x.Length))
					}
					r := x
					req = &r
				case protocol.Cancel:
					cancels = append(cancels, x)
				}
			default:
				return
			}
		}
	}
	drain()
	if req == nil {
		out.Nonconf = append(out.Nonconf, "no Request was written ("+desc+")")
		return
	}
	if int64(req.Index) != c.Exp.Index || int64(req.Begin) != expBegin {
		viol("request-names-another-block", fmt.Sprintf("asked for block %d, the peer wrote Request{%d,%d,%d}; the block is piece %d offset %d",
			c.C.Block, req.Index, req.Begin, req.Length, c.Exp.Index, expBegin))
	} else if int64(req.Length) != c.Exp.Length {
		viol("request-length", fmt.Sprintf("Request{%d,%d,%d}: the block has %d bytes", req.Index, req.Begin, req.Length, c.Exp.Length))
	}
	// the torrent withdraws the request: the Cancel names the same block
	if !step("PeerCancel", func() error { return peer.VerifHandleEvent(p, peer.PeerCancel{Chunk: uint32(c.C.Block)}) }) {
		return
	}
	for _, x := range drain() {
		if x.Index != req.Index || x.Begin != req.Begin || x.Length != req.Length {
			viol("cancel-not-outstanding", fmt.Sprintf("Cancel{%d,%d,%d} after Request{%d,%d,%d}", x.Index, x.Begin, x.Length, req.Index, req.Begin, req.Length))
		}
	}
}

// runMailbox: spec/Mailbox.tla.  A real peer.Run talks to a scripted remote over
// net.Pipe; the harness owns the torrent's mailbox (a channel of the capacity
// the specification says), is the other senders, and is the torrent's loop: the
// events it takes are handled, in the order taken, by a real torrent that is
// stepped.  The peer's goroutine is held at the yield point of writeEvent, so
// that "inside a handler, about to hand over an event" is a state of its own.
// The peer's events are Have(0), DontHave(0), Have(1), DontHave(1), then the two
// of its exit path.  C09: when it has left, no piece is counted as available.
func runMailbox(c *Case, out *Out) {
	seed := uint64(c.ID) + 401
	t, err := mktor.New(mktor.Spec{Name: "mb", PieceLen: 32768, Length: 4*32768 - 100, Seed: seed}, "")
	if err != nil {
		out.Note = err.Error()
		return
	}
	tor.VerifInit(t, seed)
	defer tor.VerifStop(t)
	a, b := net.Pipe()
	id := make([]byte, 20)
	id[0] = 5
	p := peer.New("", a, netip.MustParseAddrPort("192.0.2.55:6881"), false,
		protocol.HandshakeResult{Hash: t.Hash, Id: hash.Hash(id), Fast: true, Extended: true})
	p.Pieces = &t.Pieces
	mailbox := make(chan peer.TorEvent, c.Cap)
	torDone := make(chan struct{})
	var armed atomic.Bool
	arrived := make(chan struct{}, 4)
	release := make(chan struct{})
	peer.VerifYield = func(point string) {
		if point == "writeEvent" && armed.Load() {
			arrived <- struct{}{}
			<-release
		}
	}
	defer func() { peer.VerifYield = nil }()
	t.VerifAddPeer(p)
	done := make(chan struct{})
	go func() {
		peer.Run(p, mailbox, torDone, t.Info, t.Pieces.Bitmap(), nil)
		close(done)
	}()
	go io.Copy(io.Discard, b)
	defer func() {
		armed.Store(false)
		select {
		case release <- struct{}{}:
		default:
		}
		b.Close()
		close(torDone)
		select {
		case <-done:
		case <-time.After(5 * time.Second):
		}
	}()
	ctx := context.Background()
	filler := peer.TorAddKnown{Addr: netip.MustParseAddrPort("192.0.2.250:9"), Kind: known.Tracker}
	gone := false
	var order []string
	feed := func(e peer.TorEvent) {
		switch x := e.(type) {
		case peer.TorAddKnown:
			if x.Addr == filler.Addr {
				return
			}
		case peer.TorPeerHave:
			order = append(order, fmt.Sprintf("have(%d,%v)", x.Index, x.Have))
		case peer.TorPeerGoaway:
			gone = true
		}
		tor.VerifHandleEvent(ctx, t, e)
	}
	// start-up: whatever the peer says about itself is handled first
	for quiet := 0; quiet < 3; {
		select {
		case e := <-mailbox:
			feed(e)
			quiet = 0
		case <-time.After(40 * time.Millisecond):
			quiet++
		}
	}
	armed.Store(true)
	nonconf := func(f string, a ...any) {
		if len(out.Nonconf) < 3 {
			out.Nonconf = append(out.Nonconf, fmt.Sprintf(f, a...))
		}
	}
	waitLen := func(k int, st MbStep) {
		for n := 0; n < 400; n++ {
			if len(mailbox) == st.NBox {
				return
			}
			time.Sleep(5 * time.Millisecond)
		}
		nonconf("step %d (%s): the mailbox holds %d events, the specification says %d", k, st.A, len(mailbox), st.NBox)
	}
	frame := func(k int) []byte {
		piece := uint32((k - 1) / 2)
		if k%2 == 1 {
			return []byte{0, 0, 0, 5, 4, byte(piece >> 24), byte(piece >> 16), byte(piece >> 8), byte(piece)}
		}
		return []byte{0, 0, 0, 6, 20, protocol.ExtDontHave, byte(piece >> 24), byte(piece >> 16), byte(piece >> 8), byte(piece)}
	}
	emitted, busy, closed := 0, false, false
	for k, st := range c.Mb {
		switch st.A {
		case "BeginEmit":
			b.SetWriteDeadline(time.Now().Add(3 * time.Second))
			if _, err := b.Write(frame(emitted + 1)); err != nil {
				out.Note = fmt.Sprintf("step %d: cannot write to the peer: %v", k, err)
				return
			}
			select {
			case <-arrived:
				busy = true
			case <-time.After(3 * time.Second):
				out.Note = fmt.Sprintf("step %d: the peer did not reach writeEvent for event %d", k, emitted+1)
				return
			}
		case "DoEmit":
			if !busy {
				nonconf("step %d: DoEmit with an idle peer", k)
				continue
			}
			release <- struct{}{}
			busy = false
			emitted++
			waitLen(k, st)
		case "OtherSend":
			select {
			case mailbox <- filler:
			default:
				nonconf("step %d: no room in the mailbox for another sender", k)
			}
			waitLen(k, st)
		case "Take":
			select {
			case e := <-mailbox:
				feed(e)
			case <-time.After(2 * time.Second):
				nonconf("step %d: nothing to take", k)
			}
			waitLen(k, st)
		case "Close":
			armed.Store(false)
			b.Close()
			closed = true
			waitLen(k, st)
		}
	}
	// the rest of the story: the peer leaves, the torrent handles everything that is left
	armed.Store(false)
	if busy {
		release <- struct{}{}
	}
	if !closed {
		b.Close()
	}
	for !gone {
		select {
		case e := <-mailbox:
			feed(e)
		case <-time.After(5 * time.Second):
			out.Note = "the peer's farewell never arrived"
			return
		}
	}
	for n, av := range t.VerifAvailable() {
		if av != 0 {
			out.Violations = append(out.Violations, Viol{"C09", "availability-mismatch",
				fmt.Sprintf("the only peer has left and its events have been handled, yet available[%d] = %d; its advertisements and retractions reached the torrent as %v", n, av, order)})
			break
		}
	}
}

// runLiveFrame (C05): a well-framed extended message with a hostile bencoded payload (the body classes of
// Framing.tla) is sent to a live peer - real peer.Run with its own reader goroutine over net.Pipe.  Whatever the
// payload, the process goes on: at worst that peer is disconnected.  (A panic in the reader goroutine is not
// recovered by anybody: the worker dies, which the parent reports.)
func runLiveFrame(c *Case, out *Out) {
	seed := uint64(c.ID) + 77
	t, err := mktor.New(mktor.Spec{Name: "lf", PieceLen: 32768, Length: 4*32768 - 100, Seed: seed}, "")
	if err != nil {
		out.Note = err.Error()
		return
	}
	a, b := net.Pipe()
	id := make([]byte, 20)
	id[0] = 6
	p := peer.New("", a, netip.MustParseAddrPort("192.0.2.56:6881"), false,
		protocol.HandshakeResult{Hash: t.Hash, Id: hash.Hash(id), Fast: true, Extended: true})
	p.Pieces = &t.Pieces
	mailbox := make(chan peer.TorEvent, 4096)
	torDone := make(chan struct{})
	done := make(chan error, 1)
	go func() { done <- peer.Run(p, mailbox, torDone, t.Info, t.Pieces.Bitmap(), nil) }()
	go io.Copy(io.Discard, b)
	time.Sleep(20 * time.Millisecond)
	b.SetWriteDeadline(time.Now().Add(3 * time.Second))
	frame := wire.BencFrame(c.Sub, c.Body)
	_, werr := b.Write(frame)
	// a second, harmless message: if the peer is still there it is handled as well
	if werr == nil {
		b.Write([]byte{0, 0, 0, 1, 1})
	}
	returned := false
	select {
	case <-done:
		returned = true
		out.Observed = append(out.Observed, AdvMsg{K: "disconnected"})
	case <-time.After(300 * time.Millisecond):
		out.Observed = append(out.Observed, AdvMsg{K: "kept"})
	}
	close(torDone)
	b.Close()
	if !returned {
		select {
		case <-done:
		case <-time.After(5 * time.Second):
			out.Violations = append(out.Violations, Viol{"C05", "peer-hang", fmt.Sprintf("peer.Run did not return after an extended message (sub-id %d, payload class %s) and the end of the connection", c.Sub, c.Body)})
		}
	}
}

// Handle is the worker-side entry point.
func Handle(in []byte) any {
	var c Case
	if err := json.Unmarshal(in, &c); err != nil {
		return &Out{Note: "bad case: " + err.Error()}
	}
	out := &Out{ID: c.ID}
	switch c.Kind {
	case "advert":
		runAdvert(&c, out)
	case "pex":
		runPex(&c, out)
	case "blockname":
		runBlockName(&c, out)
	case "mailbox":
		runMailbox(&c, out)
	case "liveframe":
		runLiveFrame(&c, out)
	default:
		out.Note = "unknown kind"
	}
	return out
}
