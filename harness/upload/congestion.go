package upload

// Binding of spec/Congestion.tla: one remote peer that may stop reading.  The
// writer channel has WCap slots; while the remote is stalled the harness does
// not read it, so peer.write runs into its 200 ms time-out exactly where the
// specification says the channel is full.  Every message is attributed to the
// step that wrote it (channel length before/after the step), so that the
// client's own linear history - requests handled, Choke / Unchoke / Piece
// written - can be judged independently of when the remote reads.

import (
	"encoding/json"
	"fmt"
	"net/netip"

	"github.com/jech/storrent/config"
	"github.com/jech/storrent/hash"
	"github.com/jech/storrent/peer"
	"github.com/jech/storrent/protocol"
	"github.com/jech/storrent/tor/piece"

	"verifharness/internal/content"
)

const WCap = 4

type CState struct {
	Fast      bool   `json:"fast"`
	Unchoking bool   `json:"unchoking"`
	Queue     []bool `json:"queue"`
	Dead      bool   `json:"dead"`
	Num       int    `json:"num"`
	Backlog   int    `json:"backlog"`
}

type CStep struct {
	A struct {
		L struct {
			A string `json:"a"`
			U bool   `json:"u"`
		} `json:"l"`
	} `json:"a"`
	S CState `json:"s"`
}

type CScenario struct {
	ID   int    `json:"id"`
	Kind string `json:"kind"`
	Init CState `json:"init"`
	// Stimuli: the steps are inputs only (a walk of the specification with the shipped deviation): no state is compared
	Stimuli bool    `json:"stimuli"`
	Steps   []CStep `json:"steps"`
}

type cev struct {
	step int
	kind string // "req", "cancel", "msg"
	m    protocol.Message
}

func replayCongestion(in []byte) any {
	var sc CScenario
	if err := json.Unmarshal(in, &sc); err != nil {
		return &Out{Note: "bad scenario: " + err.Error()}
	}
	out := &Out{ID: sc.ID}
	viol := func(key, what string, step int) {
		for _, v := range out.Violations {
			if v.Key == key {
				return
			}
		}
		out.Violations = append(out.Violations, Viol{"C16", key, what, step})
	}
	config.SetUploadRate(1e12)
	seed := uint64(sc.ID)*19 + 5
	psize := 2 * CS
	length := int64(2*psize) - 300
	ps := &piece.Pieces{}
	ps.MetadataComplete(uint32(psize), length)
	hashes := content.PieceHashes(seed, length, int64(psize))
	for i := 0; i < 2; i++ {
		lo := int64(i) * int64(psize)
		hi := min(lo+int64(psize), length)
		for b := lo; b < hi; b += CS {
			ps.AddData(uint32(i), uint32(b-lo), content.Range(seed, b, int(min(CS, hi-b))), 1)
		}
		ps.Finalise(uint32(i), hash.Hash(hashes[i]))
	}
	base := peer.NumUnchoking()
	id := make([]byte, 20)
	id[0] = 9
	wr := make(chan protocol.Message, WCap)
	p := peer.VerifNew(ps, []byte("info"), ps.Bitmap(), netip.MustParseAddrPort("192.0.2.9:6881"),
		protocol.HandshakeResult{Hash: hash.Hash(make([]byte, 20)), Id: hash.Hash(id), Fast: sc.Init.Fast},
		make(chan peer.TorEvent, 4096), wr)
	var events []cev
	var inChan []int // write steps of the messages still in the channel
	stalled := false
	drain := func() {
		for len(wr) > 0 {
			m := <-wr
			s := 0
			if len(inChan) > 0 {
				s, inChan = inChan[0], inChan[1:]
			}
			events = append(events, cev{s, "msg", m})
		}
	}
	defer func() {
		// leave the global counter as we found it
		drain()
		peer.VerifHandleMessage(p, protocol.NotInterested{})
		drain()
		peer.VerifStopTimers(p)
	}()
	dead, diverged := false, false
	for k, stp := range sc.Steps {
		st := stp.S
		lab := stp.A.L
		step := k + 1
		before := len(wr)
		var err error
		switch lab.A {
		case "Interested":
			err = peer.VerifHandleMessage(p, protocol.Interested{})
		case "NotInterested":
			err = peer.VerifHandleMessage(p, protocol.NotInterested{})
		case "TorUnchoke":
			err = peer.VerifHandleEvent(p, peer.PeerUnchoke{Unchoke: lab.U})
		case "Request":
			events = append(events, cev{step, "req", nil})
			err = peer.VerifHandleMessage(p, protocol.Request{Index: 0, Begin: 0, Length: CS})
		case "Cancel":
			events = append(events, cev{step, "cancel", nil})
			err = peer.VerifHandleMessage(p, protocol.Cancel{Index: 0, Begin: 0, Length: CS})
		case "UploadTick":
			err = peer.VerifUploadTick(p)
		case "Stall":
			stalled = true
		case "Drain":
			stalled = false
		default:
			out.Note = "unknown action " + lab.A
			return out
		}
		for i := before; i < len(wr); i++ {
			inChan = append(inChan, step)
		}
		if !stalled {
			drain()
		}
		if err != nil {
			// a handler error ends the connection (Run)
			dead = true
		}
		s := peer.VerifState(p, 2)
		// C16: the count of unchoked peers is exact (while the connection is up; Run's exit path is bound elsewhere)
		if !dead {
			n := 0
			if s.AmUnchoking {
				n = 1
			}
			if got := peer.NumUnchoking() - base; got != n {
				viol("unchoke-counter", fmt.Sprintf("the unchoke counter accounts for %d peers, %d are actually unchoked (step %d %s)", got, n, step, lab.A), step)
			}
		}
		if dead {
			break
		}
		if sc.Stimuli || diverged {
			continue
		}
		// conformance with the specification's state (reported once; the rest of the walk is still applied as input)
		if dead != st.Dead {
			out.Nonconf = append(out.Nonconf, fmt.Sprintf("step %d (%s): handler error %v, the specification says dead=%v", step, lab.A, err, st.Dead))
			diverged = true
			continue
		}
		if s.AmUnchoking != st.Unchoking || len(s.Uploads) != len(st.Queue) {
			out.Nonconf = append(out.Nonconf, fmt.Sprintf("step %d (%s): unchoking %v queue %d, the specification says %v / %d", step, lab.A, s.AmUnchoking, len(s.Uploads), st.Unchoking, len(st.Queue)))
			diverged = true
		}
	}
	drain()
	// the client's linear history: requests in the order it handled them, messages in the order it wrote them
	// (a request precedes the messages written while handling it)
	ordered := make([]cev, 0, len(events))
	maxStep := len(sc.Steps) + 1
	for s := 0; s <= maxStep; s++ {
		for _, e := range events {
			if e.step == s && e.kind != "msg" {
				ordered = append(ordered, e)
			}
		}
		for _, e := range events {
			if e.step == s && e.kind == "msg" {
				ordered = append(ordered, e)
			}
		}
	}
	unchoked, pending := false, 0
	for _, e := range ordered {
		switch e.kind {
		case "req":
			if unchoked {
				pending++
			}
		case "cancel":
			if pending > 0 {
				pending--
			}
		case "msg":
			switch m := e.m.(type) {
			case protocol.Unchoke:
				unchoked = true
			case protocol.Choke:
				unchoked = false
				pending = 0 // requests received before a choke are void
			case protocol.Piece:
				out.Pieces++
				protocol.PutBuffer(m.Data)
				if !unchoked {
					viol("piece-while-choked", fmt.Sprintf("a Piece was written at step %d although the last thing the client told the peer is Choke", e.step), e.step)
				} else if pending == 0 {
					viol("piece-unrequested", fmt.Sprintf("the Piece written at step %d answers no request received since the last Choke (a request that was choked away is served after the next unchoke)", e.step), e.step)
				} else {
					pending--
				}
			case protocol.RejectRequest:
				out.Rejects++
			}
		}
	}
	return out
}
