// Package upload binds spec/Upload.tla (C16) to the real peer handlers:
// remote messages through handleMessage, the torrent's choking decisions
// through handleEvent, the upload ticker through scheduleUpload; every
// message the peers write is checked against what the remote sent before.
package upload

import (
	"encoding/json"
	"fmt"
	"net/netip"
	"runtime"
	"sort"
	"sync"
	"time"

	"github.com/jech/storrent/config"
	"github.com/jech/storrent/hash"
	"github.com/jech/storrent/peer"
	"github.com/jech/storrent/protocol"
	"github.com/jech/storrent/tor/piece"

	"verifharness/internal/content"
)

const CS = 16384

type Label struct {
	A        string          `json:"a"`
	P        string          `json:"p"`
	U        bool            `json:"u"`
	R        string          `json:"r"`
	I        int             `json:"i"`
	CanFast  map[string]bool `json:"canFast"`
	Verified []int           `json:"verified"`
	AdvQ     map[string]int  `json:"advQ"` // the reqq of the peer's extended handshake (0: no handshake)
}

type Scenario struct {
	ID    int     `json:"id"`
	Steps []Label `json:"steps"`
}

type Viol struct {
	Prop string `json:"prop"`
	Key  string `json:"key"`
	What string `json:"what"`
	Step int    `json:"step"`
}

type Out struct {
	ID         int      `json:"id"`
	Violations []Viol   `json:"violations,omitempty"`
	Pieces     int      `json:"pieces_served"`
	Rejects    int      `json:"rejects"`
	Note       string   `json:"note,omitempty"`
	Nonconf    []string `json:"nonconf,omitempty"`
}

type req struct{ i, b, l uint32 }

var classes = map[string]req{
	"r0": {0, 0, CS},
	"r1": {1, 100, 5000},     // unaligned, inside piece 1
	"rx": {0, 30000, CS},     // runs past the end of piece 0
	"rz": {9, 0, CS},         // beyond the torrent
	"rh": {0, 0, 1 << 30},    // a huge length
	"rw": {1 << 17, 0, CS},   // index * piece size = 2^32: wraps to offset 0 in 32-bit arithmetic
	"rb": {1, 0xFFFFFFFF, 1}, // piece size + 2^32 - 1 wraps into piece 0
}

type remote struct {
	p         *peer.Peer
	writer    chan protocol.Message
	fast      bool
	unchoked  bool // the remote's view: last of Unchoke / Choke seen
	pending   []req
	cancelled []req // cancelled requests whose RejectRequest has not been seen yet
}

type world struct {
	ps     *piece.Pieces
	psize  int
	length int64
	seed   uint64
	hashes [][]byte
	peers  map[string]*remote
	names  []string
	out    *Out
	step   int
	base   int
	// pieces that are full of (corrupt) data and whose hash is being computed: the finaliser is parked at the
	// Finalise.hash yield point of the store
	hashing map[int]*hashingPiece
	hmu     sync.Mutex
}

type hashingPiece struct {
	arrived, release, done chan struct{}
	passed                 bool
}

// startHashing fills piece i with data whose first block is corrupt and parks its finaliser in the middle of the hash.
func (w *world) startHashing(i int) {
	pl := int(w.ps.PieceLength(uint32(i)))
	for b := 0; b < pl; b += CS {
		l := min(CS, pl-b)
		data := content.Range(w.seed, int64(i)*int64(w.psize)+int64(b), l)
		if b == 0 {
			data[3] ^= 0x5a
		}
		w.ps.AddData(uint32(i), uint32(b), data, 1)
	}
	h := &hashingPiece{arrived: make(chan struct{}), release: make(chan struct{}), done: make(chan struct{})}
	w.hmu.Lock()
	w.hashing[i] = h
	w.hmu.Unlock()
	go func() {
		w.ps.Finalise(uint32(i), hash.Hash(w.hashes[i]))
		close(h.done)
	}()
	select {
	case <-h.arrived:
	case <-h.done:
	case <-time.After(3 * time.Second):
	}
}

func (w *world) stopHashing(i int) {
	w.hmu.Lock()
	h := w.hashing[i]
	delete(w.hashing, i)
	w.hmu.Unlock()
	if h == nil {
		return
	}
	close(h.release)
	select {
	case <-h.done:
	case <-time.After(3 * time.Second):
	}
}

func (w *world) viol(key, what string) {
	if len(w.out.Violations) < 10 {
		w.out.Violations = append(w.out.Violations, Viol{"C16", key, what, w.step})
	}
}

func (w *world) verify(i int) {
	w.stopHashing(i) // the hash fails, the piece is empty again
	pl := int(w.ps.PieceLength(uint32(i)))
	for b := 0; b < pl; b += CS {
		l := pl - b
		if l > CS {
			l = CS
		}
		w.ps.AddData(uint32(i), uint32(b), content.Range(w.seed, int64(i)*int64(w.psize)+int64(b), l), 1)
	}
	w.ps.Finalise(uint32(i), hash.Hash(w.hashes[i]))
}

func (w *world) evict(i int) {
	var keep []int
	for k := 0; k < w.ps.Num(); k++ {
		if k != i && w.ps.Complete(uint32(k)) {
			keep = append(keep, k)
		}
	}
	w.ps.Expire(0, nil, func(uint32) {})
	for _, k := range keep {
		w.verify(k)
	}
}

func (w *world) removePending(r *remote, q req) bool {
	for k, x := range r.pending {
		if x == q {
			r.pending = append(r.pending[:k:k], r.pending[k+1:]...)
			return true
		}
	}
	return false
}

// drainWire checks everything peer name has written since the last step.
func (w *world) drainWire(name string) {
	r := w.peers[name]
	for {
		select {
		case m := <-r.writer:
			switch x := m.(type) {
			case protocol.Unchoke:
				r.unchoked = true
			case protocol.Choke:
				r.unchoked = false
				// requests sent before a choke are void
				r.pending = nil
				r.cancelled = nil
			case protocol.Piece:
				w.out.Pieces++
				q := req{x.Index, x.Begin, uint32(len(x.Data))}
				desc := fmt.Sprintf("Piece{%d,%d,%d bytes} to %s", x.Index, x.Begin, len(x.Data), name)
				if !r.unchoked {
					w.viol("piece-while-choked", desc+" although we are choking that peer")
				}
				if !w.removePending(r, q) {
					w.viol("piece-unrequested", desc+" answers no pending request of that peer (never sent, cancelled, choked away or already answered)")
				}
				off := int64(x.Index)*int64(w.psize) + int64(x.Begin)
				if off+int64(len(x.Data)) > w.length || !content.Equal(w.seed, off, x.Data) {
					w.viol("piece-wrong-payload", desc+": the payload is not the content of the requested range")
				}
				if !w.ps.Complete(x.Index) {
					w.viol("piece-unverified", desc+" although that piece is not verified")
				}
			case protocol.RejectRequest:
				w.out.Rejects++
				if !r.fast {
					w.viol("reject-without-fast", fmt.Sprintf("RejectRequest sent to %s which has not the fast extension", name))
				}
				// a reject that answers a Cancel refers to the request the
				// Cancel has already removed, not to a further one
				q := req{x.Index, x.Begin, x.Length}
				answersCancel := false
				for k, c := range r.cancelled {
					if c == q {
						r.cancelled = append(r.cancelled[:k:k], r.cancelled[k+1:]...)
						answersCancel = true
						break
					}
				}
				if !answersCancel {
					w.removePending(r, q)
				}
			}
		default:
			return
		}
	}
}

func (w *world) checkCounters() {
	n := 0
	for _, name := range w.names {
		st := peer.VerifState(w.peers[name].p, w.ps.Num())
		if st.AmUnchoking {
			n++
		}
		if len(st.Uploads) > 250 {
			w.viol("upload-queue-unbounded", fmt.Sprintf("%d requests queued for %s", len(st.Uploads), name))
		}
	}
	if got := peer.NumUnchoking() - w.base; got != n {
		w.viol("unchoke-counter", fmt.Sprintf("the unchoke counter accounts for %d peers, %d are actually unchoked", got, n))
	}
}

// Replay is the worker-side handler.
func Replay(in []byte) any {
	var kind struct {
		Kind string `json:"kind"`
	}
	if json.Unmarshal(in, &kind) == nil && kind.Kind == "congestion" {
		return replayCongestion(in)
	}
	var sc Scenario
	if err := json.Unmarshal(in, &sc); err != nil {
		return &Out{Note: "bad scenario: " + err.Error()}
	}
	out := &Out{ID: sc.ID}
	if len(sc.Steps) == 0 || sc.Steps[0].A != "Init" {
		out.Note = "scenario does not start with Init"
		return out
	}
	config.SetUploadRate(1e12)
	w := &world{out: out, peers: map[string]*remote{}, seed: uint64(sc.ID)*17 + 3, psize: 2 * CS}
	w.length = int64(2*w.psize) - 300
	w.ps = &piece.Pieces{}
	w.ps.MetadataComplete(uint32(w.psize), w.length)
	w.hashes = content.PieceHashes(w.seed, w.length, int64(w.psize))
	w.hashing = map[int]*hashingPiece{}
	piece.VerifYield = func(point string, index uint32) {
		w.hmu.Lock()
		h := w.hashing[int(index)]
		stop := h != nil && point == "Finalise.hash" && !h.passed
		if stop {
			h.passed = true
		}
		w.hmu.Unlock()
		if stop {
			close(h.arrived)
			<-h.release
		}
	}
	defer func() {
		for i := 0; i < w.ps.Num(); i++ {
			w.stopHashing(i)
		}
		piece.VerifYield = nil
	}()
	isVerified := map[int]bool{}
	for _, i := range sc.Steps[0].Verified {
		w.verify(i)
		isVerified[i] = true
	}
	if sc.ID%2 == 1 {
		// "pieces becoming available": what is not verified at the start is full and in the middle of its hash
		for i := 0; i < w.ps.Num(); i++ {
			if !isVerified[i] {
				w.startHashing(i)
			}
		}
	}
	w.base = peer.NumUnchoking()
	for n := range sc.Steps[0].CanFast {
		w.names = append(w.names, n)
	}
	sort.Strings(w.names)
	for k, n := range w.names {
		id := make([]byte, 20)
		id[0] = byte(k + 1)
		wr := make(chan protocol.Message, 8192)
		p := peer.VerifNew(w.ps, []byte("info"), w.ps.Bitmap(), netip.MustParseAddrPort(fmt.Sprintf("192.0.2.%d:6881", k+1)),
			protocol.HandshakeResult{Hash: hash.Hash(make([]byte, 20)), Id: hash.Hash(id), Fast: sc.Steps[0].CanFast[n]},
			make(chan peer.TorEvent, 4096), wr)
		w.peers[n] = &remote{p: p, writer: wr, fast: sc.Steps[0].CanFast[n]}
		if q := sc.Steps[0].AdvQ[n]; q > 0 {
			peer.VerifHandleMessage(p, protocol.Extended0{ReqQ: uint32(q), Messages: map[string]uint8{"ut_pex": 1}})
		}
	}
	defer func() {
		// leave the global counter as we found it
		for _, n := range w.names {
			r := w.peers[n]
			peer.VerifHandleMessage(r.p, protocol.NotInterested{})
			peer.VerifStopTimers(r.p)
		}
	}()
	for k, st := range sc.Steps[1:] {
		w.step = k + 1
		r := w.peers[st.P]
		var err error
		var m0 runtime.MemStats
		runtime.ReadMemStats(&m0)
		switch st.A {
		case "Interested":
			err = peer.VerifHandleMessage(r.p, protocol.Interested{})
		case "NotInterested":
			err = peer.VerifHandleMessage(r.p, protocol.NotInterested{})
		case "TorUnchoke":
			err = peer.VerifHandleEvent(r.p, peer.PeerUnchoke{Unchoke: st.U})
		case "Request":
			q := classes[st.R]
			if r.unchoked {
				r.pending = append(r.pending, q)
			}
			err = peer.VerifHandleMessage(r.p, protocol.Request{Index: q.i, Begin: q.b, Length: q.l})
		case "Flood":
			for n := 0; n < 255 && err == nil; n++ {
				if r.unchoked {
					r.pending = append(r.pending, classes["r0"])
				}
				err = peer.VerifHandleMessage(r.p, protocol.Request{Index: 0, Begin: 0, Length: CS})
				w.drainWire(st.P)
			}
		case "Cancel":
			q := classes[st.R]
			if w.removePending(r, q) && r.fast {
				r.cancelled = append(r.cancelled, q)
			}
			err = peer.VerifHandleMessage(r.p, protocol.Cancel{Index: q.i, Begin: q.b, Length: q.l})
		case "UploadTick":
			err = peer.VerifUploadTick(r.p)
		case "Evict":
			w.evict(st.I)
		case "Verify":
			w.verify(st.I)
		}
		if err != nil {
			out.Note = fmt.Sprintf("step %d (%s): handler error %v", w.step, st.A, err)
			return out
		}
		// "the upload work queued per peer is bounded": no step may allocate more than a few blocks'
		// worth of memory, whatever length the remote asked for (a flood is 255 requests)
		var m1 runtime.MemStats
		runtime.ReadMemStats(&m1)
		if d := m1.TotalAlloc - m0.TotalAlloc; d > 8<<20 {
			w.viol("upload-alloc-unbounded", fmt.Sprintf("step %s %s %s allocated %d bytes (a request's length field is taken as the size of the buffer to fill)", st.A, st.P, st.R, d))
		}
		for _, n := range w.names {
			w.drainWire(n)
		}
		w.checkCounters()
		if len(out.Violations) > 0 {
			return out
		}
	}
	return out
}
