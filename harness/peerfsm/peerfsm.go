// Package peerfsm binds spec/PeerFsm.tla (C05) to peer.handleMessage and
// tor.handleEvent: each abstract message class is concretised with boundary
// field values, handled by the real peer handler in the protocol state the
// behaviour has reached, and every event it gives rise to is handled by the
// real torrent handler.  Crashes, hangs and allocations are observed.
package peerfsm

import (
	"bufio"
	"bytes"
	"context"
	"crypto/sha1"
	"encoding/json"
	"fmt"
	"net/netip"
	"runtime"
	"strings"
	"time"

	"github.com/jech/storrent/hash"
	"github.com/jech/storrent/peer"
	"github.com/jech/storrent/pex"
	"github.com/jech/storrent/protocol"
	"github.com/jech/storrent/tor"

	"verifharness/internal/fakepeer"
	"verifharness/internal/mktor"
)

const CS = 16384
const NP = 4

type Msg struct {
	K       string `json:"k"`
	I       string `json:"i"`
	B       string `json:"b"`
	L       string `json:"l"`
	Len     string `json:"len"`
	Pl      string `json:"pl"`
	Size    string `json:"size"`
	Reqq    string `json:"reqq"`
	M       string `json:"m"`
	Type    int    `json:"type"`
	Piece   string `json:"piece"`
	Added   string `json:"added"`
	Dropped string `json:"dropped"`
	V       bool   `json:"v"`
}

type State struct {
	InfoKnown bool   `json:"infoKnown"`
	CanFast   bool   `json:"canFast"`
	CanExt    bool   `json:"canExt"`
	Outcome   string `json:"outcome"`
}

type Step struct {
	A Msg   `json:"a"`
	S State `json:"s"`
}

type Scenario struct {
	ID    int    `json:"id"`
	Init  State  `json:"init"`
	Steps []Step `json:"steps"`
}

type Viol struct {
	Prop string `json:"prop"`
	Key  string `json:"key"`
	What string `json:"what"`
	Step int    `json:"step"`
}

type Out struct {
	ID         int      `json:"id"`
	Violations []Viol   `json:"violations,omitempty"`
	Nonconf    []string `json:"nonconf,omitempty"`
	Handled    int      `json:"handled"`
	TorEvents  int      `json:"tor_events"`
	MaxAlloc   int64    `json:"max_alloc"`
	Note       string   `json:"note,omitempty"`
}

func idx(c string) uint32 {
	switch c {
	case "0":
		return 0
	case "last":
		return NP - 1
	case "n":
		return NP
	case "big":
		return 1 << 30
	}
	return ^uint32(0)
}

func u32(c string) uint32 {
	switch c {
	case "0":
		return 0
	case "odd":
		return 7
	case "16k":
		return CS
	case "250":
		return 250
	}
	return ^uint32(0)
}

// message builds the concrete message and its size on the wire.
func message(m *Msg, infoLen int) (protocol.Message, int) {
	switch m.K {
	case "KeepAlive":
		return protocol.KeepAlive{}, 4
	case "Choke":
		return protocol.Choke{}, 5
	case "Unchoke":
		return protocol.Unchoke{}, 5
	case "Interested":
		return protocol.Interested{}, 5
	case "NotInterested":
		return protocol.NotInterested{}, 5
	case "HaveAll":
		return protocol.HaveAll{}, 5
	case "HaveNone":
		return protocol.HaveNone{}, 5
	case "Port":
		return protocol.Port{Port: 6881}, 7
	case "Unknown":
		return protocol.Unknown{}, 5
	case "ExtUnknown":
		return protocol.ExtendedUnknown{Subtype: 99}, 6
	case "Have":
		return protocol.Have{Index: idx(m.I)}, 9
	case "DontHave":
		return protocol.ExtendedDontHave{Subtype: protocol.ExtDontHave, Index: idx(m.I)}, 10
	case "AllowedFast":
		return protocol.AllowedFast{Index: idx(m.I)}, 9
	case "Suggest":
		return protocol.SuggestPiece{Index: idx(m.I)}, 9
	case "Bitfield":
		var b []byte
		switch m.Len {
		case "exact":
			b = []byte{0xF0}
		case "exact+1":
			b = []byte{0xF8, 0x00}
		case "huge":
			b = make([]byte, 1<<20-1)
			for i := range b {
				b[i] = 0xff
			}
		}
		return protocol.Bitfield{Bitfield: b}, 5 + len(b)
	case "Request":
		return protocol.Request{Index: idx(m.I), Begin: u32(m.B), Length: u32(m.L)}, 17
	case "Cancel":
		return protocol.Cancel{Index: idx(m.I), Begin: u32(m.B), Length: u32(m.L)}, 17
	case "Reject":
		return protocol.RejectRequest{Index: idx(m.I), Begin: u32(m.B), Length: u32(m.L)}, 17
	case "Piece":
		n := map[string]int{"empty": 0, "16k": CS, "1m": 1<<20 - 9}[m.Pl]
		return protocol.Piece{Index: idx(m.I), Begin: u32(m.B), Data: protocol.GetBuffer(n)}, 13 + n
	case "Ext0":
		x := protocol.Extended0{Version: "hostile 1.0", Port: 6881, ReqQ: u32(m.Reqq)}
		switch m.Size {
		case "true":
			x.MetadataSize = uint32(infoLen)
		case "128m":
			x.MetadataSize = 128 << 20
		case "128m+1":
			x.MetadataSize = 128<<20 + 1
		case "max":
			x.MetadataSize = ^uint32(0)
		}
		switch m.M {
		case "all":
			x.Messages = map[string]uint8{"ut_pex": 1, "ut_metadata": 2, "lt_donthave": 3, "upload_only": 4}
		case "zeros":
			x.Messages = map[string]uint8{"ut_pex": 0, "ut_metadata": 0}
		}
		return x, 120
	case "Metadata":
		x := protocol.ExtendedMetadata{Subtype: protocol.ExtMetadata, Type: uint8(m.Type)}
		blocks := (infoLen + CS - 1) / CS
		switch m.Piece {
		case "last":
			x.Piece = uint32(blocks - 1)
		case "n":
			x.Piece = uint32(blocks)
		case "max":
			x.Piece = ^uint32(0)
		}
		switch m.Size {
		case "true":
			x.TotalSize = uint32(infoLen)
		case "max":
			x.TotalSize = ^uint32(0)
		}
		if m.Pl == "16k" {
			x.Data = make([]byte, CS)
		}
		return x, 60 + len(x.Data)
	case "Pex":
		x := protocol.ExtendedPex{Subtype: protocol.ExtPex}
		mk := func(n int) []pex.Peer {
			var l []pex.Peer
			for i := 0; i < n; i++ {
				l = append(l, pex.Peer{Addr: netip.AddrPortFrom(netip.AddrFrom4([4]byte{10, 1, byte(i >> 8), byte(i)}), uint16(1000+i))})
			}
			return l
		}
		switch m.Added {
		case "two":
			x.Added = mk(2)
		case "many":
			x.Added = mk(3000)
		}
		switch m.Dropped {
		case "two":
			x.Dropped = mk(2)
		case "unknown":
			x.Dropped = []pex.Peer{{Addr: netip.MustParseAddrPort("10.9.9.9:9")}}
		}
		return x, 40 + 7*(len(x.Added)+len(x.Dropped))
	case "UploadOnly":
		return protocol.ExtendedUploadOnly{Subtype: protocol.ExtUploadOnly, Value: m.V}, 7
	}
	return nil, 0
}

type res struct {
	err      error
	panicked string
}

// Replay is the worker-side handler.
func Replay(in []byte) any {
	var sc Scenario
	if err := json.Unmarshal(in, &sc); err != nil {
		return &Out{Note: "bad scenario: " + err.Error()}
	}
	out := &Out{ID: sc.ID}
	spec := mktor.Spec{Name: "fsm", PieceLen: 2 * CS, Length: NP*2*CS - 700, Seed: uint64(sc.ID) + 1}
	file, info := mktor.Bytes(spec)
	_ = file
	var t *tor.Torrent
	var err error
	if sc.Init.InfoKnown {
		t, err = mktor.New(spec, "")
	} else {
		h := sha1.Sum(info)
		t, err = tor.New("", hash.Hash(h[:]), "", nil, 0, nil, nil)
	}
	if err != nil {
		out.Note = err.Error()
		return out
	}
	tor.VerifInit(t, uint64(sc.ID)+5)
	defer tor.VerifStop(t)
	ctx := context.Background()
	var pinfo []byte
	if sc.Init.InfoKnown {
		pinfo = t.Info
	}
	id := make([]byte, 20)
	id[0] = 9
	fp := fakepeer.New(&t.Pieces, pinfo, t.Pieces.Bitmap(), netip.MustParseAddrPort("192.0.2.66:6881"),
		protocol.HandshakeResult{Hash: t.Hash, Id: hash.Hash(id), Fast: sc.Init.CanFast, Extended: sc.Init.CanExt}, false)
	defer fp.Stop()
	t.VerifAddPeer(fp.P)
	// a second, well-behaved peer so that broadcasts have somewhere to go
	id2 := make([]byte, 20)
	id2[0] = 8
	fp2 := fakepeer.New(&t.Pieces, pinfo, t.Pieces.Bitmap(), netip.MustParseAddrPort("192.0.2.67:6881"),
		protocol.HandshakeResult{Hash: t.Hash, Id: hash.Hash(id2), Fast: true, Extended: true}, false)
	defer fp2.Stop()
	t.VerifAddPeer(fp2.P)
	fp.Metadata, fp2.Metadata = true, true
	// everything the peers write is serialised as the real writer goroutine would (protocol.Write):
	// a message that cannot be serialised panics there and takes the client down
	writePanic := ""
	serialise := func(m protocol.Message) {
		defer func() {
			if p := recover(); p != nil && writePanic == "" {
				writePanic = fmt.Sprintf("%v (message %T %+v)", p, m, m)
			}
		}()
		var sink bytes.Buffer
		protocol.Write(bufio.NewWriter(&sink), m, nil)
	}
	drainWriter := func() {
		for n := 0; n < 500 && !(fp.Idle() && fp2.Idle()); n++ {
			time.Sleep(200 * time.Microsecond)
		}
		for {
			select {
			case m := <-fp.Writer:
				serialise(m)
			case m := <-fp2.Writer:
				serialise(m)
			default:
				return
			}
		}
	}
	infoKnown := sc.Init.InfoKnown
	for k, st := range sc.Steps {
		stepNo := k + 1
		viol := func(key, what string) {
			if len(out.Violations) < 8 {
				desc, _ := json.Marshal(st.A)
				out.Violations = append(out.Violations, Viol{"C05", key, what + " (message " + string(desc) + ")", stepNo})
			}
		}
		var ms0, ms1 runtime.MemStats
		wire := 0
		done := make(chan res, 1)
		runtime.GC()
		runtime.ReadMemStats(&ms0)
		if st.A.K == "MetadataComplete" {
			go func() {
				var r res
				defer func() {
					if p := recover(); p != nil {
						r.panicked = fmt.Sprint(p)
					}
					done <- r
				}()
				t.Info = info
				if err := t.MetadataComplete(); err != nil {
					r.err = nil
					return
				}
				r.err = peer.VerifHandleEvent(fp.P, peer.PeerMetadataComplete{Info: t.Info})
				peer.VerifHandleEvent(fp2.P, peer.PeerMetadataComplete{Info: t.Info})
			}()
			wire = len(info)
		} else {
			pm, n := message(&st.A, len(info))
			wire = n
			if pm == nil {
				out.Note = "unknown message class " + st.A.K
				return out
			}
			go func() {
				var r res
				defer func() {
					if p := recover(); p != nil {
						r.panicked = fmt.Sprint(p)
					}
					done <- r
				}()
				fp.Mu.Lock()
				func() {
					defer fp.Mu.Unlock()
					r.err = peer.VerifHandleMessage(fp.P, pm)
				}()
				// the torrent-side processing of everything the message gave rise to
				for {
					select {
					case e := <-fp.Tor:
						out.TorEvents++
						tor.VerifHandleEvent(ctx, t, e)
					default:
						return
					}
				}
			}()
		}
		var r res
		select {
		case r = <-done:
		case <-time.After(20 * time.Second):
			viol("handler-hang", "handling did not terminate within 20 s")
			buf := make([]byte, 1<<16)
			nb := runtime.Stack(buf, true)
			out.Note = string(buf[:nb])
			return out
		}
		runtime.ReadMemStats(&ms1)
		out.Handled++
		alloc := int64(ms1.TotalAlloc - ms0.TotalAlloc)
		if alloc > out.MaxAlloc {
			out.MaxAlloc = alloc
		}
		drainWriter()
		if writePanic == "" {
			writePanic = fp.Panic + fp2.Panic
		}
		if writePanic != "" {
			viol("writer-panic", "a message the peer was made to write cannot be serialised, or its handler panicked: "+writePanic)
			return out
		}
		if r.panicked != "" {
			key := "handler-panic"
			switch {
			case strings.Contains(r.panicked, "out of range"), strings.Contains(r.panicked, "slice bounds"):
				key += ":out-of-range"
			case strings.Contains(r.panicked, "makeslice"), strings.Contains(r.panicked, "out of memory"):
				key += ":allocation"
			}
			viol(key+":"+st.A.K, "handling panicked: "+r.panicked)
			return out
		}
		// memory: in proportion to the message; the metadata buffer (<= 128 MiB) is sanctioned
		// for an extended handshake / metadata message that announces a size; before the
		// metadata is known per-index tables are sized by the largest index seen (capped)
		bound := int64(64<<10) + 256*int64(wire)
		if !infoKnown {
			bound += 16 << 20
			if st.A.K == "Ext0" || st.A.K == "Metadata" {
				bound += 129 << 20
			}
		}
		if st.A.K == "MetadataComplete" {
			bound += 1 << 20
		}
		if alloc > bound {
			viol("alloc-unbounded:"+st.A.K, fmt.Sprintf("%d bytes allocated while handling a message of %d bytes (bound %d)", alloc, wire, bound))
		}
		// C12: the majority vote on the metadata size means something only if a peer has one vote.  Only the
		// hostile peer ever announces a size here.
		if !infoKnown {
			_, _, votes := t.VerifInfoState()
			total := 0
			for _, n := range votes {
				total += n
			}
			if total > 1 {
				viol("vote-stuffing", fmt.Sprintf("one peer has cast %d votes on the metadata size (%v): repeated extended handshakes are counted again", total, votes))
				return out
			}
		}
		got := "ok"
		if r.err != nil {
			got = "disconnect"
		}
		if got != st.S.Outcome {
			desc, _ := json.Marshal(st.A)
			out.Nonconf = append(out.Nonconf, fmt.Sprintf("step %d %s: %s (%v), specification %s", stepNo, desc, got, r.err, st.S.Outcome))
			return out
		}
		if st.A.K == "MetadataComplete" {
			infoKnown = true
		}
		if got == "disconnect" || len(out.Violations) > 0 {
			return out
		}
	}
	return out
}
