// Package trackerb binds spec/Tracker.tla and spec/UdpExchange.tla (C15) to
// the tracker package: a local HTTP server / UDP socket plays the tracker
// with scripted replies, the clock is advanced with tracker.VerifShift.
package trackerb

import (
	"context"
	"encoding/binary"
	"encoding/json"
	"errors"
	"fmt"
	"net"
	"net/http"
	"net/netip"
	"os"
	"sort"
	"strings"
	"sync"
	"sync/atomic"
	"time"

	"github.com/jech/storrent/tracker"
)

type Label struct {
	A string `json:"a"`
	E int    `json:"e"`
	R string `json:"r"`
}

type State struct {
	Locked    bool     `json:"locked"`
	El        int      `json:"el"`
	Interval  int      `json:"interval"`
	Err       bool     `json:"err"`
	InAnn     bool     `json:"inAnn"`
	NContacts int      `json:"ncontacts"`
	Learnt    []string `json:"learnt"`
	Res       string   `json:"res"`
}

type Step struct {
	A Label `json:"a"`
	S State `json:"s"`
}

type Scenario struct {
	ID    int    `json:"id"`
	Kind  string `json:"kind"` // "http", "udp", "udploop"
	Steps []Step `json:"steps"`
	// udploop
	Hist   []string `json:"hist"`
	Result string   `json:"result"`
	Sent   int      `json:"sent"`
	// udpcut: an announce reply holding K whole peer entries followed by J stray bytes
	K int `json:"k"`
	J int `json:"j"`
	// udpfam: what the tracker does on each address family: "ok:<interval>", "error", "absent"
	V4 string `json:"v4"`
	V6 string `json:"v6"`
}

type Viol struct {
	Prop string `json:"prop"`
	Key  string `json:"key"`
	What string `json:"what"`
	Step int    `json:"step"`
}

type Out struct {
	ID         int      `json:"id"`
	Violations []Viol   `json:"violations,omitempty"`
	Nonconf    []string `json:"nonconf,omitempty"`
	StepsDone  int      `json:"steps_done"`
	Note       string   `json:"note,omitempty"`
}

// ---------------------------------------------------------------------------
// udploop: the retransmission loop over a scripted connection

type fakeConn struct {
	script []string
	k      int
	sent   int
	tid    uint32
	action uint32
}

func (c *fakeConn) Write(p []byte) (int, error) { c.sent++; return len(p), nil }
func (c *fakeConn) Read(p []byte) (int, error) {
	if c.k >= len(c.script) {
		return 0, os.ErrDeadlineExceeded
	}
	cls := c.script[c.k]
	c.k++
	be := binary.BigEndian
	switch cls {
	case "timeout":
		return 0, os.ErrDeadlineExceeded
	case "short":
		be.PutUint32(p, c.action)
		be.PutUint32(p[4:], c.tid)
		return 8, nil
	case "foreign":
		be.PutUint32(p, c.action)
		be.PutUint32(p[4:], c.tid+1)
		return 20, nil
	case "error3":
		be.PutUint32(p, 3)
		be.PutUint32(p[4:], c.tid)
		copy(p[8:], "tracker says no.....")
		return 28, nil
	case "wrong":
		be.PutUint32(p, c.action+1)
		be.PutUint32(p[4:], c.tid)
		return 20, nil
	case "ok":
		be.PutUint32(p, c.action)
		be.PutUint32(p[4:], c.tid)
		return 20, nil
	}
	return 0, errors.New("bad script")
}
func (c *fakeConn) Close() error                       { return nil }
func (c *fakeConn) LocalAddr() net.Addr                { return &net.UDPAddr{} }
func (c *fakeConn) RemoteAddr() net.Addr               { return &net.UDPAddr{} }
func (c *fakeConn) SetDeadline(t time.Time) error      { return nil }
func (c *fakeConn) SetReadDeadline(t time.Time) error  { return nil }
func (c *fakeConn) SetWriteDeadline(t time.Time) error { return nil }

func runLoop(sc *Scenario, out *Out) {
	for _, action := range []uint32{0, 1} {
		conn := &fakeConn{script: sc.Hist, tid: 0xCAFE0000 + uint32(sc.ID), action: action}
		result := ""
		func() {
			defer func() {
				if p := recover(); p != nil {
					result = "panic"
					out.Violations = append(out.Violations, Viol{"C15", "udp-reply-panic",
						fmt.Sprintf("udpRequestReply panicked (%v) on the reply sequence %v", p, sc.Hist), 0})
				}
			}()
			r, err := tracker.VerifUDPRequestReply(context.Background(), conn, make([]byte, 16), 16, action, conn.tid)
			switch {
			case err != nil:
				result = "error"
			case r != nil:
				result = "ok"
			default:
				result = "none"
				out.Violations = append(out.Violations, Viol{"C15", "udp-reply-none",
					fmt.Sprintf("udpRequestReply returned neither a reply nor an error on %v", sc.Hist), 0})
			}
		}()
		if conn.sent > 4 {
			out.Violations = append(out.Violations, Viol{"C15", "udp-unbounded-retransmission",
				fmt.Sprintf("%d datagrams sent for one exchange on %v", conn.sent, sc.Hist), 0})
		}
		if result != "panic" && (result != sc.Result || conn.sent != sc.Sent) {
			out.Nonconf = append(out.Nonconf, fmt.Sprintf("reply sequence %v: result %s after %d datagrams, specification %s after %d",
				sc.Hist, result, conn.sent, sc.Result, sc.Sent))
		}
	}
}

// ---------------------------------------------------------------------------
// scripted tracker servers

var peerAddr = map[string]netip.AddrPort{
	"a": netip.MustParseAddrPort("192.0.2.1:6881"),
	"b": netip.MustParseAddrPort("192.0.2.2:51413"),
	"c": netip.MustParseAddrPort("198.51.100.3:80"),
	"d": netip.MustParseAddrPort("[2001:db8::4]:6889"),
}

func nameOf(a netip.AddrPort) string {
	for n, p := range peerAddr {
		if p == a {
			return n
		}
	}
	return "?" + a.String()
}

type replyInfo struct {
	fail     bool
	interval int64 // the interval a successful reply announces, or the 'retry in' of a failure reason (seconds)
	peers    []string
}

var replies = map[string]replyInfo{
	"ok30": {false, 30, []string{"a", "b"}}, "ok3600": {false, 3600, []string{"c"}}, "okneg": {false, -5, []string{"d"}},
	"okodd": {false, 1800, nil}, "okp6odd": {false, 1800, []string{"a"}}, "fail": {true, 0, nil}, "malformed": {true, 0, nil}, "reason3": {true, 180, nil}, "never": {true, 8640000, nil},
	"reason30": {true, 1800, nil},
}

func compact4(names ...string) string {
	var b []byte
	for _, n := range names {
		a := peerAddr[n]
		ip := a.Addr().As4()
		b = append(b, ip[:]...)
		b = binary.BigEndian.AppendUint16(b, a.Port())
	}
	return string(b)
}

func bs(s string) string { return fmt.Sprintf("%d:%s", len(s), s) }

func httpBody(cls string) (int, string) {
	switch cls {
	case "ok30":
		return 200, "d8:intervali30e5:peers" + bs(compact4("a", "b")) + "e"
	case "ok3600":
		return 200, "d8:intervali3600e5:peersld2:ip12:198.51.100.34:porti80eed2:ip8:not-an-i4:porti1eeee"
	case "okneg":
		a := peerAddr["d"]
		ip := a.Addr().As16()
		p6 := string(ip[:]) + string(binary.BigEndian.AppendUint16(nil, a.Port()))
		return 200, "d8:intervali-5e6:peers6" + bs(p6) + "e"
	case "okodd":
		return 200, "d8:intervali1800e5:peers" + bs(compact4("a")+"x") + "e"
	case "okp6odd":
		return 200, "d8:intervali1800e5:peers" + bs(compact4("a")) + "6:peers6" + bs("0123456789abcdefXYZ") + "e"
	case "fail":
		return 500, "oops"
	case "malformed":
		return 200, "d8:intervali30e5:peers4:ab"
	case "reason3":
		return 200, "d14:failure reason9:go away..8:retry in1:3e"
	case "never":
		return 200, "d14:failure reason9:go away..8:retry in5:nevere"
	case "reason30":
		return 200, "d14:failure reason9:go away..8:retry in2:30e"
	}
	return 500, ""
}

type server interface {
	url() string
	arrived() <-chan struct{} // one signal per contact
	release(cls string)
	close()
}

type httpServer struct {
	ln   net.Listener
	srv  *http.Server
	arr  chan struct{}
	rel  chan string
	done chan struct{}
}

func newHTTP() (*httpServer, error) {
	ln, err := net.Listen("tcp4", "127.0.0.1:0")
	if err != nil {
		return nil, err
	}
	s := &httpServer{ln: ln, arr: make(chan struct{}, 16), rel: make(chan string), done: make(chan struct{})}
	s.srv = &http.Server{Handler: http.HandlerFunc(func(w http.ResponseWriter, r *http.Request) {
		s.arr <- struct{}{}
		select {
		case cls := <-s.rel:
			code, body := httpBody(cls)
			w.WriteHeader(code)
			w.Write([]byte(body))
		case <-s.done:
		}
	})}
	go s.srv.Serve(ln)
	return s, nil
}
func (s *httpServer) url() string              { return "http://" + s.ln.Addr().String() + "/announce" }
func (s *httpServer) arrived() <-chan struct{} { return s.arr }
func (s *httpServer) release(cls string)       { s.rel <- cls }
func (s *httpServer) close()                   { close(s.done); s.srv.Close() }

type udpServer struct {
	conn *net.UDPConn
	arr  chan struct{}
	rel  chan string
	done chan struct{}
	wg   sync.WaitGroup
}

func newUDP() (*udpServer, error) {
	c, err := net.ListenUDP("udp4", &net.UDPAddr{IP: net.IPv4(127, 0, 0, 1)})
	if err != nil {
		return nil, err
	}
	s := &udpServer{conn: c, arr: make(chan struct{}, 16), rel: make(chan string, 1), done: make(chan struct{})}
	s.wg.Add(1)
	go s.loop()
	return s, nil
}

func (s *udpServer) loop() {
	defer s.wg.Done()
	buf := make([]byte, 4096)
	cls := ""
	be := binary.BigEndian
	for {
		n, from, err := s.conn.ReadFromUDP(buf)
		if err != nil {
			return
		}
		if n < 16 {
			continue
		}
		action := be.Uint32(buf[8:])
		tid := be.Uint32(buf[12:])
		if action == 0 && cls == "" {
			// first datagram of an announce: a contact; wait for the script
			s.arr <- struct{}{}
			select {
			case cls = <-s.rel:
			case <-s.done:
				return
			}
		}
		var rep []byte
		switch {
		case cls == "fail":
			rep = be.AppendUint32(rep, 3)
			rep = be.AppendUint32(rep, tid)
			rep = append(rep, "torrent not registered"...)
			cls = ""
		case cls == "malformed":
			rep = be.AppendUint32(rep, action)
			rep = be.AppendUint32(rep, tid)
			// too short for both exchanges: every retransmission gets the same
		case action == 0:
			rep = be.AppendUint32(rep, 0)
			rep = be.AppendUint32(rep, tid)
			rep = be.AppendUint64(rep, 0x1122334455667788)
		default:
			ri := replies[cls]
			iv := ri.interval
			if iv < 0 {
				iv = 0
			}
			rep = be.AppendUint32(rep, 1)
			rep = be.AppendUint32(rep, tid)
			rep = be.AppendUint32(rep, uint32(iv))
			rep = be.AppendUint32(rep, 7)
			rep = be.AppendUint32(rep, 9)
			for _, p := range ri.peers {
				if peerAddr[p].Addr().Is4() {
					rep = append(rep, compact4(p)...)
				}
			}
			cls = ""
		}
		s.conn.WriteToUDP(rep, from)
		if cls == "malformed" {
			// the client gives up after four attempts
			s.conn.SetReadDeadline(time.Now().Add(300 * time.Millisecond))
			for k := 0; k < 3; k++ {
				n, from, err = s.conn.ReadFromUDP(buf)
				if err != nil {
					break
				}
				s.conn.WriteToUDP(rep, from)
			}
			s.conn.SetReadDeadline(time.Time{})
			cls = ""
		}
	}
}
func (s *udpServer) url() string              { return "udp://" + s.conn.LocalAddr().String() }
func (s *udpServer) arrived() <-chan struct{} { return s.arr }
func (s *udpServer) release(cls string)       { s.rel <- cls }
func (s *udpServer) close()                   { close(s.done); s.conn.Close(); s.wg.Wait() }

// ---------------------------------------------------------------------------
// lifecycle replay

type annResult struct {
	err    error
	learnt []string
}

func runLifecycle(sc *Scenario, out *Out) {
	var srv server
	var err error
	if sc.Kind == "udp" {
		srv, err = newUDP()
	} else {
		srv, err = newHTTP()
	}
	if err != nil {
		out.Note = "server: " + err.Error()
		return
	}
	defer srv.close()
	tr := tracker.New(srv.url())
	var pending chan annResult
	ncontacts := 0
	lastAnnounced := int64(0)
	var learnt []string
	stepNo := 0
	viol := func(key, what string) {
		out.Violations = append(out.Violations, Viol{"C15", key, what, stepNo})
	}
	announce := func() chan annResult {
		ch := make(chan annResult, 1)
		go func() {
			var mu sync.Mutex
			var got []string
			ctx, cancel := context.WithTimeout(context.Background(), 20*time.Second)
			defer cancel()
			err := tr.Announce(ctx, make([]byte, 20), make([]byte, 20), 50, 1000, 6881, 6881, "",
				func(a netip.AddrPort) bool {
					mu.Lock()
					got = append(got, nameOf(a))
					mu.Unlock()
					return true
				})
			mu.Lock()
			sort.Strings(got)
			ch <- annResult{err, got}
			mu.Unlock()
		}()
		return ch
	}
	for k, st := range sc.Steps {
		stepNo = k + 1
		res := "-"
		switch st.A.A {
		case "Advance":
			cur := tracker.VerifState(tr)
			d := time.Duration(st.A.E)*time.Second - cur.Elapsed
			tracker.VerifShift(tr, d)
		case "GetState":
			s, _ := tr.GetState()
			res = s.String()
		case "AnnounceBegin", "AnnounceWhileBusy":
			before := tracker.VerifState(tr)
			ch := announce()
			select {
			case <-srv.arrived():
				res = "contact"
				ncontacts++
				if st.A.A == "AnnounceWhileBusy" || pending != nil {
					viol("contact-while-busy", "the tracker was contacted by a second announce while one was in progress")
				}
				// C15: minimum gap between contacts
				if before.Contacted {
					min := int64(300)
					if lastAnnounced > 60 && lastAnnounced < 315360000 && lastAnnounced > min {
						min = lastAnnounced
					}
					if int64(before.Elapsed/time.Second) < min {
						viol("contact-too-early", fmt.Sprintf("the tracker was contacted again %d s after the previous attempt; the minimum is %d s",
							int64(before.Elapsed/time.Second), min))
					}
				}
				pending = ch
			case r := <-ch:
				if errors.Is(r.err, tracker.ErrNotReady) {
					res = "notready"
				} else {
					res = fmt.Sprintf("returned:%v", r.err)
				}
				if pending == nil {
					if s := tracker.VerifState(tr); s.Locked {
						viol("stuck-busy", "the tracker is left in the busy state after an announce attempt that was refused ("+res+")")
					}
				}
			case <-time.After(15 * time.Second):
				out.Note = "announce neither contacted the tracker nor returned"
				return
			}
		case "AnnounceEnd":
			if pending == nil {
				out.Nonconf = append(out.Nonconf, fmt.Sprintf("step %d: no announce in progress", stepNo))
				return
			}
			srv.release(st.A.R)
			var r annResult
			select {
			case r = <-pending:
			case <-time.After(20 * time.Second):
				out.Note = "announce did not return after the reply"
				return
			}
			pending = nil
			ri := replies[st.A.R]
			learnt = r.learnt
			want := append([]string{}, ri.peers...)
			if sc.Kind == "udp" {
				// the IPv4 exchange carries IPv4 peers only
				want = nil
				for _, p := range ri.peers {
					if peerAddr[p].Addr().Is4() {
						want = append(want, p)
					}
				}
			}
			sort.Strings(want)
			if strings.Join(learnt, ",") != strings.Join(want, ",") {
				viol("peers-differ", fmt.Sprintf("reply %s encodes the peers %v, the client learnt %v", st.A.R, want, learnt))
			}
			if r.err != nil {
				res = "error"
			} else {
				res = "ok"
			}
			// what the tracker announced in this reply: an interval, or - with a failure reason - 'retry in'
			lastAnnounced = ri.interval
			if s := tracker.VerifState(tr); s.Locked {
				viol("stuck-busy", "the tracker is left in the busy state after the announce returned ("+st.A.R+")")
			}
		}
		// conformance with the specification's state
		s := tracker.VerifState(tr)
		exp := st.S
		if s.Locked != exp.Locked {
			out.Nonconf = append(out.Nonconf, fmt.Sprintf("step %d (%s): locked %v, specification %v", stepNo, st.A.A, s.Locked, exp.Locked))
		}
		if pending == nil {
			if int(s.Interval/time.Second) != exp.Interval {
				out.Nonconf = append(out.Nonconf, fmt.Sprintf("step %d (%s %s): interval %v, specification %d s", stepNo, st.A.A, st.A.R, s.Interval, exp.Interval))
			}
			if (s.Err != "") != exp.Err {
				out.Nonconf = append(out.Nonconf, fmt.Sprintf("step %d (%s): err %q, specification %v", stepNo, st.A.A, s.Err, exp.Err))
			}
		}
		if ncontacts != exp.NContacts {
			out.Nonconf = append(out.Nonconf, fmt.Sprintf("step %d (%s): %d contacts, specification %d", stepNo, st.A.A, ncontacts, exp.NContacts))
		}
		if res != exp.Res && !(st.A.A == "Advance") {
			out.Nonconf = append(out.Nonconf, fmt.Sprintf("step %d (%s): result %s, specification %s", stepNo, st.A.A, res, exp.Res))
		}
		out.StepsDone = stepNo
		if len(out.Violations) > 0 {
			break
		}
		// a difference with the specification's state is reported once; the run goes on with the real tracker, so
		// that what the property itself forbids (a contact too early, a tracker left busy) is still observed
		if len(out.Nonconf) > 1 {
			out.Nonconf = out.Nonconf[:1]
		}
	}
	if pending != nil {
		srv.release("fail")
		select {
		case <-pending:
		case <-time.After(20 * time.Second):
		}
	}
}

// runUDPCut: a well-formed connect exchange, then an announce reply whose peer
// list is cut in the middle of an entry.  C15: an error, or exactly the peers
// encoded in the reply - never an address the reply does not hold.
func runUDPCut(sc *Scenario, out *Out) {
	c, err := net.ListenUDP("udp4", &net.UDPAddr{IP: net.IPv4(127, 0, 0, 1)})
	if err != nil {
		out.Note = err.Error()
		return
	}
	defer c.Close()
	names := []string{"a", "b", "c"}[:sc.K]
	go func() {
		buf := make([]byte, 4096)
		be := binary.BigEndian
		for {
			n, from, err := c.ReadFromUDP(buf)
			if err != nil {
				return
			}
			if n < 16 {
				continue
			}
			action, tid := be.Uint32(buf[8:]), be.Uint32(buf[12:])
			var rep []byte
			if action == 0 {
				rep = be.AppendUint32(rep, 0)
				rep = be.AppendUint32(rep, tid)
				rep = be.AppendUint64(rep, 0x1122334455667788)
			} else {
				rep = be.AppendUint32(rep, 1)
				rep = be.AppendUint32(rep, tid)
				rep = be.AppendUint32(rep, 1800)
				rep = be.AppendUint32(rep, 7)
				rep = be.AppendUint32(rep, 9)
				rep = append(rep, compact4(names...)...)
				// the stray bytes are the beginning of a further entry
				rep = append(rep, []byte{203, 0, 113, 9, 200, 213}[:sc.J]...)
			}
			c.WriteToUDP(rep, from)
		}
	}()
	tr := tracker.New("udp://" + c.LocalAddr().String())
	var mu sync.Mutex
	var got []string
	ctx, cancel := context.WithTimeout(context.Background(), 20*time.Second)
	defer cancel()
	var aerr error
	func() {
		defer func() {
			if p := recover(); p != nil {
				out.Violations = append(out.Violations, Viol{"C15", "udp-reply-panic", fmt.Sprintf("the UDP announce panicked on a reply with %d entries and %d stray bytes: %v", sc.K, sc.J, p), 0})
			}
		}()
		aerr = tr.Announce(ctx, make([]byte, 20), make([]byte, 20), 50, 1000, 6881, 6881, "",
			func(a netip.AddrPort) bool {
				mu.Lock()
				got = append(got, a.String())
				mu.Unlock()
				return true
			})
	}()
	mu.Lock()
	defer mu.Unlock()
	enc := map[string]bool{}
	for _, n := range names {
		enc[peerAddr[n].String()] = true
	}
	for _, g := range got {
		if !enc[g] {
			out.Violations = append(out.Violations, Viol{"C15", "peer-not-in-reply", fmt.Sprintf("the client learnt %s from a UDP reply that encodes %v followed by %d stray bytes (err %v)", g, names, sc.J, aerr), 0})
			break
		}
	}
	if aerr == nil && len(got) != sc.K {
		out.Violations = append(out.Violations, Viol{"C15", "peers-differ", fmt.Sprintf("the announce succeeded but learnt %v; the reply encodes %v", got, names), 0})
	}
	if s := tracker.VerifState(tr); s.Locked {
		out.Violations = append(out.Violations, Viol{"C15", "stuck-busy", "the tracker is left in the busy state after the announce returned", 0})
	}
	out.StepsDone = 1
}

// runUDPFam: a UDP tracker named "localhost", reached over IPv4 and IPv6 in
// parallel; each family answers, fails or is absent independently.  C15: the
// announce succeeds iff one family does, and the tracker is not contacted again
// before the larger of five minutes and the (largest) announced interval.
func runUDPFam(sc *Scenario, out *Out) {
	viol := func(key, what string) {
		out.Violations = append(out.Violations, Viol{"C15", key, fmt.Sprintf("%s (IPv4: %s, IPv6: %s)", what, sc.V4, sc.V6), 0})
	}
	// The sandbox's "localhost" has no IPv6 address, so the two families cannot both be reachable under one name:
	// the tracker is named by an address literal; the other family then fails at once (V4 or V6 must be "absent").
	host := "127.0.0.1"
	mode := sc.V4
	if sc.V4 == "absent" {
		host, mode = "[::1]", sc.V6
	}
	network := map[string]string{"127.0.0.1": "udp4", "[::1]": "udp6"}[host]
	c, err := net.ListenUDP(network, &net.UDPAddr{IP: net.ParseIP(strings.Trim(host, "[]"))})
	if err != nil {
		out.Note = "listen " + host + ": " + err.Error()
		return
	}
	defer c.Close()
	port := c.LocalAddr().(*net.UDPAddr).Port
	var contacts int32
	serve := func(c *net.UDPConn, mode string) {
		var interval uint32
		fmt.Sscanf(mode, "ok:%d", &interval)
		buf := make([]byte, 4096)
		be := binary.BigEndian
		for {
			n, from, err := c.ReadFromUDP(buf)
			if err != nil {
				return
			}
			if n < 16 {
				continue
			}
			action, tid := be.Uint32(buf[8:]), be.Uint32(buf[12:])
			var rep []byte
			switch {
			case mode == "error":
				atomic.AddInt32(&contacts, 1)
				rep = be.AppendUint32(rep, 3)
				rep = be.AppendUint32(rep, tid)
				rep = append(rep, "go away"...)
			case action == 0:
				atomic.AddInt32(&contacts, 1)
				rep = be.AppendUint32(rep, 0)
				rep = be.AppendUint32(rep, tid)
				rep = be.AppendUint64(rep, 0x1122334455667788)
			default:
				rep = be.AppendUint32(rep, 1)
				rep = be.AppendUint32(rep, tid)
				rep = be.AppendUint32(rep, interval)
				rep = be.AppendUint32(rep, 1)
				rep = be.AppendUint32(rep, 1)
			}
			c.WriteToUDP(rep, from)
		}
	}
	go serve(c, mode)
	tr := tracker.New(fmt.Sprintf("udp://%s:%d", host, port))
	announce := func() (error, int32) {
		before := atomic.LoadInt32(&contacts)
		ctx, cancel := context.WithTimeout(context.Background(), 40*time.Second)
		defer cancel()
		err := tr.Announce(ctx, make([]byte, 20), make([]byte, 20), 50, 1000, 6881, 6881, "", func(netip.AddrPort) bool { return true })
		return err, atomic.LoadInt32(&contacts) - before
	}
	want := int64(-1) // the largest interval announced by a family that answered
	for _, m := range []string{sc.V4, sc.V6} {
		var iv int64
		if n, _ := fmt.Sscanf(m, "ok:%d", &iv); n == 1 && iv > want {
			want = iv
		}
	}
	aerr, n := announce()
	if n == 0 {
		out.Note = "the first announce contacted nobody"
		return
	}
	if want >= 0 && aerr != nil {
		viol("announce-fails-although-a-family-answered", fmt.Sprintf("the announce returned %v although one address family answered", aerr))
	}
	if s := tracker.VerifState(tr); s.Locked {
		viol("stuck-busy", "the tracker is left in the busy state after the announce returned")
	}
	if want < 0 {
		out.StepsDone = 1
		return
	}
	// the earliest moment of the next contact: max(5 min, interval) (the code also applies a 15 min floor
	// of its own when the interval is a minute or less: later than required, never earlier)
	min := int64(300)
	if want > min {
		min = want
	}
	tracker.VerifShift(tr, time.Duration(min-20)*time.Second)
	if err, n := announce(); n > 0 {
		viol("contact-too-early", fmt.Sprintf("the tracker was contacted again %d s after an announce that was told an interval of %d s (returned %v)", min-20, want, err))
	}
	// anti-vacuity: much later it is contacted again
	tracker.VerifShift(tr, 3*time.Hour)
	if _, n := announce(); n == 0 {
		out.Nonconf = append(out.Nonconf, "the tracker is not contacted again three hours later")
	}
	out.StepsDone = 3
}

// Handle is the worker-side entry point.
func Handle(in []byte) any {
	var sc Scenario
	if err := json.Unmarshal(in, &sc); err != nil {
		return &Out{Note: "bad scenario: " + err.Error()}
	}
	out := &Out{ID: sc.ID}
	switch sc.Kind {
	case "udploop":
		runLoop(&sc, out)
	case "udpcut":
		runUDPCut(&sc, out)
	case "udpfam":
		runUDPFam(&sc, out)
	case "http", "udp":
		runLifecycle(&sc, out)
	default:
		out.Note = "unknown kind"
	}
	return out
}
