// Package wire binds spec/Framing.tla (C04) and spec/Codec.tla (C06) to
// protocol.Read / protocol.Write: TLC enumerates abstract cases, the harness
// turns each into bytes and runs the real decoder / encoder on it.
package wire

import (
	"bufio"
	"bytes"
	"encoding/binary"
	"encoding/json"
	"fmt"
	"io"
	"math/rand"
	"net/netip"
	"reflect"
	"runtime"
	"sort"
	"strconv"
	"strings"

	"github.com/jech/storrent/pex"
	"github.com/jech/storrent/protocol"

	"verifharness/internal/benc"
)

type FrameIn struct {
	Lh   int    `json:"lh"`
	Ll   int    `json:"ll"`
	Id   int    `json:"id"`
	Sub  int    `json:"sub"`
	Body string `json:"body"`
	Cut  string `json:"cut"`
}

type Case struct {
	Kind string `json:"kind"` // "frame", "codec", "stream"
	ID   int    `json:"id"`
	Seed int64  `json:"seed"`
	// frame
	In       *FrameIn `json:"in,omitempty"`
	Out      string   `json:"out,omitempty"`
	Consumed int      `json:"consumed,omitempty"`
	Alloc    string   `json:"alloc,omitempty"`
	// codec
	M    map[string]any   `json:"m,omitempty"`
	Toks []map[string]any `json:"toks,omitempty"`
	// stream
	Cases []Case `json:"cases,omitempty"`
}

type Viol struct {
	Prop string `json:"prop"`
	Key  string `json:"key"`
	What string `json:"what"`
}

type Obs struct {
	ID         int      `json:"id"`
	Kind       string   `json:"kind"`
	In         *FrameIn `json:"in,omitempty"`
	Len        int64    `json:"len"`
	Out        string   `json:"out"`      // message kind, "error", "none", "panic"
	Consumed   int64    `json:"consumed"` // bytes consumed from the start of the frame
	FrameEnd   int64    `json:"frame_end"`
	AllocBytes int64    `json:"alloc_bytes"`
	Alloc      string   `json:"alloc"` // "none"/"frame"/"huge" classification of AllocBytes
	NextOK     bool     `json:"next_ok"`
	Violations []Viol   `json:"violations,omitempty"`
	Nonconf    []string `json:"nonconf,omitempty"`
	Checks     int      `json:"checks"`
	Note       string   `json:"note,omitempty"`
}

type countingReader struct {
	r io.Reader
	n int64
}

func (c *countingReader) Read(p []byte) (int, error) {
	n, err := c.r.Read(p)
	c.n += int64(n)
	return n, err
}

func kindOf(m protocol.Message) string {
	if m == nil {
		return "none"
	}
	s := fmt.Sprintf("%T", m)
	return strings.TrimPrefix(s, "protocol.")
}

var nextFrame = []byte{0, 0, 0, 5, 4, 1, 2, 3, 4} // Have(0x01020304)

func bencBody(sub int, class string) []byte {
	valid := map[int]string{
		0: "d1:md11:ut_metadatai2e6:ut_pexi1ee1:pi6881e4:reqqi250e1:v4:teste",
		1: "d5:added6:\x01\x02\x03\x04\x1a\xe17:added.f1:\x00e",
		2: "d8:msg_typei0e5:piecei0ee",
	}
	req := map[int]string{0: "", 1: "", 2: "8:msg_typei0e5:piecei0e"}
	if strings.HasPrefix(class, "kv:") {
		// one known key with a value of an unexpected shape, the other required keys as in the valid body
		parts := strings.SplitN(class[3:], ":", 2)
		shapes := map[string]string{"estr": "0:", "str0": "1:0", "strnul": "1:\x00", "str1": "1:1", "strx": "3:abc", "int0": "i0e", "int1": "i1e",
			"intneg": "i-1e", "intbig": "i4294967296e", "list": "le", "dict": "de", "liststr": "l1:ae", "dictint": "d1:ai1ee", "dictstr": "d1:a0:e"}
		d := map[string]string{}
		if sub == 2 {
			d["msg_type"], d["piece"] = "i0e", "i0e"
		}
		d[parts[0]] = shapes[parts[1]]
		keys := make([]string, 0, len(d))
		for k := range d {
			keys = append(keys, k)
		}
		sort.Strings(keys)
		b := "d"
		for _, k := range keys {
			b += fmt.Sprintf("%d:%s%s", len(k), k, d[k])
		}
		return []byte(b + "e")
	}
	switch class {
	case "valid":
		return []byte(valid[sub])
	case "trailing":
		if sub == 2 {
			return []byte("d8:msg_typei1e5:piecei0e10:total_sizei5eehello")
		}
		return []byte(valid[sub] + "xyz")
	case "dupkeys":
		return []byte("d" + req[sub] + "1:pi1e1:pi2ee")
	case "truncated":
		v := valid[sub]
		return []byte(v[:len(v)-2])
	case "nondict":
		return []byte("i5e")
	case "hugestr":
		return []byte("d1:v1073741824:")
	case "empty":
		return nil
	case "deep":
		n := 20000
		return []byte("d" + req[sub] + "1:x" + strings.Repeat("l", n) + strings.Repeat("e", n) + "e")
	case "hugeint":
		return []byte("d" + req[sub] + "1:pi99999999999999999999ee")
	case "wrongtype":
		return []byte("d1:mi5e" + req[sub] + "e")
	case "unknownkeys":
		return []byte("d3:bar2:hi3:fooi1e" + req[sub] + "e")
	case "pexshortflags":
		// well-formed peer lists whose flag strings are shorter than the number of peers
		return []byte("d5:added12:\x01\x02\x03\x04\x1a\xe1\x05\x06\x07\x08\x1a\xe27:added.f1:\x016:added618:0123456789abcdefXY8:added6.f0:" + req[sub] + "e")
	case "pexoddlen":
		return []byte("d5:added7:\x01\x02\x03\x04\x1a\xe1\x057:added.f2:\x00\x006:added619:0123456789abcdefXYZ7:dropped5:\x01\x02\x03\x04\x05" + req[sub] + "e")
	case "negint":
		return []byte("d" + req[sub] + "1:pi-1ee")
	}
	return nil
}

// BencFrame is the well-framed extended message (id 20, the given sub-id) whose payload is the bencoded body of the
// given class of Framing.tla; other bindings send it to a live peer.
func BencFrame(sub int, class string) []byte {
	body := append([]byte{20, byte(sub)}, bencBody(sub, class)...)
	return append([]byte{byte(len(body) >> 24), byte(len(body) >> 16), byte(len(body) >> 8), byte(len(body))}, body...)
}

func classifyAlloc(n int64, flen int64) string {
	switch {
	case n <= 64<<10:
		return "none"
	case n <= 96*flen+64<<10:
		return "frame"
	}
	return "huge"
}

// runFrame concretises an abstract Framing input and runs protocol.Read on it.
func runFrame(c *Case) *Obs {
	in := c.In
	o := &Obs{ID: c.ID, Kind: "frame", In: in}
	r := rand.New(rand.NewSource(c.Seed + int64(c.ID)))
	var body []byte
	var flen int64
	auto := in.Lh < 0
	if auto {
		b := bencBody(in.Sub, in.Body)
		body = append([]byte{byte(in.Id), byte(in.Sub)}, b...)
		flen = int64(len(body))
	} else {
		flen = int64(in.Lh)*65536 + int64(in.Ll)
		n := flen
		if n > 1<<20+64 {
			n = 64 // a frame that will be refused: only a few bytes follow
		}
		if n >= 1 {
			body = make([]byte, n)
			for i := range body {
				body[i] = byte(0x80 | r.Intn(0x7f)) // never valid bencoding
			}
			body[0] = byte(in.Id)
			if in.Id == 20 && n >= 2 {
				body[1] = byte(in.Sub)
				if in.Sub == 4 && n >= 3 {
					switch in.Body {
					case "v0":
						body[2] = 0
					case "v1":
						body[2] = 1
					default:
						body[2] = 2
					}
				}
			}
		}
	}
	o.Len = flen
	o.FrameEnd = 4 + flen
	frame := binary.BigEndian.AppendUint32(nil, uint32(flen))
	frame = append(frame, body...)
	var stream []byte
	switch in.Cut {
	case "no":
		stream = append(append([]byte{}, frame...), nextFrame...)
	case "mid":
		stream = frame[:len(frame)-1]
	case "inlen":
		stream = frame[:2]
	case "afterlen":
		stream = frame[:4]
	case "afterid":
		if len(frame) >= 5 {
			stream = frame[:5]
		} else {
			stream = frame
		}
	}
	if !auto && flen > 1<<20+64 && in.Cut == "no" {
		// the announced frame is not really there
		stream = append(append([]byte{}, frame...), nextFrame...)
	}
	cr := &countingReader{r: bytes.NewReader(stream)}
	br := bufio.NewReaderSize(cr, 4096)
	br.Peek(1)
	var ms0, ms1 runtime.MemStats
	runtime.GC()
	runtime.ReadMemStats(&ms0)
	var m protocol.Message
	var err error
	panicked := ""
	func() {
		defer func() {
			if p := recover(); p != nil {
				panicked = fmt.Sprint(p)
			}
		}()
		m, err = protocol.Read(br, nil)
	}()
	runtime.ReadMemStats(&ms1)
	o.AllocBytes = int64(ms1.TotalAlloc - ms0.TotalAlloc)
	o.Consumed = cr.n - int64(br.Buffered())
	o.Alloc = classifyAlloc(o.AllocBytes, flen)
	switch {
	case panicked != "":
		o.Out = "panic"
	case err != nil:
		o.Out = "error"
	default:
		o.Out = kindOf(m)
	}
	desc := fmt.Sprintf("frame len=%d id=%d sub=%d body=%s cut=%s", flen, in.Id, in.Sub, in.Body, in.Cut)
	viol := func(key, what string) {
		o.Violations = append(o.Violations, Viol{"C04", key, what + " (" + desc + ")"})
	}
	if o.Out == "panic" {
		viol("decode-panic", "protocol.Read panicked: "+panicked)
	}
	if o.Out == "none" {
		viol(fmt.Sprintf("nil-nil:id%d", in.Id), "protocol.Read returned no message and no error")
	}
	isMsg := o.Out != "error" && o.Out != "none" && o.Out != "panic"
	if isMsg && o.Consumed != o.FrameEnd {
		viol("misframed", fmt.Sprintf("a %s message was returned after consuming %d bytes, the frame has %d", o.Out, o.Consumed, o.FrameEnd))
	}
	if o.Consumed > o.FrameEnd && int64(len(stream)) > o.FrameEnd {
		viol(fmt.Sprintf("read-beyond-frame:id%d", in.Id), fmt.Sprintf("%d bytes consumed, the frame ends at %d", o.Consumed, o.FrameEnd))
	}
	if o.Alloc == "huge" {
		key := "alloc-unbounded"
		if in.Body == "hugestr" {
			key = "bencode-string-prealloc"
		}
		viol(key, fmt.Sprintf("%d bytes allocated while decoding a frame of %d bytes", o.AllocBytes, flen))
	}
	if flen > 1<<20 && o.Out != "error" {
		viol("cap-not-enforced", "a frame above 1 MiB was not refused: "+o.Out)
	}
	if isMsg && in.Cut == "no" && o.Consumed == o.FrameEnd {
		m2, err2 := protocol.Read(br, nil)
		if h, ok := m2.(protocol.Have); ok && err2 == nil && h.Index == 0x01020304 {
			o.NextOK = true
		} else {
			viol("next-frame-lost", fmt.Sprintf("the frame that follows was not decoded intact: %v %v", m2, err2))
		}
	}
	// conformance with the specification's predicted outcome
	exp := c.Out
	switch {
	case strings.HasPrefix(exp, "either:"):
		if o.Out != "error" && o.Out != strings.TrimPrefix(exp, "either:") {
			o.Nonconf = append(o.Nonconf, fmt.Sprintf("%s: got %s, specification %s", desc, o.Out, exp))
		}
	case exp != o.Out:
		o.Nonconf = append(o.Nonconf, fmt.Sprintf("%s: got %s, specification %s", desc, o.Out, exp))
	}
	o.Checks = 6
	return o
}

// ---------------------------------------------------------------------------
// Codec

var ip4s = map[int][4]byte{1: {192, 0, 2, 1}, 2: {10, 255, 0, 254}}
var ip6s = map[int][16]byte{3: {0x20, 0x01, 0x0d, 0xb8, 0, 0, 0, 0, 0, 0, 0, 0, 0, 0, 0, 3}, 4: {0xfe, 0x80, 0, 0, 0, 0, 0, 0, 1, 2, 3, 4, 5, 6, 7, 8},
	5: {0, 0, 0, 0, 0, 0, 0, 0, 0, 0, 0xff, 0xff, 203, 0, 113, 5}}

// addresses beyond the table are made from the number
func ip4Of(k int) [4]byte {
	if a, ok := ip4s[k]; ok {
		return a
	}
	return [4]byte{198, 18, byte(k >> 8), byte(k)}
}

func ip6Of(k int) [16]byte {
	if a, ok := ip6s[k]; ok {
		return a
	}
	return [16]byte{0x20, 0x01, 0x0d, 0xb8, 0, 1, 0, 0, 0, 0, 0, 0, 0, 0, byte(k >> 8), byte(k)}
}

var rawip4 = [4]byte{198, 51, 100, 7}
var rawip6 = [16]byte{0x20, 0x01, 0x0d, 0xb8, 0xff, 0, 0, 0, 0, 0, 0, 0, 0, 0, 0, 9}

func fill(tag string, n int) []byte {
	b := make([]byte, n)
	var x uint32 = 2166136261
	for _, c := range []byte(tag) {
		x = (x ^ uint32(c)) * 16777619
	}
	for i := range b {
		x = x*1664525 + 1013904223
		b[i] = byte(x >> 24)
	}
	return b
}

func num(v any) int {
	f, _ := v.(float64)
	return int(f)
}

func u32of(v any) uint32 {
	a, _ := v.([]any)
	if len(a) != 2 {
		return 0
	}
	return uint32(num(a[0]))<<16 | uint32(num(a[1]))
}

// expand turns the token sequence of Codec.tla into bytes.
func expand(toks []map[string]any) ([]byte, error) {
	var body []byte
	hasLen := false
	for i, t := range toks {
		switch t["t"] {
		case "len":
			if i != 0 {
				return nil, fmt.Errorf("len token not first")
			}
			hasLen = true
		case "u8":
			body = append(body, byte(num(t["v"])))
		case "u16":
			body = binary.BigEndian.AppendUint16(body, uint16(num(t["v"])))
		case "u32":
			body = binary.BigEndian.AppendUint32(body, uint32(num(t["hi"]))<<16|uint32(num(t["lo"])))
		case "fill":
			body = append(body, fill(t["tag"].(string), num(t["n"]))...)
		case "lit":
			body = append(body, []byte(t["s"].(string))...)
		case "dec":
			body = append(body, []byte(strconv.FormatUint(uint64(num(t["hi"]))<<16|uint64(num(t["lo"])), 10))...)
		case "bstr":
			var sub []map[string]any
			for _, x := range t["p"].([]any) {
				sub = append(sub, x.(map[string]any))
			}
			b, err := expand(sub)
			if err != nil {
				return nil, err
			}
			body = append(body, []byte(strconv.Itoa(len(b)))...)
			body = append(body, ':')
			body = append(body, b...)
		case "ip4":
			a := ip4Of(num(t["k"]))
			body = append(body, a[:]...)
			body = binary.BigEndian.AppendUint16(body, uint16(num(t["port"])))
		case "ip6":
			a := ip6Of(num(t["k"]))
			body = append(body, a[:]...)
			body = binary.BigEndian.AppendUint16(body, uint16(num(t["port"])))
		case "rawip4":
			body = append(body, rawip4[:]...)
		case "rawip6":
			body = append(body, rawip6[:]...)
		default:
			return nil, fmt.Errorf("unknown token %v", t["t"])
		}
	}
	if hasLen {
		return append(binary.BigEndian.AppendUint32(nil, uint32(len(body))), body...), nil
	}
	return body, nil
}

func peersOf(v any) []pex.Peer {
	var ps []pex.Peer
	l, _ := v.([]any)
	for _, x := range l {
		p := x.(map[string]any)
		var addr netip.Addr
		if p["six"].(bool) {
			addr = netip.AddrFrom16(ip6Of(num(p["k"])))
		} else {
			addr = netip.AddrFrom4(ip4Of(num(p["k"])))
		}
		ps = append(ps, pex.Peer{Addr: netip.AddrPortFrom(addr, uint16(num(p["port"]))), Flags: byte(num(p["f"]))})
	}
	return ps
}

// message builds the protocol.Message for an abstract message of MCCodec.tla.
func message(m map[string]any) (protocol.Message, error) {
	idx := func() uint32 { return u32of(m["index"]) }
	switch m["k"] {
	case "KeepAlive":
		return protocol.KeepAlive{}, nil
	case "Choke":
		return protocol.Choke{}, nil
	case "Unchoke":
		return protocol.Unchoke{}, nil
	case "Interested":
		return protocol.Interested{}, nil
	case "NotInterested":
		return protocol.NotInterested{}, nil
	case "HaveAll":
		return protocol.HaveAll{}, nil
	case "HaveNone":
		return protocol.HaveNone{}, nil
	case "Have":
		return protocol.Have{Index: idx()}, nil
	case "SuggestPiece":
		return protocol.SuggestPiece{Index: idx()}, nil
	case "AllowedFast":
		return protocol.AllowedFast{Index: idx()}, nil
	case "Request":
		return protocol.Request{Index: idx(), Begin: u32of(m["begin"]), Length: u32of(m["length"])}, nil
	case "Cancel":
		return protocol.Cancel{Index: idx(), Begin: u32of(m["begin"]), Length: u32of(m["length"])}, nil
	case "RejectRequest":
		return protocol.RejectRequest{Index: idx(), Begin: u32of(m["begin"]), Length: u32of(m["length"])}, nil
	case "Bitfield":
		return protocol.Bitfield{Bitfield: fill("bitfield", num(m["n"]))}, nil
	case "Piece":
		return protocol.Piece{Index: idx(), Begin: u32of(m["begin"]), Data: fill("piece", num(m["n"]))}, nil
	case "Port":
		return protocol.Port{Port: uint16(num(m["port"]))}, nil
	case "Extended0":
		e := protocol.Extended0{Version: m["v"].(string), Port: uint16(num(m["port"])), ReqQ: u32of(m["reqq"]),
			MetadataSize: u32of(m["msize"]), UploadOnly: m["uo"].(bool), Encrypt: m["e"].(bool)}
		if m["ipv4"].(bool) {
			e.IPv4 = netip.AddrFrom4(rawip4)
		}
		if m["ipv6"].(bool) {
			e.IPv6 = netip.AddrFrom16(rawip6)
		}
		if mm, _ := m["m"].([]any); len(mm) > 0 {
			e.Messages = map[string]uint8{}
			for _, kv := range mm {
				p := kv.([]any)
				e.Messages[p[0].(string)] = uint8(num(p[1]))
			}
		}
		return e, nil
	case "ExtendedMetadata":
		x := protocol.ExtendedMetadata{Subtype: uint8(num(m["sub"])), Type: uint8(num(m["type"])), Piece: u32of(m["piece"]),
			TotalSize: u32of(m["total"])}
		if num(m["type"]) == 1 {
			x.Data = fill("metadata", num(m["n"]))
		}
		return x, nil
	case "ExtendedPex":
		return protocol.ExtendedPex{Subtype: uint8(num(m["sub"])), Added: peersOf(m["added"]), Dropped: peersOf(m["dropped"])}, nil
	case "ExtendedDontHave":
		return protocol.ExtendedDontHave{Subtype: uint8(num(m["sub"])), Index: idx()}, nil
	}
	return nil, fmt.Errorf("unknown message kind %v", m["k"])
}

// normalise makes messages comparable: nil and empty slices/maps are
// identified, PEX lists are ordered IPv4 first.
func normalise(m protocol.Message) protocol.Message {
	switch x := m.(type) {
	case protocol.Bitfield:
		if len(x.Bitfield) == 0 {
			x.Bitfield = nil
		}
		return x
	case protocol.Piece:
		if len(x.Data) == 0 {
			x.Data = nil
		}
		return x
	case protocol.ExtendedMetadata:
		if len(x.Data) == 0 {
			x.Data = nil
		}
		return x
	case protocol.Extended0:
		if len(x.Messages) == 0 {
			x.Messages = nil
		}
		return x
	case protocol.ExtendedPex:
		ord := func(ps []pex.Peer) []pex.Peer {
			var a, b []pex.Peer
			for _, p := range ps {
				if p.Addr.Addr().Is4() {
					a = append(a, p)
				} else {
					b = append(b, p)
				}
			}
			r := append(a, b...)
			if len(r) == 0 {
				return nil
			}
			return r
		}
		x.Added, x.Dropped = ord(x.Added), ord(x.Dropped)
		return x
	}
	return m
}

func ownSub(m protocol.Message) bool {
	switch x := m.(type) {
	case protocol.ExtendedMetadata:
		return x.Subtype == protocol.ExtMetadata
	case protocol.ExtendedPex:
		return x.Subtype == protocol.ExtPex
	case protocol.ExtendedDontHave:
		return x.Subtype == protocol.ExtDontHave
	}
	return true
}

func copyMsg(m protocol.Message) protocol.Message {
	// Write() hands Piece buffers back to the pool: give it its own copy
	if p, ok := m.(protocol.Piece); ok {
		d := protocol.GetBuffer(len(p.Data))
		copy(d, p.Data)
		p.Data = d
		return p
	}
	return m
}

func encodeReal(m protocol.Message) (b []byte, perr string) {
	var buf bytes.Buffer
	w := bufio.NewWriter(&buf)
	func() {
		defer func() {
			if p := recover(); p != nil {
				perr = fmt.Sprint(p)
			}
		}()
		err := protocol.Write(w, copyMsg(m), nil)
		if err != nil {
			perr = "error: " + err.Error()
		}
	}()
	w.Flush()
	return buf.Bytes(), perr
}

func decodeReal(b []byte) (m protocol.Message, rest int, perr string) {
	br := bufio.NewReader(bytes.NewReader(b))
	func() {
		defer func() {
			if p := recover(); p != nil {
				perr = "panic: " + fmt.Sprint(p)
			}
		}()
		var err error
		m, err = protocol.Read(br, nil)
		if err != nil {
			perr = "error: " + err.Error()
		}
	}()
	rest = br.Buffered()
	return
}

// dictEquivalent: got may omit keys whose reference value is zero.
func dictEquivalent(ref, got *benc.Dict) string {
	if !got.Canonical() {
		return fmt.Sprintf("dictionary keys not in sorted order: %q", got.Keys)
	}
	for k, v := range got.Vals {
		rv, ok := ref.Vals[k]
		if !ok {
			return fmt.Sprintf("unexpected key %q", k)
		}
		if !benc.Equal(v, rv) {
			return fmt.Sprintf("key %q: value %q, independent encoding %q", k, got.Raw[k], ref.Raw[k])
		}
	}
	for k, rv := range ref.Vals {
		if _, ok := got.Vals[k]; !ok && !benc.IsZero(rv) {
			return fmt.Sprintf("key %q missing (independent encoding has %q)", k, ref.Raw[k])
		}
	}
	return ""
}

func runCodec(c *Case) *Obs {
	o := &Obs{ID: c.ID, Kind: "codec"}
	desc, _ := json.Marshal(c.M)
	viol := func(key, what string) {
		o.Violations = append(o.Violations, Viol{"C06", key, what + " (message " + string(desc) + ")"})
	}
	ref, err := expand(c.Toks)
	if err != nil {
		o.Note = "expand: " + err.Error()
		return o
	}
	msg, err := message(c.M)
	if err != nil {
		o.Note = err.Error()
		return o
	}
	kind := c.M["k"].(string)
	got, perr := encodeReal(msg)
	if perr != "" {
		viol("write-failed:"+kind, "protocol.Write failed: "+perr)
		return o
	}
	o.Out = kind
	benco := kind == "Extended0" || kind == "ExtendedMetadata" || kind == "ExtendedPex"
	if !benco {
		o.Checks++
		if !bytes.Equal(got, ref) {
			viol("encoding-differs:"+kind, fmt.Sprintf("protocol.Write produced % x, the independent codec % x", trunc(got), trunc(ref)))
		}
	} else {
		o.Checks++
		if len(got) < 6 || binary.BigEndian.Uint32(got) != uint32(len(got)-4) || !bytes.Equal(got[4:6], ref[4:6]) {
			viol("encoding-differs:"+kind, fmt.Sprintf("length prefix / id / sub-id differ: % x vs % x", trunc(got), trunc(ref)))
		} else {
			gv, gn, gerr := benc.Parse(got[6:])
			rv, rn, rerr := benc.Parse(ref[6:])
			gd, gok := gv.(*benc.Dict)
			rd, rok := rv.(*benc.Dict)
			if rerr != nil || !rok {
				o.Note = "reference encoding does not parse"
				return o
			}
			if gerr != nil || !gok {
				viol("encoding-differs:"+kind, fmt.Sprintf("payload is not a bencoded dictionary: %q", trunc(got[6:])))
			} else {
				if d := dictEquivalent(rd, gd); d != "" {
					viol("encoding-differs:"+kind, d)
				}
				if !bytes.Equal(got[6+gn:], ref[6+rn:]) {
					viol("encoding-differs:"+kind, "bytes after the dictionary differ")
				}
			}
		}
	}
	// storrent decodes its own output and the independent encoding to the same message
	if ownSub(msg) {
		want := normalise(msg)
		for _, src := range []struct {
			name string
			b    []byte
		}{{"its own encoding", got}, {"the independent encoding", ref}} {
			o.Checks++
			m2, rest, perr := decodeReal(src.b)
			if perr != "" || rest != 0 {
				viol("roundtrip:"+kind, fmt.Sprintf("protocol.Read of %s: %s, %d bytes left", src.name, perr, rest))
				continue
			}
			if !reflect.DeepEqual(normalise(m2), want) {
				viol("roundtrip:"+kind, fmt.Sprintf("protocol.Read of %s gives %+v, expected %+v", src.name, abbreviate(m2), abbreviate(want)))
			}
		}
	}
	return o
}

func trunc(b []byte) []byte {
	if len(b) > 48 {
		return b[:48]
	}
	return b
}

func abbreviate(m protocol.Message) string {
	s := fmt.Sprintf("%+v", m)
	if len(s) > 300 {
		s = s[:300] + "..."
	}
	return s
}

// segReader returns the data in the given segments, one per Read call.
type segReader struct {
	data []byte
	cuts []int
	pos  int
	k    int
}

func (s *segReader) Read(p []byte) (int, error) {
	if s.pos >= len(s.data) {
		return 0, io.EOF
	}
	end := len(s.data)
	for s.k < len(s.cuts) && s.cuts[s.k] <= s.pos {
		s.k++
	}
	if s.k < len(s.cuts) {
		end = s.cuts[s.k]
	}
	n := copy(p, s.data[s.pos:end])
	s.pos += n
	return n, nil
}

// runStream: a concatenation of messages cut at arbitrary points decodes to
// the same sequence.
func runStream(c *Case) *Obs {
	o := &Obs{ID: c.ID, Kind: "stream"}
	var stream []byte
	var want []protocol.Message
	var kinds []string
	for _, sc := range c.Cases {
		msg, err := message(sc.M)
		if err != nil {
			o.Note = err.Error()
			return o
		}
		if !ownSub(msg) {
			continue
		}
		b, perr := encodeReal(msg)
		if perr != "" {
			continue // reported by the codec case
		}
		stream = append(stream, b...)
		want = append(want, normalise(msg))
		kinds = append(kinds, sc.M["k"].(string))
	}
	o.Out = strings.Join(kinds, ",")
	if len(stream) == 0 {
		// none of the messages drawn is one the writer emits on its own: nothing to cut
		return o
	}
	viol := func(what string) {
		if len(o.Violations) < 3 {
			o.Violations = append(o.Violations, Viol{"C06", "stream-cut", what + " (messages " + o.Out + ")"})
		}
	}
	decode := func(cuts []int, name string) {
		o.Checks++
		br := bufio.NewReaderSize(&segReader{data: stream, cuts: cuts}, 16)
		for i, w := range want {
			var m protocol.Message
			var err error
			p := ""
			func() {
				defer func() {
					if r := recover(); r != nil {
						p = fmt.Sprint(r)
					}
				}()
				m, err = protocol.Read(br, nil)
			}()
			if p != "" || err != nil {
				viol(fmt.Sprintf("%s: message %d failed: %v %s", name, i, err, p))
				return
			}
			if !reflect.DeepEqual(normalise(m), w) {
				viol(fmt.Sprintf("%s: message %d decoded as %s, expected %s", name, i, abbreviate(m), abbreviate(w)))
				return
			}
			// the receiver gives the payload buffer of a Piece back to the pool once it has stored the data
			// (peer.go does after AddData): what is decoded next must not depend on it
			if pc, ok := m.(protocol.Piece); ok && pc.Data != nil {
				protocol.PutBuffer(pc.Data)
			}
		}
		if _, err := protocol.Read(br, nil); err != io.EOF {
			viol(fmt.Sprintf("%s: stream not exhausted after the last message: %v", name, err))
		}
	}
	decode(nil, "coalesced")
	if len(stream) <= 4096 {
		all := make([]int, len(stream))
		for i := range all {
			all[i] = i + 1
		}
		decode(all, "byte at a time")
		for cut := 1; cut < len(stream); cut++ {
			decode([]int{cut}, fmt.Sprintf("cut at %d", cut))
		}
	}
	r := rand.New(rand.NewSource(c.Seed))
	for k := 0; k < 20; k++ {
		n := 1 + r.Intn(6)
		cuts := make([]int, n)
		for i := range cuts {
			cuts[i] = 1 + r.Intn(len(stream))
		}
		sortInts(cuts)
		decode(cuts, fmt.Sprintf("cuts %v", cuts))
	}
	return o
}

func sortInts(a []int) {
	for i := 1; i < len(a); i++ {
		for j := i; j > 0 && a[j] < a[j-1]; j-- {
			a[j], a[j-1] = a[j-1], a[j]
		}
	}
}

// Handle is the worker-side entry point.
func Handle(in []byte) any {
	var c Case
	if err := json.Unmarshal(in, &c); err != nil {
		return &Obs{Note: "bad case: " + err.Error()}
	}
	switch c.Kind {
	case "frame":
		return runFrame(&c)
	case "codec":
		return runCodec(&c)
	case "stream":
		return runStream(&c)
	}
	return &Obs{ID: c.ID, Note: "unknown kind " + c.Kind}
}
