// Package metadata binds spec/Metadata.tla to tor/metadata.go: the events a
// peer's messages give rise to (TorPeerExtended, TorMetaData) and the
// ticker's requestMetadata are applied to a real Torrent through the real
// tor.handleEvent; the assembly buffer is observed after every step.
package metadata

import (
	"bytes"
	"context"
	"crypto/sha1"
	"encoding/json"
	"fmt"
	"net/http"
	"net/http/httptest"
	"net/netip"
	"strconv"
	"strings"
	"sync"

	"github.com/jech/storrent/config"
	"github.com/jech/storrent/hash"
	storhttp "github.com/jech/storrent/http"
	"github.com/jech/storrent/peer"
	"github.com/jech/storrent/protocol"
	"github.com/jech/storrent/tor"

	"verifharness/internal/fakepeer"
)

const BS = 16384

type Label struct {
	A    string `json:"a"`
	Size int    `json:"size"`
	Idx  int    `json:"idx"`
	Sz   int    `json:"sz"`
	N    int    `json:"n"`
	Q    string `json:"q"`
}

type Scenario struct {
	ID       int     `json:"id"`
	TrueSize int     `json:"truesize"`
	ParseOK  bool    `json:"parseok"`
	Recover  bool    `json:"recover"`
	Steps    []Label `json:"steps"`
}

type State struct {
	InfoLen  int               `json:"infoLen"`
	Have     []int             `json:"have"`
	Cont     map[string]string `json:"cont"`
	Votes    map[string]int    `json:"votes"`
	Complete bool              `json:"complete"`
	Crashed  bool              `json:"crashed"`
}

type Event struct {
	L Label `json:"l"`
	S State `json:"s"`
}

type Viol struct {
	Prop string `json:"prop"`
	Key  string `json:"key"`
	What string `json:"what"`
	Step int    `json:"step"`
}

type Out struct {
	ID         int     `json:"id"`
	Events     []Event `json:"events"`
	Violations []Viol  `json:"violations,omitempty"`
	Note       string  `json:"note,omitempty"`
}

// authentic builds an info dictionary of exactly size bytes.  With
// parseOK=false it is hostile but authentic: piece length 0.
func authentic(size int, parseOK bool, seed int) ([]byte, error) {
	pl := "16384"
	if !parseOK && seed%2 == 1 {
		// the other hostile flavour: everything valid, but no name (the last thing
		// MetadataComplete checks); the padding moves to a key of its own
		return noname(size, seed)
	}
	if !parseOK {
		pl = "0"
	}
	base := len("d6:lengthi16000e4:name" + "12:piece lengthi" + pl + "e6:pieces20:" + "ABCDEFGHIJKLMNOPQRST" + "e")
	for delta := -12; delta <= 0; delta++ {
		pad := size - base - len(fmt.Sprintf("t%d-", seed)) + delta
		if pad < 0 {
			continue
		}
		name := fmt.Sprintf("t%d-", seed) + strings.Repeat("x", pad)
		for extra := -1; extra < 12; extra++ {
			z := ""
			if extra >= 0 {
				z = "1:z" + strconv.Itoa(extra) + ":" + strings.Repeat("y", extra)
			}
			d := "d6:lengthi16000e4:name" + strconv.Itoa(len(name)) + ":" + name + "12:piece lengthi" + pl + "e6:pieces20:" +
				"ABCDEFGHIJKLMNOPQRST" + z + "e"
			if len(d) == size {
				return []byte(d), nil
			}
		}
	}
	return nil, fmt.Errorf("cannot build a dictionary of %d bytes", size)
}

func noname(size int, seed int) ([]byte, error) {
	for padlen := size; padlen >= 0; padlen-- {
		pad := fmt.Sprintf("t%d-", seed)
		if padlen < len(pad) {
			break
		}
		pad += strings.Repeat("x", padlen-len(pad))
		d := "d6:lengthi16000e4:name0:12:piece lengthi16384e6:pieces20:ABCDEFGHIJKLMNOPQRST4:zpad" + strconv.Itoa(len(pad)) + ":" + pad + "e"
		if len(d) == size {
			return []byte(d), nil
		}
		if len(d) < size-1 {
			break
		}
	}
	return nil, fmt.Errorf("cannot build a nameless dictionary of %d bytes", size)
}

func nb(s int) int { return (s + BS - 1) / BS }

func observe(t *tor.Torrent, truth []byte, crashed bool) State {
	size, have, votes := t.VerifInfoState()
	s := State{InfoLen: size, Have: []int{}, Cont: map[string]string{}, Votes: map[string]int{}, Complete: t.InfoComplete(), Crashed: crashed}
	if s.Complete {
		// the buffer has become the published dictionary
		size = len(t.Info)
		s.InfoLen = size
	}
	for i, h := range have {
		if h {
			s.Have = append(s.Have, i)
		}
	}
	for v, c := range votes {
		s.Votes[strconv.Itoa(int(v))] = c
	}
	for b := 0; b < nb(size); b++ {
		lo, hi := b*BS, (b+1)*BS
		if hi > size {
			hi = size
		}
		blk := t.Info[lo:hi]
		zero := true
		for _, x := range blk {
			if x != 0 {
				zero = false
				break
			}
		}
		cls := "forged"
		if zero {
			cls = "none"
		} else if size == len(truth) && string(blk) == string(truth[lo:hi]) {
			cls = "honest"
		}
		s.Cont[strconv.Itoa(b)] = cls
	}
	return s
}

func payload(truth []byte, idx, n int, q string) []byte {
	data := make([]byte, n)
	for i := range data {
		o := idx*BS + i
		if o < len(truth) {
			data[i] = truth[o]
		} else {
			data[i] = 'p'
		}
	}
	if q == "forged" && n > 0 {
		data[0] ^= 0x20
		data[n-1] ^= 0x01
		if n > 100 {
			data[n/2] ^= 0x44
		}
	}
	return data
}

// Replay is the worker-side handler.
var serveOnce sync.Once

// probeExport asks the web interface for what it derives from the metadata
// (the .torrent file, the playlist, a file) - the ways in which the metadata
// is "used" outside the torrent.  C12: nothing of that before an info
// dictionary with the right SHA-1 is there, and then exactly that dictionary.
func probeExport(t *tor.Torrent, out *Out, step int) {
	serveOnce.Do(func() {
		config.SetDefaultProxy("")
		storhttp.Serve("127.0.0.1:0")
	})
	complete := t.InfoComplete()
	get := func(target string) *httptest.ResponseRecorder {
		req := httptest.NewRequest("GET", target, nil)
		req.Host = "localhost:8088"
		rec := httptest.NewRecorder()
		func() {
			defer func() {
				if p := recover(); p != nil && p != http.ErrAbortHandler {
					rec.Code = 599
				}
			}()
			http.DefaultServeMux.ServeHTTP(rec, req)
		}()
		return rec
	}
	h := t.Hash.String()
	rec := get("/" + h + ".torrent")
	if rec.Code == 200 {
		body := rec.Body.Bytes()
		if !complete {
			out.Violations = append(out.Violations, Viol{"C12", "metadata-exported-before-verification",
				fmt.Sprintf("GET /<hash>.torrent answered 200 with %d bytes while the metadata is being assembled and has not been verified", len(body)), step})
		} else if sum := sha1.Sum(t.Info); !hash.Hash(sum[:]).Equal(t.Hash) || !bytes.Contains(body, t.Info) {
			out.Violations = append(out.Violations, Viol{"C12", "forged-metadata-exported",
				"the .torrent file served does not carry the info dictionary whose SHA-1 is the info-hash", step})
		}
	}
	if !complete {
		for _, target := range []string{"/" + h + ".m3u", "/" + h + "/some/file"} {
			if rec := get(target); rec.Code == 200 {
				out.Violations = append(out.Violations, Viol{"C12", "metadata-used-before-verification",
					fmt.Sprintf("GET %s answered 200 while the metadata has not been verified", strings.Replace(target, h, "<hash>", 1)), step})
			}
		}
	}
}

func Replay(in []byte) any {
	var sc Scenario
	if err := json.Unmarshal(in, &sc); err != nil {
		return &Out{Note: "bad scenario: " + err.Error()}
	}
	out := &Out{ID: sc.ID}
	truth, err := authentic(sc.TrueSize, sc.ParseOK, sc.ID)
	if err != nil {
		out.Note = err.Error()
		return out
	}
	hsh := sha1.Sum(truth)
	t, err := tor.New("", hash.Hash(hsh[:]), "", nil, 0, nil, nil)
	if err != nil {
		out.Note = err.Error()
		return out
	}
	tor.VerifInit(t, uint64(sc.ID)+1)
	defer tor.VerifStop(t)
	fp := fakepeer.New(&t.Pieces, nil, nil, netip.MustParseAddrPort("192.0.2.9:6881"),
		protocol.HandshakeResult{Hash: t.Hash, Id: hash.Hash(make([]byte, 20)), Extended: true}, false)
	defer fp.Stop()
	peer.VerifSetExt(fp.P, 0, 3, 0)
	t.VerifAddPeer(fp.P)
	ctx := context.Background()
	registered := tor.VerifRegister(t)
	if registered {
		defer tor.VerifUnregister(t)
	}
	out.Events = append(out.Events, Event{Label{A: "reset"}, observe(t, truth, false)})
	for k, st := range sc.Steps {
		crashed := false
		func() {
			defer func() {
				if p := recover(); p != nil {
					crashed = true
					key := "metadata-panic"
					switch msg := fmt.Sprint(p); {
					case strings.Contains(msg, "slice bounds"), strings.Contains(msg, "index out of range"):
						key += ":out-of-range"
					case strings.Contains(msg, "divide by zero"):
						key += ":divide-by-zero"
					}
					out.Violations = append(out.Violations, Viol{"C12", key,
						fmt.Sprintf("tor.handleEvent panicked on %+v: %v", st, p), k + 1})
				}
			}()
			switch st.A {
			case "Vote":
				tor.VerifHandleEvent(ctx, t, peer.TorPeerExtended{Peer: fp.P, MetadataSize: uint32(st.Size)})
			case "Tick":
				tor.VerifRequestMetadata(t)
			case "Block":
				tor.VerifHandleEvent(ctx, t, peer.TorMetaData{Peer: fp.P, Size: uint32(st.Sz), Index: uint32(st.Idx),
					Data: payload(truth, st.Idx, st.N, st.Q)})
			}
		}()
		s := observe(t, truth, crashed)
		out.Events = append(out.Events, Event{st, s})
		if registered && !crashed {
			probeExport(t, out, k+1)
		}
		// C12, model-free: a published dictionary is the authentic one
		if s.Complete {
			h := sha1.Sum(t.Info)
			if !hash.Hash(h[:]).Equal(t.Hash) {
				out.Violations = append(out.Violations, Viol{"C12", "forged-metadata-accepted",
					"the torrent became usable with an info dictionary whose SHA-1 is not the info-hash", k + 1})
			}
			if !sc.ParseOK {
				out.Violations = append(out.Violations, Viol{"C12", "invalid-metadata-accepted",
					"an authentic but invalid dictionary (piece length 0, or no name) was published", k + 1})
			}
			break
		}
		if crashed {
			break
		}
	}
	if sc.Recover && sc.ParseOK && len(out.Violations) == 0 && !t.InfoComplete() {
		out.Violations = append(out.Violations, Viol{"C12", "no-completion-after-honest-passes",
			"the history ends with an honest size majority and two complete passes of honest blocks, yet the metadata was not published", len(sc.Steps)})
	}
	return out
}
