// Package gexpire binds spec/Expire.tla (C03, global eviction) to the real
// tor.Expire: running torrents filled through Pieces.AddData, the pass parked
// at the "Expire.space" yield point and the evictions it launches parked at
// Pieces.Expire's "Expire.bytes" yield point, so that the schedules TLC
// generates (a pass overlapping the evictions of the previous one, blocks
// arriving meanwhile) are reproduced exactly.
package gexpire

import (
	"context"
	"encoding/json"
	"fmt"
	"runtime"
	"sort"
	"sync"
	"sync/atomic"
	"time"

	"github.com/jech/storrent/alloc"
	"github.com/jech/storrent/config"
	"github.com/jech/storrent/tor"
	"github.com/jech/storrent/tor/piece"

	"verifharness/internal/content"
	"verifharness/internal/mktor"
)

const CS = 16384
const PS = 2 * CS

type Step struct {
	A string `json:"a"` // "Init" for the first record
	L struct {
		A string `json:"a"`
		T string `json:"t"`
	} `json:"l"`
	B       map[string]int `json:"b"`
	Rc      int            `json:"rc"`
	Pass    string         `json:"pass"`
	Pending int            `json:"pending"`
	Dirty   bool           `json:"dirty"`
	Lo      map[string]int `json:"lo"` // for Evict: the range the specification allows (pre-state)
	Hi      map[string]int `json:"hi"`
}

type Case struct {
	ID    int    `json:"id"`
	Low   int    `json:"low"`
	High  int    `json:"high"`
	Steps []Step `json:"steps"`
}

type Viol struct {
	Key  string `json:"key"`
	What string `json:"what"`
}

type Out struct {
	ID         int      `json:"id"`
	Violations []Viol   `json:"violations,omitempty"`
	Nonconf    []string `json:"nonconf,omitempty"`
	Note       string   `json:"note,omitempty"`
	Passes     int      `json:"passes"`
	Evictions  int      `json:"evictions"`
}

var mu sync.Mutex

func run(c *Case, out *Out) {
	mu.Lock()
	defer mu.Unlock()
	config.SetDefaultProxy("")
	config.MemoryMark = int64(c.High) * PS
	if config.MemoryLowMark() != int64(c.Low)*PS {
		out.Note = fmt.Sprintf("low mark %d does not match the model's %d pieces", config.MemoryLowMark(), c.Low)
		return
	}
	tor.VerifManualTicks = true
	if alloc.Bytes() != 0 {
		out.Note = fmt.Sprintf("%d bytes allocated before the scenario starts", alloc.Bytes())
		return
	}
	viol := func(key, what string) {
		for _, v := range out.Violations {
			if v.Key == key {
				return
			}
		}
		out.Violations = append(out.Violations, Viol{key, what})
	}

	var parkedEv int32
	evRelease := make(chan struct{})
	var evMu sync.Mutex
	var draining int32
	piece.VerifYield = func(point string, index uint32) {
		if point == "Expire.bytes" && atomic.LoadInt32(&draining) == 0 {
			evMu.Lock()
			ch := evRelease
			evMu.Unlock()
			atomic.AddInt32(&parkedEv, 1)
			<-ch
		}
	}
	passParked := make(chan struct{}, 1)
	passRelease := make(chan struct{})
	tor.VerifYield = func(point string) {
		if point == "Expire.space" {
			passParked <- struct{}{}
			<-passRelease
		}
	}
	defer func() { piece.VerifYield = nil; tor.VerifYield = nil }()

	names := []string{}
	for n := range c.Steps[0].B {
		names = append(names, n)
	}
	sort.Strings(names)
	tors := map[string]*tor.Torrent{}
	seeds := map[string]uint64{}
	ctx, cancel := context.WithCancel(context.Background())
	defer cancel()
	const npieces = 24
	for k, n := range names {
		seed := uint64(c.ID)*7 + uint64(k) + 1
		t, err := mktor.New(mktor.Spec{Name: n, PieceLen: PS, Length: npieces * PS, Seed: seed}, "")
		if err == nil {
			t, err = tor.AddTorrent(ctx, t)
		}
		if err != nil {
			out.Note = "torrent: " + err.Error()
			return
		}
		tors[n] = t
		seeds[n] = seed
	}
	kill := func() {
		for _, t := range tors {
			k, cc := context.WithTimeout(context.Background(), 5*time.Second)
			t.Kill(k)
			cc()
			select {
			case <-t.Deleted:
			case <-time.After(5 * time.Second):
			}
			tor.VerifForget(t)
		}
	}
	add := func(n string) bool {
		t := tors[n]
		for i := 0; i < npieces; i++ {
			if t.Pieces.PieceEmpty(uint32(i)) {
				_, _, err := t.Pieces.AddData(uint32(i), 0, content.Range(seeds[n], int64(i)*PS, CS), 1)
				return err == nil
			}
		}
		return false
	}
	held := func(n string) int { return int(tors[n].Pieces.Bytes() / PS) }
	// The evictions run in goroutines of their own, without a completion
	// signal: they have ended when the number of goroutines is back to what
	// it was before any pass (plus the pass's own goroutine while it is parked).
	g0 := runtime.NumGoroutine()
	passParkedNow := false
	settled := true
	settle := func() {
		limit := g0
		if passParkedNow {
			limit++
		}
		for k := 0; k < 4000 && runtime.NumGoroutine() > limit; k++ {
			time.Sleep(3 * time.Millisecond)
		}
		if runtime.NumGoroutine() > limit {
			settled = false
		}
		prev, same := int64(-1), 0
		for k := 0; k < 2000 && same < 4; k++ {
			cur := alloc.Bytes()
			if cur == prev {
				same++
			} else {
				same = 0
			}
			prev = cur
			time.Sleep(3 * time.Millisecond)
		}
		for _, t := range tors {
			t.GetStats()
		}
	}

	for n, k := range c.Steps[0].B {
		for i := 0; i < k; i++ {
			if !add(n) {
				out.Note = "cannot fill " + n
				kill()
				return
			}
		}
	}
	type passResult struct {
		rc    int
		panic any
	}
	var passCh chan passResult
	lastRc, dirty, diverged := 9, true, false
	running := 0  // eviction rounds
	released := 0 // evictions released so far
	for k, st := range c.Steps[1:] {
		desc := fmt.Sprintf("step %d %s", k+1, st.L.A)
		switch st.L.A {
		case "Add":
			dirty = true
			if !add(st.L.T) {
				out.Note = desc + ": cannot add"
				kill()
				return
			}
		case "PassRead":
			passCh = make(chan passResult, 1)
			go func(ch chan passResult) {
				defer func() {
					if p := recover(); p != nil {
						ch <- passResult{panic: p}
					}
				}()
				ch <- passResult{rc: tor.Expire()}
			}(passCh)
			select {
			case <-passParked:
				passParkedNow = true
			case <-time.After(5 * time.Second):
				out.Note = desc + ": tor.Expire did not reach its yield point"
				kill()
				return
			}
		case "PassFinish":
			out.Passes++
			before := atomic.LoadInt32(&parkedEv)
			passRelease <- struct{}{}
			passParkedNow = false
			select {
			case r := <-passCh:
				if r.panic != nil {
					viol("global-expire-crash", fmt.Sprintf("tor.Expire panicked: %v (%s; sizes %v, marks low %d high %d pieces): the total was read before the previous pass's evictions ended, the shares after",
						r.panic, desc, st.B, c.Low, c.High))
					// in the real program this panic ends the process
					evMu.Lock()
					close(evRelease)
					evMu.Unlock()
					settle()
					kill()
					return
				}
				lastRc = r.rc
				dirty = false
				if !diverged && r.rc != st.Rc {
					out.Nonconf = append(out.Nonconf, fmt.Sprintf("%s: tor.Expire returned %d, the model says %d", desc, r.rc, st.Rc))
				}
			case <-time.After(10 * time.Second):
				out.Note = desc + ": tor.Expire did not return"
				kill()
				return
			}
			// the evictions it has launched park at their first yield point:
			// wait until every goroutine beyond the baseline is a parked one
			_ = before
			ok := false
			for n := 0; n < 3000; n++ {
				extra := runtime.NumGoroutine() - g0
				if extra <= int(atomic.LoadInt32(&parkedEv))-released {
					ok = true
					break
				}
				time.Sleep(2 * time.Millisecond)
			}
			if !ok {
				out.Note = desc + ": the launched evictions did not reach their yield point"
				kill()
				return
			}
		case "Evict":
			out.Evictions++
			evMu.Lock()
			close(evRelease)
			evRelease = make(chan struct{})
			released = int(atomic.LoadInt32(&parkedEv))
			evMu.Unlock()
			running++
			settle()
			if !settled {
				out.Note = desc + ": the evictions did not end within 12 s"
				kill()
				return
			}
		default:
			out.Note = "unknown action " + st.L.A
			kill()
			return
		}
		// observations, from the real execution only
		if int(atomic.LoadInt32(&parkedEv))-released == 0 {
			var sum int64
			for _, t := range tors {
				sum += t.Pieces.Bytes()
			}
			if a := alloc.Bytes(); a != sum {
				viol("alloc-accounting", fmt.Sprintf("%s: the allocator reports %d bytes, the stores hold %d", desc, a, sum))
			}
			if lastRc == -1 && !dirty && !passParkedNow && alloc.Bytes() > int64(c.Low)*PS {
				viol("not-down-to-low-mark", fmt.Sprintf("%s: tor.Expire returned -1, its evictions have ended and nothing has arrived since, yet %d bytes are allocated; the low-water mark is %d",
					desc, alloc.Bytes(), int64(c.Low)*PS))
			}
			// conformance with the model's state
			if !diverged && st.Pending == 0 {
				for n, want := range st.B {
					got := held(n)
					if got == want {
						continue
					}
					// Evict is nondeterministic in the specification: any size in lo..hi conforms,
					// but from here on the generated behaviour describes another execution
					diverged = true
					if st.L.A == "Evict" && got >= st.Lo[n] && got <= st.Hi[n] {
						continue
					}
					out.Nonconf = append(out.Nonconf, fmt.Sprintf("%s: %s holds %d pieces, the model says %d (allowed %d..%d)", desc, n, got, want, st.Lo[n], st.Hi[n]))
				}
			}
		}
	}
	// let everything parked go, then delete the torrents: every byte must come back
	atomic.StoreInt32(&draining, 1)
	if passCh != nil {
		select {
		case passRelease <- struct{}{}:
			select {
			case <-passCh:
			case <-time.After(5 * time.Second):
			}
		default:
		}
	}
	passParkedNow = false
	evMu.Lock()
	close(evRelease)
	evRelease = make(chan struct{})
	evMu.Unlock()
	settle()
	kill()
	for k := 0; k < 500 && alloc.Bytes() != 0; k++ {
		time.Sleep(5 * time.Millisecond)
	}
	if a := alloc.Bytes(); a != 0 {
		viol("deleted-torrents-hold-memory", fmt.Sprintf("%d bytes are still allocated after every torrent has been deleted", a))
	}
}

// Handle is the worker-side entry point.
func Handle(in []byte) any {
	var c Case
	if err := json.Unmarshal(in, &c); err != nil {
		return &Out{Note: "bad case: " + err.Error()}
	}
	out := &Out{ID: c.ID}
	run(&c, out)
	return out
}
