// Package sched binds spec/Sched.tla (C09) -- and the request-conformance
// part of C11 -- to the real handlers: tor.handleEvent / tor.request on a
// stepped torrent, peer.handleEvent / handleMessage / expireRequests /
// maybeRequest on stepped peers (binding B2).  The two mailboxes between a
// peer and the torrent are owned by the harness, which consumes them in the
// order the TLC-generated behaviour says.
package sched

import (
	"context"
	"encoding/json"
	"fmt"
	"net/netip"
	"sort"
	"time"

	"github.com/jech/storrent/bitmap"
	"github.com/jech/storrent/hash"
	"github.com/jech/storrent/peer"
	"github.com/jech/storrent/protocol"
	"github.com/jech/storrent/tor"

	"verifharness/internal/content"
	"verifharness/internal/fakepeer"
	"verifharness/internal/mktor"
)

const CS = 16384

type Msg struct {
	K  string `json:"k"`
	I  int    `json:"i"`
	C  int    `json:"c"`
	S  []int  `json:"s"`
	Pl string `json:"pl"`
}

type Label struct {
	A       string          `json:"a"`
	P       string          `json:"p"`
	Cs      []int           `json:"cs"`
	E       string          `json:"e"`
	M       *Msg            `json:"m"`
	CanFast map[string]bool `json:"canFast"`
}

type Scenario struct {
	ID    int     `json:"id"`
	Steps []Label `json:"steps"`
	Geom  int     `json:"geom"` // 0: 2 pieces (2+1 blocks, short last); 1: 8 pieces...
}

type Viol struct {
	Prop string `json:"prop"`
	Key  string `json:"key"`
	What string `json:"what"`
	Step int    `json:"step"`
}

type Quiescent struct {
	InFlight []int   `json:"inFlight"`
	Avail    []int   `json:"avail"`
	Held     [][]int `json:"held"`
	Adv      [][]int `json:"adv"`
	Step     int     `json:"step"`
}

type Out struct {
	ID         int         `json:"id"`
	Violations []Viol      `json:"violations,omitempty"`
	Obs        []Quiescent `json:"obs,omitempty"`
	Applied    int         `json:"applied"`
	Requests   int         `json:"requests_sent"`
	Note       string      `json:"note,omitempty"`
}

type world struct {
	t         *tor.Torrent
	ctx       context.Context
	peers     map[string]*fakepeer.Peer
	cancelled map[string]map[[3]uint32]bool // requests we have sent a Cancel for, or that the remote has answered
	answered  *[3]uint32
	names     []string
	out       *Out
	step      int
	npieces   int
	nchunks   int
	psize     int
	length    int64
	seed      uint64
	// what each remote has allowed, for the C11 checks
	canFast     map[string]bool
	outstanding map[string]map[[3]uint32]bool
}

func (w *world) viol(prop, key, what string) {
	if len(w.out.Violations) < 12 {
		w.out.Violations = append(w.out.Violations, Viol{prop, key, what, w.step})
	}
}

func (w *world) chunkLen(c int) int {
	if c == w.nchunks-1 {
		return int(w.length - int64(c)*CS)
	}
	return CS
}

func (w *world) pieceOf(c int) (uint32, uint32) {
	cpp := w.psize / CS
	return uint32(c / cpp), uint32(c%cpp) * CS
}

// checkWire drains what the peer wrote and checks every Request / Cancel
// against what the remote peer has advertised and allowed (C11).
func (w *world) checkWire(name string) {
	fp := w.peers[name]
	for {
		select {
		case m := <-fp.Writer:
			st := peer.VerifState(fp.P, w.npieces)
			switch x := m.(type) {
			case protocol.Request:
				w.out.Requests++
				desc := fmt.Sprintf("Request{%d,%d,%d} to %s", x.Index, x.Begin, x.Length, name)
				if int(x.Index) >= w.npieces {
					w.viol("C11", "request-bad-index", desc+": no such piece")
					break
				}
				if x.Begin%CS != 0 {
					w.viol("C11", "request-unaligned", desc+": offset not 16 KiB-aligned")
				}
				c := int(x.Index)*(w.psize/CS) + int(x.Begin/CS)
				if c >= w.nchunks || int(x.Length) != w.chunkLen(c) {
					w.viol("C11", "request-length", desc+fmt.Sprintf(": the block has %d bytes", w.chunkLen(min(c, w.nchunks-1))))
				}
				if !st.Bitmap[x.Index] {
					w.viol("C11", "request-not-advertised", desc+": the peer has not advertised that piece")
				}
				fast := false
				for _, f := range st.Fast {
					if f == x.Index {
						fast = true
					}
				}
				if !st.Unchoked && !fast {
					w.viol("C11", "request-while-choked", desc+": the peer is choking us and the piece is not allowed-fast")
				}
				key := [3]uint32{x.Index, x.Begin, x.Length}
				if w.outstanding[name][key] && !w.cancelled[name][key] {
					w.viol("C11", "request-duplicate", desc+": already outstanding at that peer")
				}
				w.outstanding[name][key] = true
				delete(w.cancelled[name], key)
				max := st.ReqQ
				if max < 2 {
					max = 2
				}
				// what the remote still has to answer: requests we have sent and not cancelled
				live := 0
				for k := range w.outstanding[name] {
					if !w.cancelled[name][k] {
						live++
					}
				}
				if live > max {
					w.viol("C11", "request-queue-depth", desc+fmt.Sprintf(": %d requests outstanding at the peer (not counting cancelled ones), it advertised a queue depth of %d", live, st.ReqQ))
				}
			case protocol.Cancel:
				key := [3]uint32{x.Index, x.Begin, x.Length}
				if !w.outstanding[name][key] {
					w.viol("C11", "cancel-not-outstanding", fmt.Sprintf("Cancel{%d,%d,%d} to %s does not refer to an outstanding request", x.Index, x.Begin, x.Length, name))
				}
				if w.cancelled[name] == nil {
					w.cancelled[name] = map[[3]uint32]bool{}
				}
				w.cancelled[name][key] = true
			}
		default:
			return
		}
	}
}

// settle removes from the remote's view the requests the peer no longer holds.
func (w *world) settle(name string) {
	st := peer.VerifState(w.peers[name].P, w.npieces)
	held := map[[3]uint32]bool{}
	for _, r := range st.Requests {
		if r.Sent {
			i, b := w.pieceOf(int(r.Index))
			held[[3]uint32{i, b, uint32(w.chunkLen(int(r.Index)))}] = true
		}
	}
	// The remote's view is the remote's: a request leaves it when the remote has answered it (Piece, Reject), when we
	// have cancelled it, or when a remote without the fast extension chokes us (see message) - not because the peer
	// under test no longer remembers it.
	for k := range w.outstanding[name] {
		if !held[k] && w.cancelled[name][k] {
			delete(w.outstanding[name], k)
			delete(w.cancelled[name], k)
		}
	}
}

// torHandle handles the oldest event peer name sent to the torrent.
func (w *world) torHandle(name string) bool {
	fp := w.peers[name]
	for {
		select {
		case e := <-fp.Tor:
			tor.VerifHandleEvent(w.ctx, w.t, e)
			if d, ok := e.(peer.TorData); ok && d.Complete {
				w.awaitFinalise(d.Index)
			}
			// The specification's torQ holds the events that matter to the bookkeeping (data, drop, bitmap, have).
			// The real queue also carries notifications the specification does not speak of (unchoke, interest,
			// activity, known peers ...): those are handled on the way, the step is the next event that it knows.
			switch e.(type) {
			case peer.TorData, peer.TorDrop, peer.TorPeerBitmap, peer.TorPeerHave:
				return true
			}
		default:
			return false
		}
	}
}

// awaitFinalise waits for the asynchronous hash of a completed piece and
// handles what it posts on the torrent's own event channel.
func (w *world) awaitFinalise(index uint32) {
	deadline := time.After(5 * time.Second)
	seenHave := false
	for !seenHave {
		select {
		case e := <-w.t.Event:
			tor.VerifHandleEvent(w.ctx, w.t, e)
			if h, ok := e.(peer.TorHave); ok && h.Index == index {
				seenHave = true
			}
		case <-deadline:
			// the piece did not verify (duplicate completion, or it was complete already)
			return
		case <-time.After(20 * time.Millisecond):
			if !w.t.Pieces.Complete(index) {
				_, bm := w.t.Pieces.PieceBitmap(index)
				if bm.Empty() {
					return // hash failed, the piece was discarded
				}
			} else if len(w.t.Event) == 0 {
				// complete and nothing pending: it was complete before
				select {
				case e := <-w.t.Event:
					tor.VerifHandleEvent(w.ctx, w.t, e)
					if h, ok := e.(peer.TorHave); ok && h.Index == index {
						seenHave = true
					}
				case <-time.After(200 * time.Millisecond):
					return
				}
			}
		}
	}
	// BadPeers(peers, false) follows TorHave
	for {
		select {
		case e := <-w.t.Event:
			tor.VerifHandleEvent(w.ctx, w.t, e)
		case <-time.After(30 * time.Millisecond):
			return
		}
	}
}

func (w *world) peerEvent(name string) bool {
	fp := w.peers[name]
	for {
		e, ok := fp.Pop()
		if !ok {
			return false
		}
		err := peer.VerifHandleEvent(fp.P, e)
		if err != nil {
			w.out.Note = fmt.Sprintf("step %d: peer.handleEvent(%T): %v", w.step, e, err)
		}
		w.checkWire(name)
		w.settle(name)
		// as in torHandle: commands the specification does not speak of (interest, unchoke decisions ...) are
		// handled on the way
		switch e.(type) {
		case peer.PeerRequest, peer.PeerCancel, peer.PeerCancelPiece, peer.PeerHave:
			return true
		}
		if w.out.Note != "" {
			return true
		}
	}
}

func (w *world) message(name string, m *Msg) {
	fp := w.peers[name]
	var pm protocol.Message
	switch m.K {
	case "unchoke":
		pm = protocol.Unchoke{}
	case "choke":
		pm = protocol.Choke{}
		if !w.canFast[name] {
			// a choke from a peer without the fast extension voids what it held
			w.outstanding[name] = map[[3]uint32]bool{}
			w.cancelled[name] = map[[3]uint32]bool{}
		}
	case "haveall":
		pm = protocol.HaveAll{}
	case "havenone":
		pm = protocol.HaveNone{}
	case "have":
		pm = protocol.Have{Index: uint32(m.I)}
	case "donthave":
		pm = protocol.ExtendedDontHave{Subtype: protocol.ExtDontHave, Index: uint32(m.I)}
	case "allowedfast":
		pm = protocol.AllowedFast{Index: uint32(m.I)}
	case "bitfield":
		bf := bitmap.New(w.npieces)
		for _, i := range m.S {
			bf.Set(i)
		}
		b := []byte(bf)
		for len(b) < (w.npieces+7)/8 {
			b = append(b, 0)
		}
		pm = protocol.Bitfield{Bitfield: b}
	case "wild":
		// out of range by far; with 2 blocks per piece index*blocks wraps around to block 0
		buf := protocol.GetBuffer(CS)
		peer.VerifHandleMessage(fp.P, protocol.Piece{Index: ^uint32(0), Begin: 0, Data: buf})
		w.checkWire(name)
		w.settle(name)
		return
	case "reject":
		i, b := w.pieceOf(m.C)
		pm = protocol.RejectRequest{Index: i, Begin: b, Length: uint32(w.chunkLen(m.C))}
	case "piece":
		i, b := w.pieceOf(m.C)
		off := int64(m.C) * CS
		l := w.chunkLen(m.C)
		var data []byte
		switch m.Pl {
		case "exact":
			data = content.Range(w.seed, off, l)
		case "short":
			data = content.Range(w.seed, off, l-1)
		case "empty":
			data = []byte{}
		case "overlong":
			data = content.Range(w.seed, off, CS+w.chunkLen(min(m.C+1, w.nchunks-1)))
		case "misaligned":
			b++
			data = content.Range(w.seed, off+1, l-1)
		}
		buf := protocol.GetBuffer(len(data))
		copy(buf, data)
		pm = protocol.Piece{Index: i, Begin: b, Data: buf}
		// by sending a Piece (good or bad) or a reject, the remote has answered the request for that block:
		// it no longer counts towards its queue
		{
			_, b0 := w.pieceOf(m.C)
			key := [3]uint32{i, b0, uint32(l)}
			w.answered = &key
		}
	default:
		return
	}
	if rj, ok := pm.(protocol.RejectRequest); ok {
		key := [3]uint32{rj.Index, rj.Begin, rj.Length}
		w.answered = &key
	}
	if w.answered != nil {
		if w.cancelled[name] == nil {
			w.cancelled[name] = map[[3]uint32]bool{}
		}
		if w.outstanding[name][*w.answered] {
			w.cancelled[name][*w.answered] = true // answered: not live any more (the entry itself goes when the peer's state drops it)
		}
		w.answered = nil
	}
	err := peer.VerifHandleMessage(fp.P, pm)
	if err != nil {
		w.out.Note = fmt.Sprintf("step %d: peer.handleMessage(%s): %v", w.step, m.K, err)
	}
	w.checkWire(name)
	w.settle(name)
}

func (w *world) quiescent() bool {
	for _, n := range w.names {
		if len(w.peers[n].Tor) > 0 || w.peers[n].Len() > 0 {
			return false
		}
	}
	return len(w.t.Event) == 0
}

func (w *world) drain() {
	for k := 0; k < 2000 && !w.quiescent(); k++ {
		for _, n := range w.names {
			for w.torHandle(n) {
			}
			for w.peerEvent(n) {
			}
		}
		select {
		case e := <-w.t.Event:
			tor.VerifHandleEvent(w.ctx, w.t, e)
		default:
		}
	}
}

// observe evaluates C09 at a quiescent point and records the bookkeeping
// for the TLC monitor pass.
func (w *world) observe() {
	q := Quiescent{Step: w.step}
	for _, x := range w.t.VerifInFlight() {
		q.InFlight = append(q.InFlight, int(x))
	}
	av := w.t.VerifAvailable()
	for i := 0; i < w.npieces; i++ {
		a := 0
		if i < len(av) {
			a = int(av[i])
		}
		q.Avail = append(q.Avail, a)
	}
	for i := w.npieces; i < len(av); i++ {
		if av[i] != 0 {
			w.viol("C09", "availability-out-of-range", fmt.Sprintf("available[%d] = %d for a torrent of %d pieces", i, av[i], w.npieces))
		}
	}
	for _, n := range w.names {
		st := peer.VerifState(w.peers[n].P, w.npieces)
		held := []int{}
		for _, r := range st.Requests {
			held = append(held, int(r.Index))
		}
		sort.Ints(held)
		adv := []int{}
		for i, b := range st.Bitmap {
			if b {
				adv = append(adv, i)
			}
		}
		q.Held = append(q.Held, held)
		q.Adv = append(q.Adv, adv)
	}
	for c, f := range q.InFlight {
		n := 0
		for _, h := range q.Held {
			for _, x := range h {
				if x == c {
					n++
				}
			}
		}
		if f != n {
			kind := "over"
			if f < n {
				kind = "under"
			}
			w.viol("C09", "inflight-"+kind+"count", fmt.Sprintf("with no event in transit, inFlight[%d] = %d but %d connected peers hold a request for that block", c, f, n))
		}
	}
	for i, a := range q.Avail {
		n := 0
		for _, ad := range q.Adv {
			for _, x := range ad {
				if x == i {
					n++
				}
			}
		}
		if a != n {
			w.viol("C09", "availability-mismatch", fmt.Sprintf("with no event in transit, available[%d] = %d but %d connected peers advertise that piece", i, a, n))
		}
	}
	if len(w.out.Obs) < 40 {
		w.out.Obs = append(w.out.Obs, q)
	}
}

// Replay is the worker-side handler.
func Replay(in []byte) any {
	var sc Scenario
	if err := json.Unmarshal(in, &sc); err != nil {
		return &Out{Note: "bad scenario: " + err.Error()}
	}
	out := &Out{ID: sc.ID}
	w := &world{out: out, ctx: context.Background(), peers: map[string]*fakepeer.Peer{}, outstanding: map[string]map[[3]uint32]bool{}, cancelled: map[string]map[[3]uint32]bool{}, canFast: map[string]bool{}}
	w.seed = uint64(sc.ID)*13 + 7
	w.psize = 2 * CS
	w.length = 3*CS - 1000
	if sc.Geom == 1 {
		// a length that is an exact multiple of the block size: the last block is full
		w.length = 3 * CS
	}
	w.npieces, w.nchunks = 2, 3
	if sc.Geom == 2 {
		// pieces of three blocks: a piece length that is a multiple of the block size but not a power of two
		w.psize = 3 * CS
		w.length = 4*CS - 1000
		w.nchunks = 4
	}
	t, err := mktor.New(mktor.Spec{Name: "sched", PieceLen: int64(w.psize), Length: w.length, Seed: w.seed}, "")
	if err != nil {
		out.Note = "torrent: " + err.Error()
		return out
	}
	w.t = t
	tor.VerifInit(t, w.seed)
	defer tor.VerifStop(t)
	if len(sc.Steps) == 0 || sc.Steps[0].A != "Init" {
		out.Note = "scenario does not start with Init"
		return out
	}
	for n := range sc.Steps[0].CanFast {
		w.names = append(w.names, n)
	}
	sort.Strings(w.names)
	for k, n := range w.names {
		id := make([]byte, 20)
		id[0] = byte(k + 1)
		fp := fakepeer.New(&t.Pieces, t.Info, t.Pieces.Bitmap(), netip.MustParseAddrPort(fmt.Sprintf("192.0.2.%d:6881", k+1)),
			protocol.HandshakeResult{Hash: t.Hash, Id: hash.Hash(id), Fast: sc.Steps[0].CanFast[n], Extended: true}, true)
		peer.VerifSetExt(fp.P, 0, 0, uint32(protocol.ExtDontHave))
		if sc.ID%2 == 1 {
			// a fast peer on a long link that advertised the smallest queue depth: the pipeline is then
			// bounded by that depth (and by nothing else), "minimum two"
			peer.VerifHandleMessage(fp.P, protocol.Extended0{ReqQ: 2, Messages: map[string]uint8{"lt_donthave": protocol.ExtDontHave}})
			peer.VerifFastLink(fp.P)
			for len(fp.Tor) > 0 {
				<-fp.Tor
			}
		}
		t.VerifAddPeer(fp.P)
		w.peers[n] = fp
		w.outstanding[n] = map[[3]uint32]bool{}
		w.canFast[n] = sc.Steps[0].CanFast[n]
		defer fp.Stop()
	}
	for k, st := range sc.Steps[1:] {
		w.step = k + 1
		applied := true
		switch st.A {
		case "TorRequest":
			cs := make([]uint32, len(st.Cs))
			for i, c := range st.Cs {
				cs[i] = uint32(c)
			}
			tor.VerifRequest(t, w.peers[st.P].P, cs)
			// the fake peer's mailbox goroutine forwards the command
			waitForward(w.peers[st.P])
		case "TorHandle":
			applied = w.torHandle(st.P)
			for _, n := range w.names {
				waitForward(w.peers[n])
			}
		case "PeerEvent":
			applied = w.peerEvent(st.P)
		case "Msg":
			w.message(st.P, st.M)
		case "Tick":
			peer.VerifAge(w.peers[st.P].P, 31*time.Second)
			peer.VerifTick(w.peers[st.P].P)
			w.checkWire(st.P)
			w.settle(st.P)
		case "Pump":
			peer.VerifMaybeRequest(w.peers[st.P].P)
			w.checkWire(st.P)
			w.settle(st.P)
		}
		if applied {
			out.Applied++
		}

		if out.Note != "" {
			return out
		}
		if w.quiescent() {
			w.observe()
		}
		if len(out.Violations) > 0 {
			return out
		}
	}
	w.step = len(sc.Steps)
	w.drain()
	w.observe()
	return out
}

func waitForward(fp *fakepeer.Peer) {}
