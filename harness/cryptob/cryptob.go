// Package cryptob binds spec/Handshake.tla (C07), spec/CryptoPolicy.tla and
// spec/CryptoConn.tla (C08) to protocol.{Client,Server}Handshake,
// crypto.{Client,Server}Handshake and crypto.Conn.  The other party is
// either the real code (policy table) or the harness's independent MSE
// implementation over a scripted connection that delivers exactly the
// segments a cut plan prescribes.
package cryptob

import (
	"bytes"
	"crypto/rc4"
	"encoding/json"
	"errors"
	"fmt"
	"io"
	"math/big"
	"net"
	"sync"
	"time"

	"github.com/jech/storrent/crypto"
	"github.com/jech/storrent/hash"
	"github.com/jech/storrent/protocol"

	"verifharness/internal/mse"
)

type Case struct {
	Kind string `json:"kind"` // "policy", "segserver", "segclient", "conn"
	ID   int    `json:"id"`
	// policy
	C  [6]bool `json:"c"`
	S  [6]bool `json:"s"`
	HS string  `json:"hs"` // "plain" / "crypto"
	// expected by the specification
	Exp string `json:"exp"` // "fail", "plain", "rc4" ("cplain": crypto handshake, plaintext stream)
	// the connection buffers writes, as a TCP socket does, instead of handing each write to a read (net.Pipe)
	Buffered bool `json:"buffered"`
	// segmentation
	PadA  int    `json:"pada"`
	PadB  int    `json:"padb"`
	PadC  int    `json:"padc"`
	PadD  int    `json:"padd"`
	IA    string `json:"ia"`    // "none", "bt", "bt+2"
	Early int    `json:"early"` // bytes sent right after the handshake
	Sel   int    `json:"sel"`   // crypto_select / provide to use (0: natural)
	SKey  string `json:"skey"`  // segserver: the torrent the MSE exchange is keyed with ("", "A": the one named later; "B": the other served torrent)
	Cuts  []int  `json:"cuts"`  // absolute positions in the stream towards the code under test; -1: byte at a time
	// conn
	Writes []int `json:"writes"` // sizes of the Write calls
	Accept []int `json:"accept"` // bytes the underlying connection accepts per Write call (-1: fail)
}

type Viol struct {
	Prop string `json:"prop"`
	Key  string `json:"key"`
	What string `json:"what"`
}

type Out struct {
	ID         int      `json:"id"`
	Violations []Viol   `json:"violations,omitempty"`
	Nonconf    []string `json:"nonconf,omitempty"`
	Observed   string   `json:"observed"`
	Note       string   `json:"note,omitempty"`
}

func opts(b [6]bool) *crypto.Options {
	return &crypto.Options{AllowCryptoHandshake: b[0], PreferCryptoHandshake: b[1], ForceCryptoHandshake: b[2],
		AllowEncryption: b[3], PreferEncryption: b[4], ForceEncryption: b[5]}
}

var infoHash = hash.Hash([]byte("0123456789abcdefghij"))
var otherHash = hash.Hash([]byte("ZZZZZZZZZZZZZZZZZZZZ"))
var clientID = hash.Hash([]byte("-CL0001-clientclient"))
var serverID = hash.Hash([]byte("-SV0001-serverserver"))

// ---------------------------------------------------------------------------
// connections

type tap struct {
	net.Conn
	mu  sync.Mutex
	out []byte
}

func (t *tap) Write(p []byte) (int, error) {
	t.mu.Lock()
	t.out = append(t.out, p...)
	t.mu.Unlock()
	return t.Conn.Write(p)
}

func (t *tap) bytes() []byte {
	t.mu.Lock()
	defer t.mu.Unlock()
	return append([]byte{}, t.out...)
}

// stream is one direction of a scripted connection: the producer appends
// and flushes, the consumer's Read returns exactly up to the next cut, or
// everything that is there once the producer has flushed.
type stream struct {
	mu      sync.Mutex
	cond    *sync.Cond
	data    []byte
	flushed int
	pos     int
	cuts    []int
	each    bool // byte at a time
	closed  bool
	reads   []int
}

func newStream(cuts []int) *stream {
	s := &stream{}
	s.cond = sync.NewCond(&s.mu)
	for _, c := range cuts {
		if c < 0 {
			s.each = true
		} else {
			s.cuts = append(s.cuts, c)
		}
	}
	return s
}

func (s *stream) write(p []byte, flush bool) {
	s.mu.Lock()
	s.data = append(s.data, p...)
	if flush {
		s.flushed = len(s.data)
	}
	s.cond.Broadcast()
	s.mu.Unlock()
}

func (s *stream) close() {
	s.mu.Lock()
	s.closed = true
	s.flushed = len(s.data)
	s.cond.Broadcast()
	s.mu.Unlock()
}

func (s *stream) nextCut() int {
	if s.each {
		return s.pos + 1
	}
	for _, c := range s.cuts {
		if c > s.pos {
			return c
		}
	}
	return -1
}

func (s *stream) read(p []byte) (int, error) {
	s.mu.Lock()
	defer s.mu.Unlock()
	for {
		if len(p) == 0 {
			return 0, nil
		}
		avail := len(s.data) - s.pos
		cut := s.nextCut()
		if avail > 0 && ((cut >= 0 && cut <= len(s.data)) || s.flushed == len(s.data) || avail >= len(p)) {
			end := len(s.data)
			if cut >= 0 && cut < end {
				end = cut
			}
			if end-s.pos > len(p) {
				end = s.pos + len(p)
			}
			n := copy(p, s.data[s.pos:end])
			s.pos += n
			s.reads = append(s.reads, n)
			return n, nil
		}
		if s.closed && avail == 0 {
			return 0, io.EOF
		}
		s.cond.Wait()
	}
}

// scripted is the net.Conn handed to the code under test.
type scripted struct {
	in      *stream   // what the code under test reads
	out     io.Writer // where its writes go
	closed  chan struct{}
	once    sync.Once
	accept  []int // per Write call: bytes accepted (-1 fail); nil: everything
	nwrites int
	wire    []byte
	wmu     sync.Mutex
}

func (c *scripted) Read(p []byte) (int, error) { return c.in.read(p) }
func (c *scripted) Write(p []byte) (int, error) {
	c.wmu.Lock()
	k := c.nwrites
	c.nwrites++
	var acc = len(p)
	fail := false
	if c.accept != nil && k < len(c.accept) {
		if c.accept[k] < 0 {
			acc, fail = 0, true
		} else if c.accept[k] < acc {
			acc = c.accept[k]
		}
	}
	c.wire = append(c.wire, p[:acc]...)
	c.wmu.Unlock()
	if acc > 0 {
		if _, err := c.out.Write(p[:acc]); err != nil {
			return 0, err
		}
	}
	if fail {
		return 0, errors.New("write: connection timed out")
	}
	return acc, nil
}
func (c *scripted) Close() error {
	c.once.Do(func() { close(c.closed); c.in.close() })
	return nil
}
func (c *scripted) LocalAddr() net.Addr                { return &net.TCPAddr{IP: net.IPv4(192, 0, 2, 1), Port: 1} }
func (c *scripted) RemoteAddr() net.Addr               { return &net.TCPAddr{IP: net.IPv4(192, 0, 2, 2), Port: 2} }
func (c *scripted) SetDeadline(t time.Time) error      { return nil }
func (c *scripted) SetReadDeadline(t time.Time) error  { return nil }
func (c *scripted) SetWriteDeadline(t time.Time) error { return nil }

// pipeBuf is an unbounded in-memory pipe (writer never blocks).
type pipeBuf struct {
	mu     sync.Mutex
	cond   *sync.Cond
	buf    []byte
	closed bool
}

func newPipeBuf() *pipeBuf { p := &pipeBuf{}; p.cond = sync.NewCond(&p.mu); return p }
func (p *pipeBuf) Write(b []byte) (int, error) {
	p.mu.Lock()
	p.buf = append(p.buf, b...)
	p.cond.Broadcast()
	p.mu.Unlock()
	return len(b), nil
}
func (p *pipeBuf) Read(b []byte) (int, error) {
	p.mu.Lock()
	defer p.mu.Unlock()
	for len(p.buf) == 0 {
		if p.closed {
			return 0, io.EOF
		}
		p.cond.Wait()
	}
	n := copy(b, p.buf)
	p.buf = p.buf[n:]
	return n, nil
}
func (p *pipeBuf) Close() { p.mu.Lock(); p.closed = true; p.cond.Broadcast(); p.mu.Unlock() }

type rw struct {
	io.Reader
	io.Writer
}

// bufConn is one end of a duplex connection whose writes never block and
// never fail, like a TCP socket with room in its buffers: the writer learns
// nothing about what the reader does with the bytes.
type bufConn struct {
	in, out *pipeBuf
}

func newBufPair() (*bufConn, *bufConn) {
	x, y := newPipeBuf(), newPipeBuf()
	return &bufConn{in: x, out: y}, &bufConn{in: y, out: x}
}
func (c *bufConn) Read(p []byte) (int, error)         { return c.in.Read(p) }
func (c *bufConn) Write(p []byte) (int, error)        { return c.out.Write(p) }
func (c *bufConn) Close() error                       { c.in.Close(); c.out.Close(); return nil }
func (c *bufConn) LocalAddr() net.Addr                { return &net.TCPAddr{IP: net.IPv4(192, 0, 2, 1), Port: 1} }
func (c *bufConn) RemoteAddr() net.Addr               { return &net.TCPAddr{IP: net.IPv4(192, 0, 2, 2), Port: 2} }
func (c *bufConn) SetDeadline(t time.Time) error      { return nil }
func (c *bufConn) SetReadDeadline(t time.Time) error  { return nil }
func (c *bufConn) SetWriteDeadline(t time.Time) error { return nil }

func btHandshake(h, id hash.Hash, reserved [8]byte) []byte {
	b := []byte{19}
	b = append(b, "BitTorrent protocol"...)
	b = append(b, reserved[:]...)
	b = append(b, h...)
	b = append(b, id...)
	return b
}

var reserved = [8]byte{0, 0, 0, 0, 0, 0x10, 0, 0x04} // extended + fast, no DHT

func early(n int) []byte {
	b := make([]byte, n)
	for i := range b {
		b[i] = byte(0xA0 + i%23)
	}
	return b
}

func withTimeout(d time.Duration, f func()) bool {
	done := make(chan struct{})
	go func() { f(); close(done) }()
	select {
	case <-done:
		return true
	case <-time.After(d):
		return false
	}
}

// readN reads exactly n bytes from c (through the message layer's view: the
// surplus init first, then the connection).
func readAfter(c net.Conn, init []byte, n int) ([]byte, error) {
	buf := append([]byte{}, init...)
	tmp := make([]byte, 4096)
	for len(buf) < n {
		k, err := c.Read(tmp)
		buf = append(buf, tmp[:k]...)
		if err != nil {
			return buf, err
		}
	}
	return buf, nil
}

// ---------------------------------------------------------------------------
// C08: policy table, real client against real server

func runPolicy(c *Case, out *Out) {
	var a, b net.Conn
	a, b = net.Pipe()
	if c.Buffered {
		a, b = newBufPair()
	}
	ta, tb := &tap{Conn: a}, &tap{Conn: b}
	co, so := opts(c.C), opts(c.S)
	type side struct {
		conn net.Conn
		res  protocol.HandshakeResult
		init []byte
		err  error
		got  []byte
	}
	var cl, sv side
	payloadC := bytes.Repeat([]byte("client-payload-in-the-clear!"), 8)
	payloadS := bytes.Repeat([]byte("server-payload-in-the-clear?"), 8)
	var wg sync.WaitGroup
	wg.Add(2)
	go func() {
		defer wg.Done()
		cl.conn, cl.res, cl.init, cl.err = protocol.ClientHandshake(ta, c.HS == "crypto", infoHash, clientID, co)
		if cl.err != nil {
			ta.Close()
			return
		}
		go cl.conn.Write(payloadC)
		cl.got, _ = readAfter(cl.conn, cl.init, len(payloadS))
	}()
	go func() {
		defer wg.Done()
		sv.conn, sv.res, sv.init, sv.err = protocol.ServerHandshake(tb, []hash.HashPair{{First: otherHash, Second: serverID}, {First: infoHash, Second: serverID}}, so)
		if sv.err != nil {
			tb.Close()
			return
		}
		go sv.conn.Write(payloadS)
		sv.got, _ = readAfter(sv.conn, sv.init, len(payloadC))
	}()
	if !withTimeout(20*time.Second, wg.Wait) {
		out.Violations = append(out.Violations, Viol{"C08", "handshake-hang", fmt.Sprintf("client %v server %v %s handshake: no outcome within 20 s", c.C, c.S, c.HS)})
		ta.Close()
		tb.Close()
		return
	}
	ta.Close()
	tb.Close()
	desc := fmt.Sprintf("client options %+v, server options %+v, %s handshake", *co, *so, c.HS)
	if c.Buffered {
		desc += ", buffering connection"
	}
	viol := func(key, what string) {
		out.Violations = append(out.Violations, Viol{"C08", key, what + " (" + desc + ")"})
	}
	// agreement between the two ends is stated by C07 as well as by C08
	agree := func(key, what string) {
		out.Violations = append(out.Violations, Viol{"C07,C08", key, what + " (" + desc + ")"})
	}
	_, cEnc := cl.conn.(*crypto.Conn)
	_, sEnc := sv.conn.(*crypto.Conn)
	obs := "fail"
	established := cl.err == nil && sv.err == nil
	if established {
		obs = "plain"
		if cEnc || sEnc {
			obs = "rc4"
		}
		if cEnc != sEnc {
			agree("mode-disagreement", fmt.Sprintf("client encrypts: %v, server encrypts: %v", cEnc, sEnc))
		}
		// what is really on the wire
		clear := bytes.Contains(ta.bytes(), payloadC[:28]) || bytes.Contains(tb.bytes(), payloadS[:28])
		if obs == "rc4" && clear {
			viol("payload-in-clear", "an RC4 connection carries payload bytes in the clear")
		}
		if obs == "plain" && !clear {
			viol("mode-disagreement", "a plaintext connection does not carry the payload in the clear")
		}
		if !bytes.Equal(cl.got, payloadS) || !bytes.Equal(sv.got, payloadC) {
			viol("stream-not-transparent", "the payload received differs from the payload sent")
		}
		if !cl.res.Hash.Equal(infoHash) || !sv.res.Hash.Equal(infoHash) || !cl.res.Id.Equal(serverID) || !sv.res.Id.Equal(clientID) {
			agree("handshake-disagreement", fmt.Sprintf("client sees %v/%v, server sees %v/%v", cl.res.Hash, cl.res.Id, sv.res.Hash, sv.res.Id))
		}
		// the policy of each end
		for _, e := range []struct {
			who string
			o   *crypto.Options
		}{{"client", co}, {"server", so}} {
			if e.o.ForceEncryption && obs != "rc4" {
				viol("force-encryption-ignored:"+c.HS, e.who+" forces encryption, yet an unencrypted connection was established")
			}
			if !e.o.AllowEncryption && obs == "rc4" {
				viol("encryption-not-allowed", e.who+" does not allow encryption, yet an RC4 connection was established")
			}
			if e.o.ForceCryptoHandshake && c.HS == "plain" {
				viol("force-crypto-handshake-ignored", e.who+" forces the crypto handshake, yet a plaintext handshake succeeded")
			}
			if !e.o.AllowCryptoHandshake && c.HS == "crypto" {
				viol("crypto-handshake-not-allowed", e.who+" does not allow the crypto handshake, yet one succeeded")
			}
		}
	} else if (cl.err == nil) != (sv.err == nil) {
		// one end reports an established connection (and a cipher mode) that the other end refused
		mode := func(enc bool) string {
			if enc {
				return "rc4"
			}
			return "plain"
		}
		if cl.err == nil {
			agree("outcome-disagreement", fmt.Sprintf("the client reports success (%s) although the server failed: %v", mode(cEnc), sv.err))
		} else {
			agree("outcome-disagreement", fmt.Sprintf("the server reports success (%s) although the client failed: %v", mode(sEnc), cl.err))
		}
	}
	out.Observed = obs
	exp := c.Exp
	if exp == "cplain" {
		exp = "plain"
	}
	if exp != obs {
		out.Nonconf = append(out.Nonconf, fmt.Sprintf("%s: outcome %s (client err %v, server err %v), specification %s", desc, obs, cl.err, sv.err, c.Exp))
	}
}

// ---------------------------------------------------------------------------
// C07: segmentation

func iaBytes(kind string) []byte {
	switch kind {
	case "bt":
		return btHandshake(infoHash, clientID, reserved)
	case "bt+2":
		return append(btHandshake(infoHash, clientID, reserved), early(2)...)
	}
	return nil
}

// real server, harness client
func runSegServer(c *Case, out *Out) {
	toServer := newStream(c.Cuts)
	fromServer := newPipeBuf()
	conn := &scripted{in: toServer, out: fromServer, closed: make(chan struct{})}
	desc := fmt.Sprintf("server role, %s handshake, PadA %d PadC %d IA %s early %d, cuts %v", c.HS, c.PadA, c.PadC, c.IA, c.Early, c.Cuts)
	viol := func(key, what string) {
		out.Violations = append(out.Violations, Viol{"C07", key, what + " (" + desc + ")"})
	}
	type sres struct {
		conn net.Conn
		res  protocol.HandshakeResult
		init []byte
		err  error
		got  []byte
	}
	var sv sres
	nEarly := c.Early
	if c.IA == "bt+2" {
		nEarly += 2
	}
	want := append(early(0), early(nEarly)...)
	if c.IA == "bt+2" {
		want = append(early(2), early(c.Early)...)
	}
	done := make(chan struct{})
	go func() {
		defer close(done)
		sv.conn, sv.res, sv.init, sv.err = protocol.ServerHandshake(conn, []hash.HashPair{{First: otherHash, Second: serverID}, {First: infoHash, Second: serverID}},
			crypto.DefaultOptions(true, false))
		if sv.err == nil && len(want) > 0 {
			sv.got, _ = readAfter(sv.conn, sv.init, len(want))
		}
	}()
	var herr error
	sel := uint32(0)
	hdone := make(chan struct{})
	go func() {
		defer close(hdone)
		defer toServer.close()
		if c.HS == "plain" {
			toServer.write(append(btHandshake(infoHash, clientID, reserved), early(c.Early)...), true)
			buf := make([]byte, 68)
			_, herr = io.ReadFull(fromServer, buf)
			return
		}
		p := &mse.ClientParams{X: big.NewInt(0).SetBytes([]byte("harness-client-secret-x-0123456789")), PadA: c.PadA, PadC: c.PadC,
			Provide: 3, IA: iaBytes(c.IA), SKey: infoHash}
		if c.SKey == "B" {
			p.SKey = otherHash // keyed with one served torrent, the handshake then names the other
		}
		if c.Sel != 0 {
			p.Provide = uint32(c.Sel)
		}
		toServer.write(mse.ClientFirst(p), true)
		yb := make([]byte, 96)
		if _, herr = io.ReadFull(fromServer, yb); herr != nil {
			return
		}
		second, keys, _ := mse.ClientSecond(p, yb)
		toServer.write(second, true)
		var rest []byte
		sel, rest, herr = mse.ClientFinish(fromServer, keys, nil)
		if herr != nil {
			return
		}
		// the rest of the exchange: our BitTorrent handshake if it was not in IA, then early data
		var tail []byte
		if c.IA == "none" {
			tail = append(tail, btHandshake(infoHash, clientID, reserved)...)
		}
		tail = append(tail, early(c.Early)...)
		if sel == 2 {
			keys.Enc.XORKeyStream(tail, tail)
		}
		toServer.write(tail, true)
		// the server's BitTorrent handshake
		hs := append([]byte{}, rest...)
		tmp := make([]byte, 256)
		for len(hs) < 68 {
			n, err := fromServer.Read(tmp)
			if sel == 2 {
				keys.Dec.XORKeyStream(tmp[:n], tmp[:n])
			}
			hs = append(hs, tmp[:n]...)
			if err != nil {
				herr = err
				return
			}
		}
		if !bytes.Equal(hs[28:48], infoHash) || !bytes.Equal(hs[48:68], serverID) {
			herr = fmt.Errorf("server's handshake carries %x / %q", hs[28:48], hs[48:68])
		}
	}()
	if c.SKey == "B" {
		// Handshake!ServerAccepts: the exchange must be refused (the independent client is left waiting: not waited for)
		ok := withTimeout(15*time.Second, func() { <-done })
		conn.Close()
		fromServer.Close()
		if !ok {
			viol("handshake-hang", "the server handshake did not finish within 15 s")
		} else if sv.err == nil {
			viol("skey-mismatch-accepted", fmt.Sprintf("the server reports a successful handshake for torrent %x over an encrypted exchange keyed with another served torrent", sv.res.Hash))
		}
		out.Observed = fmt.Sprintf("err=%v", sv.err)
		return
	}
	if !withTimeout(15*time.Second, func() { <-done; <-hdone }) {
		conn.Close()
		fromServer.Close()
		select {
		case <-done:
			viol("segmentation-dependent-failure", fmt.Sprintf("with this segmentation the exchange does not complete: the server returned %v, the independent client is still waiting", sv.err))
		case <-time.After(3 * time.Second):
			viol("handshake-hang", "the server handshake did not finish within 15 s")
		}
		return
	}
	fromServer.Close()
	out.Observed = fmt.Sprintf("err=%v reads=%v", sv.err, toServer.reads)
	if sv.err != nil {
		viol("segmentation-dependent-failure", fmt.Sprintf("the handshake fails with this segmentation: %v (independent peer: %v)", sv.err, herr))
		return
	}
	if herr != nil {
		viol("handshake-disagreement", fmt.Sprintf("the server accepted the handshake but the independent client did not: %v", herr))
	}
	if !sv.res.Hash.Equal(infoHash) || !sv.res.Id.Equal(clientID) || !sv.res.Fast || !sv.res.Extended || sv.res.Dht {
		viol("handshake-values", fmt.Sprintf("the server reports %+v", sv.res))
	}
	if _, enc := sv.conn.(*crypto.Conn); c.HS == "crypto" && enc != (sel == 2) {
		viol("mode-disagreement", fmt.Sprintf("crypto_select %d but the server's connection encrypts: %v", sel, enc))
	}
	if !bytes.Equal(sv.got, want) {
		viol("early-data", fmt.Sprintf("bytes glued to the handshake: sent %x, the message layer gets %x (init %x)", want, sv.got, sv.init))
	}
}

// real client, harness server
func runSegClient(c *Case, out *Out) {
	toClient := newStream(c.Cuts)
	fromClient := newPipeBuf()
	conn := &scripted{in: toClient, out: fromClient, closed: make(chan struct{})}
	desc := fmt.Sprintf("client role, %s handshake, PadB %d PadD %d select %d early %d, cuts %v", c.HS, c.PadB, c.PadD, c.Sel, c.Early, c.Cuts)
	viol := func(key, what string) {
		out.Violations = append(out.Violations, Viol{"C07", key, what + " (" + desc + ")"})
	}
	type cres struct {
		conn net.Conn
		res  protocol.HandshakeResult
		init []byte
		err  error
		got  []byte
	}
	var cl cres
	want := early(c.Early)
	done := make(chan struct{})
	go func() {
		defer close(done)
		cl.conn, cl.res, cl.init, cl.err = protocol.ClientHandshake(conn, c.HS == "crypto", infoHash, clientID, crypto.DefaultOptions(true, false))
		if cl.err == nil && len(want) > 0 {
			cl.got, _ = readAfter(cl.conn, cl.init, len(want))
		}
	}()
	var herr error
	var res *mse.ServerResult
	hdone := make(chan struct{})
	go func() {
		defer close(hdone)
		defer toClient.close()
		if c.HS == "plain" {
			buf := make([]byte, 68)
			if _, herr = io.ReadFull(fromClient, buf); herr != nil {
				return
			}
			toClient.write(append(btHandshake(infoHash, serverID, reserved), want...), true)
			return
		}
		p := &mse.ServerParams{X: big.NewInt(0).SetBytes([]byte("harness-server-secret-x-9876543210")), PadB: c.PadB, PadD: c.PadD,
			Select: uint32(c.Sel), SKeys: [][]byte{otherHash, infoHash}}
		// everything the responder sends is glued together: reply, handshake, early data
		var glue bytes.Buffer
		res, herr = mse.ServerRun(rw{fromClient, writerFunc(func(b []byte) (int, error) {
			if len(b) >= 96 && glue.Len() == 0 && toClient.flushed == 0 {
				toClient.write(b, true) // Yb + PadB
				return len(b), nil
			}
			glue.Write(b)
			return len(b), nil
		})}, p)
		if herr != nil {
			return
		}
		tail := append(btHandshake(infoHash, serverID, reserved), want...)
		if res.Select == 2 {
			res.Keys.Enc.XORKeyStream(tail, tail)
		}
		glue.Write(tail)
		toClient.write(glue.Bytes(), true)
		if !bytes.Equal(res.IA[:min(68, len(res.IA))], btHandshake(infoHash, clientID, [8]byte{0, 0, 0, 0, 0, 0x10, 0, 0x05})[:min(68, len(res.IA))]) {
			herr = fmt.Errorf("unexpected IA %x", res.IA)
		}
	}()
	if !withTimeout(15*time.Second, func() { <-done; <-hdone }) {
		conn.Close()
		fromClient.Close()
		select {
		case <-done:
			viol("segmentation-dependent-failure", fmt.Sprintf("with this segmentation the exchange does not complete: the client returned %v, the independent server is still waiting", cl.err))
		case <-time.After(3 * time.Second):
			viol("handshake-hang", "the client handshake did not finish within 15 s")
		}
		return
	}
	fromClient.Close()
	out.Observed = fmt.Sprintf("err=%v reads=%v", cl.err, toClient.reads)
	if herr != nil && cl.err == nil {
		viol("handshake-disagreement", fmt.Sprintf("the client accepted the handshake but the independent server did not: %v", herr))
		return
	}
	if cl.err != nil {
		viol("segmentation-dependent-failure", fmt.Sprintf("the handshake fails with this segmentation: %v (independent peer: %v)", cl.err, herr))
		return
	}
	if !cl.res.Hash.Equal(infoHash) || !cl.res.Id.Equal(serverID) || !cl.res.Fast || !cl.res.Extended || cl.res.Dht {
		viol("handshake-values", fmt.Sprintf("the client reports %+v", cl.res))
	}
	if _, enc := cl.conn.(*crypto.Conn); c.HS == "crypto" && res != nil && enc != (res.Select == 2) {
		viol("mode-disagreement", fmt.Sprintf("crypto_select %d but the client's connection encrypts: %v", res.Select, enc))
	}
	if !bytes.Equal(cl.got, want) {
		viol("early-data", fmt.Sprintf("bytes glued to the handshake: sent %x, the message layer gets %x (init %x)", want, cl.got, cl.init))
	}
}

type writerFunc func([]byte) (int, error)

func (f writerFunc) Write(b []byte) (int, error) { return f(b) }

// ---------------------------------------------------------------------------
// C08: the encrypted stream under partial and failing writes

func runConn(c *Case, out *Out) {
	toClient := newStream(nil)
	fromClient := newPipeBuf()
	conn := &scripted{in: toClient, out: fromClient, closed: make(chan struct{})}
	viol := func(key, what string) {
		out.Violations = append(out.Violations, Viol{"C08", key, fmt.Sprintf("%s (writes %v, underlying connection accepts %v)", what, c.Writes, c.Accept)})
	}
	var cc net.Conn
	var cerr error
	done := make(chan struct{})
	go func() {
		defer close(done)
		cc, _, cerr = crypto.ClientHandshake(conn, infoHash, nil, crypto.DefaultOptions(true, true))
	}()
	p := &mse.ServerParams{X: big.NewInt(77777), PadB: 3, PadD: 0, Select: 2, SKeys: [][]byte{infoHash}}
	res, herr := mse.ServerRun(rw{fromClient, writerFunc(func(b []byte) (int, error) { toClient.write(b, true); return len(b), nil })}, p)
	<-done
	if herr != nil || cerr != nil {
		out.Note = fmt.Sprintf("set-up handshake failed: %v / %v", herr, cerr)
		return
	}
	if _, ok := cc.(*crypto.Conn); !ok {
		out.Note = "set-up did not give an encrypted connection"
		return
	}
	// from now on the underlying connection follows the script
	conn.wmu.Lock()
	conn.accept = c.Accept
	conn.nwrites = 0
	conn.wire = nil
	conn.wmu.Unlock()
	var plain []byte
	failed := false
	for k, n := range c.Writes {
		b := make([]byte, n)
		for i := range b {
			b[i] = byte(k*31 + i)
		}
		before := len(conn.wire)
		m, err := cc.Write(b)
		if failed {
			if err == nil || m != 0 || len(conn.wire) != before {
				viol("write-after-failure", fmt.Sprintf("Write %d after a failed write returned (%d, %v) and put %d bytes on the wire", k, m, err, len(conn.wire)-before))
			}
			continue
		}
		if err != nil {
			failed = true
			if m > n {
				m = n
			}
		} else if m != n {
			viol("short-write-no-error", fmt.Sprintf("Write %d returned (%d, nil) for %d bytes", k, m, n))
		}
		plain = append(plain, b...)
	}
	// the far end decrypts with the independently derived key
	wire := append([]byte{}, conn.wire...)
	dec := make([]byte, len(wire))
	res.Keys.Dec.XORKeyStream(dec, wire)
	if len(dec) > len(plain) || !bytes.Equal(dec, plain[:len(dec)]) {
		viol("keystream-desynchronised", fmt.Sprintf("the %d bytes on the wire do not decrypt to a prefix of what was written", len(wire)))
	}
	if !failed && len(dec) != len(plain) {
		viol("bytes-lost", fmt.Sprintf("%d bytes written without error, %d on the wire", len(plain), len(dec)))
	}
	out.Observed = fmt.Sprintf("wire=%d plain=%d failed=%v", len(wire), len(plain), failed)
}

var _ = rc4.KeySizeError(0)

// Handle is the worker-side entry point.
func Handle(in []byte) any {
	var c Case
	if err := json.Unmarshal(in, &c); err != nil {
		return &Out{Note: "bad case: " + err.Error()}
	}
	out := &Out{ID: c.ID}
	switch c.Kind {
	case "policy":
		runPolicy(&c, out)
	case "segserver":
		runSegServer(&c, out)
	case "segclient":
		runSegClient(&c, out)
	case "conn":
		runConn(&c, out)
	default:
		out.Note = "unknown kind"
	}
	return out
}
